"""Shared driver machinery of /verif/bin/check.

A check is a Python function `run(ctx)` in /verif/checks/<ID>.py which strings together
  ctx.tlc(...)      model-check / simulate a specification, collect emitted behaviours
  ctx.build(...)    cargo build of a harness binary (offline, from /repo's working tree)
  ctx.harness(...)  spec -> impl: replay emitted behaviours into the real code
  ctx.trace(...)    impl -> spec: validate a recorded event trace with TLC
and the driver turns what they found into VIOLATION / KNOWN-FINDING lines, an evidence file
and an exit code (0 held, 1 violation, 2 tool error).
"""
import hashlib
import json
import os
import re
import shutil
import subprocess
import sys
import time

VERIF = os.path.dirname(os.path.dirname(os.path.abspath(__file__)))
SPEC = os.path.join(VERIF, "spec")
HARNESS = os.path.join(VERIF, "harness")
WORK = os.path.join(VERIF, ".work")
REPLAYS = os.path.join(VERIF, "replays")
EVIDENCE = os.path.join(VERIF, "evidence")
KNOWN = os.path.join(VERIF, "known_findings.txt")

TRACE_JAVA_OPTS = "-Xss1g -Dtlc2.tool.queue.IStateQueue=StateDeque"
# The `tlc` wrapper on PATH hard-wires the parallel collector, which spends most of its time in
# the kernel on this VM (measured: 28 s vs 8 s for the same run); call the same jar with the
# serial collector instead.
TLA_CP = "/opt/veriftools/tla/tla2tools.jar:/opt/veriftools/tla/CommunityModules-deps.jar"
TLC = ["java", "-XX:+UseSerialGC", "-Xms1g", "-Xmx16g", "-Xmn768m", "-cp", TLA_CP, "tlc2.TLC"]


class ToolError(Exception):
    pass


def sh(cmd, cwd=None, env=None, timeout=None):
    e = dict(os.environ)
    if env:
        e.update(env)
    t0 = time.time()
    try:
        p = subprocess.run(cmd, cwd=cwd, env=e, timeout=timeout, stdout=subprocess.PIPE,
                           stderr=subprocess.STDOUT, text=True, errors="replace")
    except subprocess.TimeoutExpired as ex:
        out = ex.stdout if isinstance(ex.stdout, str) else (ex.stdout or b"").decode(errors="replace")
        return 124, out, time.time() - t0
    return p.returncode, p.stdout, time.time() - t0


def load_known():
    """known_findings.txt: lines
         known: property=<id> key=<exact key> -- <what fails>
         known: property=<id> site=<exact site> -- <what fails>
         fixed: property=<id> <commit> <what failed>
    Only `known:` lines suppress anything, and only an exactly matching key or call site."""
    out = []
    if not os.path.exists(KNOWN):
        return out
    for line in open(KNOWN):
        line = line.strip()
        if not line.startswith("known:"):
            continue
        m = re.match(r"known:\s+property=(\S+)\s+(key|site)=(.*?)\s+--\s+(.*)$", line)
        if not m:
            raise ToolError("malformed line in known_findings.txt: " + line)
        out.append({"prop": m.group(1), "field": m.group(2), "value": m.group(3), "text": m.group(4),
                    "hits": 0})
    return out


class Ctx:
    def __init__(self, pid, tier, seed, replay=None):
        self.pid, self.tier, self.seed, self.replay = pid, tier, seed, replay
        self.t0 = time.time()
        self.work = os.path.join(WORK, pid)
        shutil.rmtree(self.work, ignore_errors=True)
        os.makedirs(self.work, exist_ok=True)
        os.makedirs(REPLAYS, exist_ok=True)
        os.makedirs(EVIDENCE, exist_ok=True)
        self.states = 0
        self.transitions = 0
        self.validated = 0          # behaviours replayed into the code + traces accepted
        self.samples = []
        self.violations = []        # dicts: what, key, site, replay
        self.known = [k for k in load_known() if k["prop"] == pid]
        self.cov = {"tlc_runs": [], "harness_runs": [], "traces": []}
        self.assumptions = []
        self.exhaustive = True
        self.quick = tier == "quick"

    # ------------------------------------------------------------------ TLC
    def jtmp(self):
        """Per-check java.io.tmpdir (TLC leaves tlc-<n> directories behind); emptied on every call."""
        d = os.path.join(self.work, "jtmp")
        shutil.rmtree(d, ignore_errors=True)
        os.makedirs(d, exist_ok=True)
        return d

    def tlaps(self, name, module, needs=(), timeout=900):
        """Check the proofs of spec/<module>.tla with the TLA+ proof system (tlapm) in a scratch copy
        (module + the modules it extends): every obligation must be proved.  An unproved obligation
        means the specified design no longer carries the stated invariant: reported as a violation."""
        d = os.path.join(self.work, "tlaps-" + name)
        shutil.rmtree(d, ignore_errors=True)
        os.makedirs(d)
        for m in (module,) + tuple(needs):
            shutil.copy(os.path.join(SPEC, m + ".tla"), d)
        rc, out, dt = sh(["tlapm", "--threads", "8", "--cleanfp", module + ".tla"], cwd=d, timeout=timeout)
        with open(os.path.join(self.work, "tlaps-%s.log" % name), "w") as f:
            f.write(out)
        if rc == 124:
            raise ToolError("tlapm timed out on %s (%ds)" % (module, timeout))
        m = re.search(r"All (\d+) obligations? proved", out)
        failed = re.search(r"(\d+)/(\d+) obligations? failed", out)
        shutil.rmtree(d, ignore_errors=True)
        if m:
            self.cov.setdefault("tlaps_runs", []).append({"name": name, "module": module, "obligations_proved": int(m.group(1)),
                                                          "wall_s": round(dt, 1)})
            return int(m.group(1))
        if failed:
            what = "%s of %s proof obligations of %s are not proved" % (failed.group(1), failed.group(2), module)
            path = self.save_replay({"kind": "tlaps", "module": module, "what": what, "tlapm_output_tail": out.splitlines()[-60:]})
            self.violations.append({"what": what, "key": "proof|%s" % module, "site": "proof|" + module, "replay": path})
            return 0
        raise ToolError("tlapm failed on %s (rc=%d):\n%s" % (module, rc, "\n".join(out.splitlines()[-25:])))

    def tlc(self, name, module, cfg=None, sim=None, workers=8, timeout=900, env=None, depth=None,
            emit=True, expect_violation=False):
        """Run TLC on spec/<module>.tla with spec/<cfg>.  sim=(num, depth) switches to
        -simulate.  Returns dict(states, generated, emitted=<path or None>)."""
        cfg = cfg or module + ".cfg"
        meta = os.path.join(self.work, "tlc-" + name)
        cmd = TLC[:1] + ["-Djava.io.tmpdir=" + self.jtmp()] + TLC[1:] + ["-workers", str(workers), "-metadir", meta, "-cleanup", "-noGenerateSpecTE",
                     "-config", cfg]
        if sim:
            cmd += ["-simulate", "num=%d" % sim[0], "-depth", str(sim[1]), "-seed", str(self.seed)]
            self.exhaustive = False
        else:
            cmd += ["-seed", str(self.seed)]          # Randomization!RandomSubset in Init (long-series configurations)
            if depth:
                cmd += ["-depth", str(depth)]
        cmd += [module + ".tla"]
        rc, out, dt = sh(cmd, cwd=SPEC, env=env, timeout=timeout)
        log = os.path.join(self.work, "tlc-%s.log" % name)
        emitted = None
        lines = out.splitlines()
        replay_lines = []
        rest = []
        for ln in lines:
            if ln.startswith('<<"REPLAY", '):
                m = re.match(r'<<"REPLAY", (".*")>>\s*$', ln)
                if not m:
                    raise ToolError("unparsable REPLAY line from TLC: " + ln[:200])
                replay_lines.append(json.loads(m.group(1)))
            else:
                rest.append(ln)
        with open(log, "w") as f:
            f.write("\n".join(rest))
        shutil.rmtree(meta, ignore_errors=True)
        if rc == 124:
            raise ToolError("TLC timed out on %s (%ds)" % (module, timeout))
        text = "\n".join(rest)
        gen = dist = 0
        m = re.search(r"([\d,]+) states generated, ([\d,]+) distinct states found", text)
        if m:
            gen, dist = int(m.group(1).replace(",", "")), int(m.group(2).replace(",", ""))
        if sim:
            m = re.search(r"The number of states generated: ([\d,]+)", text)
            if m:
                gen = dist = int(m.group(1).replace(",", ""))
        viol = None
        m = re.search(r"Invariant (\S+) is violated", text)
        if m:
            viol = "invariant %s violated in specification %s" % (m.group(1), module)
        elif "Temporal properties were violated" in text:
            viol = "temporal property violated in specification %s" % module
        elif re.search(r"Action property .* is violated", text):
            viol = "action property violated in specification %s" % module
        elif "Deadlock reached" in text:
            viol = "deadlock in specification %s" % module
        elif re.search(r"^Error:", text, re.M) or (rc != 0 and not sim) or (sim and rc not in (0,)):
            if not viol:
                tail = "\n".join(rest[-25:])
                raise ToolError("TLC failed on %s/%s (rc=%d):\n%s" % (module, cfg, rc, tail))
        if emit and replay_lines:
            emitted = os.path.join(self.work, "emit-%s.ndjson" % name)
            with open(emitted, "w") as f:
                for s in replay_lines:
                    f.write(s + "\n")
        self.states += dist
        self.transitions += gen
        self.cov["tlc_runs"].append({"name": name, "module": module, "cfg": cfg, "mode": "simulate" if sim else "bfs",
                                     "distinct_states": dist, "states_generated": gen,
                                     "behaviours_emitted": len(replay_lines), "wall_s": round(dt, 1)})
        if viol and not expect_violation:
            path = self.save_replay({"kind": "tlc", "module": module, "cfg": cfg, "what": viol,
                                     "tlc_output_tail": rest[-60:]})
            self.violations.append({"what": viol, "key": "spec|%s|%s" % (module, cfg), "site": "spec|" + module,
                                    "replay": path})
        return {"states": dist, "generated": gen, "emitted": emitted, "n_emitted": len(replay_lines),
                "violation": viol, "log": log}

    # ---------------------------------------------------------------- cargo
    def build(self, pkg, features=None, timeout=3000):
        cmd = ["cargo", "build", "--offline", "-p", pkg]
        if features:
            cmd += ["--features", features]
        env = {"CARGO_NET_OFFLINE": "true"}
        rc, out, dt = sh(cmd, cwd=HARNESS, env=env, timeout=timeout)
        if rc != 0:
            errs = [l for l in out.splitlines() if l.startswith("error")]
            raise ToolError("cargo build of %s failed (the tree under /repo does not compile against the "
                            "harness):\n%s\n%s" % (pkg, "\n".join(errs[:10]), "\n".join(out.splitlines()[-30:])))
        self.cov.setdefault("build_s", 0)
        self.cov["build_s"] = round(self.cov["build_s"] + dt, 1)
        return os.path.join(HARNESS, "target", "debug", pkg)

    # -------------------------------------------------------------- harness
    def harness(self, name, binary, args, timeout=3000, count_validated=True):
        """Run a harness command that writes an ndjson result file (--out)."""
        outp = os.path.join(self.work, "harness-%s.ndjson" % name)
        cmd = [binary] + args + ["--out", outp, "--prop", self.pid]
        rc, out, dt = sh(cmd, timeout=timeout)
        if rc == 3 and "ESCAPED-PANIC" in out:
            self.escaped(name, cmd, out, timeout)
            return {"cases": 0}
        if rc < 0 and rc != -9:
            # killed by a signal (SIGSEGV, SIGABRT, SIGBUS ...): the library corrupted memory or
            # aborted under the harness; that is data about the code under test, not a tool failure
            self.escaped(name, cmd, "ESCAPED-PANIC\t/repo/(signal %d)\tthe process was killed by signal %d" % (-rc, -rc), timeout,
                         crash=True)
            return {"cases": 0}
        if rc != 0:
            raise ToolError("harness %s failed rc=%d: %s" % (" ".join(cmd), rc, out[-2000:]))
        stats = None
        mism = []
        for line in open(outp):
            d = json.loads(line)
            if d.get("t") == "mismatch":
                mism.append(d)
            elif d.get("t") == "stats":
                stats = d
        if stats is None:
            raise ToolError("harness %s wrote no stats line" % name)
        for s in stats.get("samples", [])[:3]:
            if len(self.samples) < 8:
                self.samples.append(s)
        st = {k: v for k, v in stats.items() if k not in ("samples", "t", "prop")}
        st.update({"name": name, "wall_s": round(dt, 1), "cmd": " ".join(os.path.basename(c) if i == 0 else c for i, c in enumerate(cmd[:2]))})
        self.cov["harness_runs"].append(st)
        if count_validated:
            self.validated += stats.get("cases", 0)
        if stats.get("cases", 0) == 0:
            raise ToolError("harness %s replayed no case (vacuous run)" % name)
        self.absorb(mism, stats.get("mismatches", len(mism)), cmd)
        return stats

    def escaped(self, name, cmd, out, timeout, crash=False):
        """A panic of the library escaped the harness's catch: it is data, not a tool failure.
        Locate the case by bisection of the input file (cases are independent)."""
        m = re.search(r"ESCAPED-PANIC\t([^\t\n]*)\t([^\n]*)", out)
        loc, msg = (m.group(1), m.group(2)) if m else ("?", "?")
        if not loc.startswith("/repo/"):
            raise ToolError("harness %s panicked in its own code at %s: %s" % (name, loc, msg))
        case = None
        if "--in" in cmd:
            inp = cmd[cmd.index("--in") + 1]
            lines = [ln for ln in open(inp) if ln.strip()]
            tmp_in = os.path.join(self.work, "bisect-%s.ndjson" % name)
            tmp_out = os.path.join(self.work, "bisect-%s.out" % name)
            c2 = list(cmd)
            c2[c2.index("--in") + 1] = tmp_in
            c2[c2.index("--out") + 1] = tmp_out

            def fails(n):
                with open(tmp_in, "w") as f:
                    f.writelines(lines[:n])
                r = sh(c2, timeout=timeout)[0]
                return r == 3 or (crash and r < 0)
            lo, hi = 0, len(lines)          # fails(hi) holds, fails(lo) does not
            while hi - lo > 1:
                mid = (lo + hi) // 2
                if fails(mid):
                    hi = mid
                else:
                    lo = mid
            # a corrupted heap may only kill the process some cases later: prefer the single case if it
            # reproduces alone, otherwise keep the shortest failing prefix's last case
            case = json.loads(lines[hi - 1])
        rel = loc[len("/repo/"):]
        cj = json.dumps(case, sort_keys=True)[:300]
        if crash:
            d = {"t": "mismatch", "prop": self.pid, "op": "crash", "site": "crash|" + rel, "key": "crash|%s|%s" % (rel, cj),
                 "cell": "-", "detail": "%s while this case was replayed (memory corrupted or an abort inside the library)" % msg,
                 "case": case}
        else:
            d = {"t": "mismatch", "prop": self.pid, "op": "escaped-panic", "site": "escaped-panic|" + rel,
                 "key": "escaped-panic|%s|%s" % (rel, cj), "cell": "-",
                 "detail": "the library panicked at %s outside every guarded call: %s" % (rel, msg), "case": case}
        self.cov["harness_runs"].append({"name": name, "escaped_panic": rel})
        self.absorb([d], 1, cmd)

    def absorb(self, mism, total, cmd):
        """Apply known findings; everything else is a violation (one replay file per key)."""
        seen = {}
        for d in mism:
            k = None
            for kn in self.known:
                if d.get(kn["field"]) == kn["value"]:
                    k = kn
                    break
            if k:
                k["hits"] += 1
                continue
            key = d["key"]
            if key in seen:
                seen[key]["cells"].append(d["cell"])
                continue
            seen[key] = {"what": "%s: %s" % (d["op"], d["detail"]), "key": key, "site": d["site"],
                         "cells": [d["cell"]], "case": d["case"], "cmd": cmd}
        for key, v in list(seen.items())[:25]:
            v["replay"] = self.save_replay({"kind": "harness", "cmd": v["cmd"], "case": v["case"], "key": key,
                                            "site": v["site"], "what": v["what"], "cells": v["cells"][:12]})
            self.violations.append(v)
        if len(seen) > 25:
            self.cov["violations_not_listed"] = len(seen) - 25
        if total > len(mism) and not seen:
            # the harness truncates its mismatch lines; if everything listed was known but more
            # exist we cannot vouch for the rest
            if total > sum(k["hits"] for k in self.known):
                raise ToolError("more mismatches than listed (%d > %d); raise the harness limit" % (total, len(mism)))

    # ---------------------------------------------------------------- trace
    def trace(self, name, module, trace_file, cfg=None, timeout=900, n_runs=1):
        """Validate a recorded ndjson trace against spec/<module>.tla (impl -> spec)."""
        cfg = cfg or module + ".cfg"
        meta = os.path.join(self.work, "tlc-" + name)
        n_events = sum(1 for _ in open(trace_file))
        if n_events == 0:
            raise ToolError("empty trace " + trace_file)
        cmd = TLC[:1] + ["-Djava.io.tmpdir=" + self.jtmp()] + TRACE_JAVA_OPTS.split() + TLC[1:] + ["-workers", "1", "-metadir", meta, "-cleanup",
                                                             "-noGenerateSpecTE", "-config", cfg, module + ".tla"]
        env = {"TRACE": trace_file}
        rc, out, dt = sh(cmd, cwd=SPEC, env=env, timeout=timeout)
        shutil.rmtree(meta, ignore_errors=True)
        with open(os.path.join(self.work, "trace-%s.log" % name), "w") as f:
            f.write(out)
        if rc == 124:
            raise ToolError("trace validation timed out: " + name)
        text = out
        what = None
        m = re.search(r'"TRACE-REJECTED",\s*(\d+),\s*(.*?)>>\s+FALSE', text, re.S)
        minv = re.search(r"Invariant (\S+) is violated", text)
        if minv:
            what = "recorded trace violates %s of %s" % (minv.group(1), module)
            ml = re.findall(r"/\\ l = (\d+)", text)
            if ml:
                what += " at event %s" % ml[-1]
        elif m:
            what = "recorded trace rejected by %s at event %s: %s" % (module, m.group(1),
                                                                       " ".join(m.group(2).split())[:300])
        elif "Model checking completed. No error has been found." not in text:
            raise ToolError("trace validation of %s failed:\n%s" % (name, "\n".join(text.splitlines()[-25:])))
        gen = 0
        mm = re.search(r"([\d,]+) states generated, ([\d,]+) distinct states found", text)
        if mm:
            gen = int(mm.group(1).replace(",", ""))
        self.cov["traces"].append({"name": name, "module": module, "events": n_events, "runs": n_runs,
                                   "accepted": what is None, "wall_s": round(dt, 1)})
        if what is None:
            self.validated += n_runs
            self.transitions += gen
            self.states += gen
            with open(trace_file) as f:
                head = [json.loads(next(f)) for _ in range(min(3, n_events))]
            if len(self.samples) < 10:
                self.samples.append({"trace_head": head})
        else:
            keep = os.path.join(REPLAYS, "%s-trace-%s.ndjson" % (self.pid, name))
            shutil.copy(trace_file, keep)
            path = self.save_replay({"kind": "trace", "module": module, "cfg": cfg, "trace": keep, "what": what})
            self.violations.append({"what": what, "key": "trace|%s|%s" % (module, name), "site": "trace|" + module,
                                    "replay": path})
        return what is None

    def record_and_trace(self, name, binary, rec_args, module, n_runs, cfg=None, timeout=1800):
        """impl -> spec in one go: let the harness record a trace, then validate it."""
        tr = os.path.join(self.work, "trace-%s.ndjson" % name)
        rc, out, _ = sh([binary] + rec_args + ["--out", tr], timeout=timeout)
        if rc != 0:
            raise ToolError("recording %s failed: %s" % (name, out[-800:]))
        return self.trace(name, module, tr, cfg=cfg, n_runs=n_runs, timeout=timeout)

    # ------------------------------------------------------------- plumbing
    def save_replay(self, obj):
        # small side inputs of the command (the law tables) travel with the replay file
        cmd = obj.get("cmd") or []
        for i, a in enumerate(cmd):
            if a == "--laws" and i + 1 < len(cmd) and os.path.exists(cmd[i + 1]):
                obj.setdefault("aux", {})["--laws"] = open(cmd[i + 1]).read()
        blob = json.dumps(obj, sort_keys=True)
        h = hashlib.sha1(blob.encode()).hexdigest()[:12]
        path = os.path.join(REPLAYS, "%s-%s.json" % (self.pid, h))
        with open(path, "w") as f:
            f.write(blob)
        return path

    def finish(self, level="model_checking", rule=None):
        wall = time.time() - self.t0
        for k in self.known:
            if k["hits"]:
                print("KNOWN-FINDING: property=%s %s=%s %s" % (self.pid, k["field"], k["value"], k["text"]))
        for v in self.violations:
            print("VIOLATION property=%s replay=%s" % (self.pid, v["replay"]))
            print("  " + v["what"][:400] + (" [key %s]" % v["key"]))
        cov = {
            "states": self.states, "transitions": self.transitions,
            "traces_validated_against_impl": self.validated,
            "samples": [shrink(x) for x in self.samples[:8]] or [{"note": "no sample"}],
            "exhaustive": self.exhaustive,
        }
        cov.update(self.cov)
        if rule:
            cov["rule"] = rule
        cov["known_findings_hit"] = [{"field": k["field"], "value": k["value"], "hits": k["hits"]}
                                     for k in self.known if k["hits"]]
        ev = {"property_id": self.pid, "tier": self.tier, "seed": self.seed, "level": level,
              "coverage": cov, "assumptions": self.assumptions, "wall_s": round(wall, 1),
              "violations": len(self.violations)}
        if cov["states"] < 1 or cov["transitions"] < 1:
            raise ToolError("no specification states explored")
        with open(os.path.join(EVIDENCE, self.pid + ".json"), "w") as f:
            json.dump(ev, f, indent=1)
        print("%s %s: %s  (states=%d, transitions=%d, validated=%d, %.0fs)" % (
            self.pid, self.tier, "VIOLATED" if self.violations else "held", self.states, self.transitions,
            self.validated, wall))
        return 1 if self.violations else 0


def shrink(obj, keep=24):
    """Evidence samples are illustrations: long arrays (the long-window cases hold tens of thousands of
    positions) are cut to their first elements with a note of how many were dropped."""
    if isinstance(obj, list):
        if len(obj) > keep:
            return [shrink(x, keep) for x in obj[:keep]] + ["... %d more" % (len(obj) - keep)]
        return [shrink(x, keep) for x in obj]
    if isinstance(obj, dict):
        return {k: shrink(v, keep) for k, v in obj.items()}
    return obj


def replay_file(path):
    """Re-run exactly the case stored in a replay file."""
    obj = json.load(open(path))
    kind = obj["kind"]
    if kind == "harness":
        tmp = os.path.join(WORK, "replay-one")
        os.makedirs(tmp, exist_ok=True)
        inp = os.path.join(tmp, "case.ndjson")
        with open(inp, "w") as f:
            f.write(json.dumps(obj["case"]) + "\n")
        cmd = list(obj["cmd"])
        pkg = os.path.basename(cmd[0])
        rc, out, _ = sh(["cargo", "build", "--offline", "-p", pkg], cwd=HARNESS)
        if rc != 0:
            print(out[-3000:])
            return 2
        for i, a in enumerate(cmd):
            if a == "--in":
                cmd[i + 1] = inp
            if a == "--out":
                cmd[i + 1] = os.path.join(tmp, "out.ndjson")
            if a in obj.get("aux", {}):
                auxp = os.path.join(tmp, "aux%d.ndjson" % i)
                with open(auxp, "w") as f:
                    f.write(obj["aux"][a])
                cmd[i + 1] = auxp
        rc, out, _ = sh(cmd)
        if rc == 3 and "ESCAPED-PANIC" in out:
            print("MISMATCH " + out.strip().splitlines()[-1])
            print("replay: 1 mismatch(es)")
            return 1
        if rc < 0 and rc != -9:
            print("MISMATCH the process was killed by signal %d" % -rc)
            print("replay: 1 mismatch(es)")
            return 1
        if rc != 0:
            print(out[-3000:])
            return 2
        bad = 0
        for line in open(os.path.join(tmp, "out.ndjson")):
            d = json.loads(line)
            if d.get("t") == "mismatch":
                bad += 1
                print("MISMATCH %s [%s] %s" % (d["key"], d["cell"], d["detail"]))
        print("replay: %d mismatch(es)" % bad)
        return 1 if bad else 0
    if kind == "trace":
        ctx = Ctx("REPLAY", "quick", 0)
        ok = ctx.trace("replay", obj["module"], obj["trace"], cfg=obj.get("cfg"))
        for v in ctx.violations:
            print(v["what"])
        return 0 if ok else 1
    if kind == "tlc":
        print(obj["what"])
        print("\n".join(obj.get("tlc_output_tail", [])))
        return 1
    if kind == "tlaps":
        # re-run the proof: the modules are the current ones of spec/
        ctx = Ctx("REPLAY", "quick", 0)
        needs = tuple(os.path.basename(f)[:-4] for f in sorted(os.listdir(SPEC)) if f.endswith("Idx.tla"))
        n = ctx.tlaps("replay", obj["module"], needs=needs)
        for v in ctx.violations:
            print(v["what"])
        print("replay: %s" % ("%d obligations proved" % n if n else "unproved obligations"))
        return 0 if n else 1
    return 2
