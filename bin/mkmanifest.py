#!/usr/bin/env python3
"""Regenerate /verif/MANIFEST.json from the table below and the check modules that exist."""
import json
import os

VERIF = os.path.dirname(os.path.dirname(os.path.abspath(__file__)))

ALL = ["C%02d" % i for i in range(1, 21)]

TECH = "explicit TLA+ specification model-checked with TLC; conformance by replay of TLC-emitted behaviours into the real code and by TLC validation of traces recorded from the real code"

META = {
    "C02": {
        "text": "Window.tla states the required callback protocol (one invocation per position, in order, with the "
                "window start i-w+1 / nothing-to-remove rule, the slice range max(0,i-w+1)..=i, result stored at i) and "
                "the machine of the two driver bodies; TLC checks the machine against the protocol for every form, "
                "length and window within the bound (exhaustive). The binding is two-way: every enumerated request is "
                "replayed into all eight real entry points on every backend/output/path cell with a recording stateful "
                "callback, and randomly driven larger runs are recorded as event traces and accepted only if TLC finds "
                "them to be behaviours of TraceWindow.tla. Bounded model checking plus conformance; in addition the index "
                "arithmetic Window.tla uses (WindowIdx.tla) is PROVED in bounds, write-once and complete for every length "
                "and window with the TLA+ proof system (WindowProof.tla, tlapm).",
        "note": "TLC and the TLA+ modules are trusted; drivers are parametric in element values, so position-coded "
                "values are used; lengths up to 7 (quick) / 12 (thorough) exhaustively, up to 120 by random traces.",
        "design": "DESIGN.md section 6 C02, section 4 Window",
        "engine": "window",
    },
}

TWOWAY = (" The binding is two-way: every behaviour TLC emits is replayed into the real entry points and compared under "
          "the property's own relation, and runs of the real code larger than TLC enumerates are recorded as event traces "
          "that TLC accepts only if they are behaviours of the trace specification (all invariants evaluated at every "
          "step). Bounded model checking plus conformance, not a proof.")
NOTE = ("TLC and the TLA+ modules are trusted; values are small integers/NULL (exact arithmetic in the spec, rounding "
        "tolerance 1e-9 relative in the comparison); where the statistic is homogeneous in the unit of its series "
        "(Laws1/2/3.tla, law checked by TLC, degree table emitted) every case is replayed again in other units (1.3e-4, "
        "123467.8, 4e8 for i32, 1.5e18 for i64) at 1e-6 relative to the magnitude of the terms; bounds and alphabets are "
        "in the evidence file of each run.")

META.update({
    "C01": {
        "text": "RollKernels.tla models the code's running accumulators (n, power sums, rank-weighted sum, shifted-subtraction "
                "numerator) as a streaming machine and Stats.tla the from-scratch definitions in exact rationals; TLC checks "
                "NoDrift, MomentsAgree and OutDef after every step of every history within the bound (BFS) and of random deep "
                "histories (simulation); RollSumProof.tla proves the add -> emit -> remove protocol exact for EVERY length, "
                "window and summand with the TLA+ proof system (what is emitted is the sum over exactly the window)." + TWOWAY,
        "note": NOTE + " Plain family on null-free series (DESIGN 5.7); skew/kurt bound by replay only.",
        "design": "DESIGN.md section 6 C01, section 4 RollKernels",
    },
    "C03": {
        "text": "The extrema cache with its rescan-on-expiry, the rank recount, z-score and min-max normalisation are in "
                "RollKernels.tla; TLC checks OutDef (least/greatest valid element, most recent arg, average rank, null on "
                "zero spread) and CacheInWindow on tie-heavy bounded histories and simulated plateau/monotone runs; min, max, "
                "arg and rank are compared exactly." + TWOWAY,
        "note": NOTE + " Omitted min_periods of the extrema family for len >= w only (DESIGN 5.3).",
        "design": "DESIGN.md section 6 C03",
    },
    "C04": {
        "text": "RollKernels2.tla models the cross sums of the two-series kernels against normal-equation least squares over "
                "pairwise-complete observations with explicit residuals; the trend family is in RollKernels.tla; TLC checks "
                "NoDrift2, OutDef2, MaskLaw2 and PerfectLineZeroResidual over all pairs of series within the bound, and NoDrift2W / "
                "Step2OK on the history-free graph of RollWin2.tla (histories of every length)." + TWOWAY,
        "note": NOTE + " Constant regressor / zero variance windows are unspecified (DESIGN 5.6); SSE and residual std/skew "
                "bound by replay only.",
        "design": "DESIGN.md section 6 C04",
    },
    "C05": {
        "text": "MaskLaw and LenOK of RollKernels / RollKernels2 state the null pattern (count below min(min_periods,w) or "
                "below the intrinsic minimum) and one-output-per-input; TLC checks them for every null pattern, length "
                "(incl. 0 and len < w), window and min_periods within the bound; the replay compares null pattern and length "
                "of every entry point and treats any panic as a violation." + TWOWAY,
        "note": NOTE + " Undefined statistics leave the pattern open (DESIGN 5.6).",
        "design": "DESIGN.md section 6 C05",
    },
})

ENUM = (" The binding is by replay: TLC's enumeration of the whole small-scope input space becomes one implementation "
        "case per state, compared under the property's own relation on every element type / encoding / backend cell. "
        "Bounded-exhaustive model checking of the specification plus conformance, not a proof.")

META.update({
    "C06": {
        "text": "AppendOnly (an action property: emitted outputs are never revised and exist before the next input does) and "
                "OutDef (an output is a function of its window only) of RollKernels / RollKernels2, and PrefixLaw of MapOps "
                "for non-negative lags, are checked by TLC; the binding evaluates the real functions on every prefix of every "
                "emitted history and requires bit-for-bit equality with the whole-series run, and re-runs histories with the "
                "pre-window part replaced (exact for min/max/arg/rank, rounding otherwise)." + ENUM,
        "note": NOTE + " Replaced histories are finite integers of bounded magnitude (DESIGN 5.2); omitted min_periods of "
                "the extrema family excluded from the prefix law (DESIGN 5.3).",
        "design": "DESIGN.md section 6 C06, 5.2",
    },
    "C08": {
        "text": "Every definition of Agg / OrderStats / RollKernels is over Sel(s) / PairSel (NullTransparent checked by TLC "
                "for all null positions); on the code, one expectation is replayed under NaN-coded, None-coded and "
                "option-view encodings with f64 / f32 / Option<f64> / i32 outputs, NaN- vs None-coded results must be "
                "bit-identical, and deleting the nulls must leave every aggregation bit-identical." + ENUM,
        "note": NOTE + " Canonical nulls only (DESIGN 5.4).",
        "design": "DESIGN.md section 6 C08",
    },
    "C11": {
        "text": "Agg.tla gives the textbook meaning of every aggregation over the non-null elements with its observation "
                "threshold and the one-pass fold machine; TLC runs the fold over every series / pair / mask within the bound "
                "and checks FoldRefines, FoldPrefix, PermInvariant over all permutations, NullTransparent, FoldPrimitives "
                "(the fold primitives bound by their closure calls), and InfLaws for float series holding infinities." + ENUM,
        "note": NOTE + " AggBasic twins on null-free input (DESIGN 5.9).",
        "design": "DESIGN.md section 6 C11",
    },
    "C12": {
        "text": "OrderStats.tla defines quantile at the exact rational index under four interpolations, percentile-of-score, "
                "average ranks and partitions as multisets; the mirrored selection for q > 1/2 and vrank's run-length loop "
                "(as its list of unchecked writes) are operational models checked against the definitions (MirrorOK, "
                "RankLoopOK incl. exactly-once writes)." + ENUM,
        "note": NOTE + " Knife-edge quantile indices accept either neighbour (DESIGN 5.5).",
        "design": "DESIGN.md section 6 C12",
    },
    "C13": {
        "text": "MapOps.tla: positional definitions, fill machines (FillRefines), LenPreserved, FillLaws, ClipLaws "
                "(idempotent, inside bounds, monotone, nulls stay null) checked by TLC over every series, lag band incl. the "
                "i32 extremes, fill and bound combination; FillProof.tla proves that the carried-last-valid closure computes the "
                "positional definition for a series of ANY length (TLA+ proof system, induction)." + ENUM,
        "note": NOTE,
        "design": "DESIGN.md section 6 C13",
    },
    "C14": {
        "text": "MapOps.tla: CutOne with UniqueBin and OpenBoundsTotal, and the sorted-unique look-ahead machine against run "
                "ends (UniqRefines, never a null index), checked by TLC over every ascending edge vector, label count, flag "
                "combination and grouped series, and every order of values (binning is positional); CutProof.tla proves "
                "UniqueBin / OutsideNoBin / InsideHasBin for ascending edge vectors of ANY length with the TLA+ proof system." + ENUM,
        "note": NOTE + " Null-capable label types only (DESIGN 5.8).",
        "design": "DESIGN.md section 6 C14",
    },
})

META.update({
    "C09": {
        "text": "TrustedIter.tla lowers every library adaptor to the std combinators it is built from with the length it "
                "declares (ConstructionTruthful over the whole parameter band incl. lags beyond the series, k >= len, empty "
                "input) and models the consumption of the library's own TrustIter / Linspace under every interleaving of "
                "next / next_back (HintExact in every reachable state); TrustProof.tla proves the closed forms of the lowered "
                "adaptors (tied to the combinator trees by ClosedFormsAgree) equal to the required length for EVERY source "
                "length, lag, window and k with the TLA+ proof system." + TWOWAY,
        "note": NOTE + " std's combinators are trusted; iterators reach the trusted collectors only after a safe count.",
        "design": "DESIGN.md section 6 C09",
    },
    "C10": {
        "text": "ReadsInBounds, WriteOnce, InitAtDone and DegenerateIsClean of Window.tla (every form, body, length, second "
                "length, window incl. 0 and > len) and the write list of vrank's run-length loop in OrderStats.tla are checked "
                "by TLC; the binding runs every driver and every kernel on an instrumented, bounds-checked input container "
                "into an instrumented output buffer on both output paths; WindowProof.tla proves the drivers' index "
                "arithmetic (the operators Window.tla itself uses) in bounds, write-once and complete for EVERY length and "
                "window with the TLA+ proof system (tlapm; the proof is re-checked on every run)." + TWOWAY,
        "note": NOTE + " Kernel-internal scratch indices are covered at design level only (DESIGN 10).",
        "design": "DESIGN.md section 6 C10",
    },
    "C19": {
        "text": "Generators.tla: RangeExact (progression strictly before the end in the direction of the step, exact count "
                "law), LinspaceEnds, first-error rule, and the writer machine with WriterRule (every slot exactly once or "
                "none) and termination; RangeProof.tla proves the count law (none beyond, none missing) for EVERY integer "
                "start / end and non-zero step with the TLA+ proof system, on the operators Generators.tla itself uses "
                "(RangeIdx.tla); collect sources include the crate's own trusted wrapper over inexact-hint sources." + ENUM,
        "note": NOTE + " Float ranges driven with exactly representable quarter-integers.",
        "design": "DESIGN.md section 6 C19",
    },
})

META.update({
    "C20": {
        "text": "HalfLife.tla is the doubling / bisection search as a state machine over every above-1/2 pattern; TLC checks "
                "NoUnderflow, BracketInv, InRange, ResultLaw and the liveness property Terminates under weak fairness. "
                "Composite.tla decides the pattern of a concrete integer series exactly, defines winsorize as clipping to "
                "exact bounds and Spearman as Pearson of average ranks. HalfLifeProof.tla carries the same three actions with "
                "length and pattern as constants and proves NoUnderflow, BracketInv, InRange and a strictly shrinking bracket "
                "for EVERY length and pattern with the TLA+ proof system (tlapm; re-checked on every run)." + ENUM,
        "note": NOTE + " Exact-1/2 autocorrelations and non-monotone patterns are compared on range / termination only.",
        "design": "DESIGN.md section 6 C20",
    },
})

META.update({
    "C07": {
        "text": "Containers.tla gives every backend as a representation with a refinement mapping Logical(c) (plain buffer, "
                "ring buffer with every head offset, strided / reversed views, chunked arrays with validity) and the accessors "
                "as the adapters compute them; TLC checks AccessorsAgree and RingLive for every representation parameter "
                "within the bound; every representation is built as the real container, its accessors compared with "
                "Logical(c), and one representative of every function family required to be bit-identical on every "
                "representation, wrapper, output container and output path; WriteMapOK / SetOneOK / SortOK / DerivedAgree cover "
                "the representation as an output buffer, the mutable accessors, in-place sorting and the option / cast views; "
                "DynForwards covers the dynamic layer (a named, dtype-tagged Polars Series forwarding to the static kernels); "
                "ContainersProof.tla proves the ring / strided slot-to-cell maps injective for every parameter." + ENUM,
        "note": NOTE + " std / ndarray / Polars internals trusted; one known finding (fast-path input with a Polars output container).",
        "design": "DESIGN.md section 6 C07",
    },
    "C15": {
        "text": "Casts.tla: CastExp over type tags and value classes, NullPreserved, OptionComposes, PredicatesCoherent and "
                "the comparator axioms over all triples, StrCoherent (String / &str sources: the text of a value class parsed "
                "into the target type), IntoKindCoherent and TDAxioms, checked by TLC on the definition." + ENUM,
        "note": NOTE + " Wrap / saturation outcomes are compared with the language's `as` in the harness.",
        "design": "DESIGN.md section 6 C15",
    },
    "C16": {
        "text": "TimeArith.tla: instants as mixed-radix triples, the proleptic Gregorian calendar and NaT-absorbing operators; "
                "CoarserIsFloor, FinerAndBack, TruncTowardPast, CalendarRoundTrip and the NaT laws checked by TLC on a grid "
                "with range limits, pre-epoch non-divisible instants, leap days and far years; TimeProof.tla proves the unit-change "
                "laws (truncation toward the past, composition to the coarser unit) for EVERY instant with the TLA+ proof "
                "system." + ENUM,
        "note": "TLC trusted; the triple <-> i64 representation map of the harness and chrono (the reference calendar the "
                "property names) are trusted base.",
        "design": "DESIGN.md section 6 C16",
    },
    "C17": {
        "text": "TimeArith.tla: AddSubInverse, DiffAddsBack, GroupAxioms, ScaleDistributes, end-of-month clamping, "
                "TruncIsGreatestMultiple, MonthTruncIsPeriodStart, HmsRoundTrip checked by TLC over instants at month ends / "
                "leap days / year ends / pre-epoch, durations of every fixed unit with both signs, month counts -1200..1200; "
                "TimeProof.tla proves the month-free inverse laws and the group axioms for EVERY instant and duration with the "
                "TLA+ proof system (217 obligations)." + ENUM,
        "note": "TLC trusted; representation map and chrono trusted; durations added to a date-time are whole units of it.",
        "design": "DESIGN.md section 6 C17",
    },
    "C18": {
        "text": "DurationParse.tla: the duration scanner as a state machine over symbol strings with an independently defined "
                "grammar; TLC checks Total (liveness), StartLeI and Sound (well-formed => the sum of the terms) over every "
                "string up to the bound and every string of a grammar-directed alphabet up to a longer one; every string is "
                "given to all the parsers under catch_unwind; the date-time format / parse round trip is replayed on the C16 "
                "grid." + ENUM,
        "note": "TLC trusted; chrono's parser / formatter bound by conformance only.",
        "design": "DESIGN.md section 6 C18",
    },
})

DEFAULT_NA = "check not built yet in this round (work in progress; see DESIGN.md section 11)"


def main():
    checks = []
    na = []
    for pid in ALL:
        if os.path.exists(os.path.join(VERIF, "checks", pid + ".py")) and pid in META:
            m = META[pid]
            checks.append({
                "property_id": pid,
                "quick_cmd": "bin/check %s --tier quick" % pid,
                "thorough_cmd": "bin/check %s --tier thorough" % pid,
                "evidence_file": "/verif/evidence/%s.json" % pid,
                "replay_cmd_template": "bin/check %s --replay {path}" % pid,
                "engine": m.get("engine", "tlc+harness"),
                "level_claimed": {"category": "model_checking", "text": m["text"], "design_ref": m["design"]},
                "level_note": m["note"],
                "technique": m.get("technique", TECH),
            })
        else:
            na.append({"property_id": pid, "reason": META.get(pid, {}).get("na", DEFAULT_NA)})
    man = {
        "version": 1,
        "setup_cmd": "bin/check --setup",
        "hooks": {
            "guard": "tevec_verif",
            "enable": "RUSTFLAGS='--cfg tevec_verif' via /verif/harness/.cargo/config.toml (no source hook is needed: "
                      "the library's open traits Vec1View / Vec1 / FnMut callbacks expose the abstract state)",
            "baseline_off_cmd": "cd /repo && cargo test --workspace --no-fail-fast --offline",
            "source_commits": [],
            "add_only": True,
        },
        "engines": [
            {"name": "tlc", "path": "/verif/spec", "serves_properties": [c["property_id"] for c in checks],
             "kind_free_text": "TLA+ specifications, bounded-exhaustive and simulation configurations, trace specifications"},
            {"name": "harness", "path": "/verif/harness", "serves_properties": [c["property_id"] for c in checks],
             "kind_free_text": "Rust conformance harnesses (replay of emitted behaviours, trace recording with instrumented containers)"},
        ],
        "checks": checks,
        "not_applicable": na,
        "notes": "bin/check <ID> --tier quick|thorough; exit 0 held / 1 VIOLATION / 2 tool error. known_findings.txt lists "
                 "fixed and known findings.",
    }
    with open(os.path.join(VERIF, "MANIFEST.json"), "w") as f:
        json.dump(man, f, indent=1)
    print("MANIFEST: %d checks, %d not claimed" % (len(checks), len(na)))


if __name__ == "__main__":
    main()
