------------------------------- MODULE MCCasts -------------------------------
EXTENDS Casts, Json
LawsOnce == (c.from = "f64" /\ c.to = "f64" /\ c.v = 0) =>
                NullPreserved /\ OptionComposes /\ PredicatesCoherent /\ ComparatorAxioms /\ TDAxioms /\ StrCoherent /\ IntoKindCoherent

TagStr(t) == t
Applies == IF c.from \in Types THEN HasVal(c.from, c.v) ELSE TRUE
Expected ==
    IF c.from \in Types /\ c.to \in Types THEN CastExp(c.v, c.from, c.to)
    ELSE IF c.from = "string" /\ c.to \in Types THEN StrCastExp(c.v, c.to)
    ELSE \* string and time types: only the null rule is specified
         IF c.v = NULL THEN (IF CanNull(c.to) THEN <<"null">>
                             ELSE IF c.from \in Types /\ IsOpt(c.from) THEN <<"panic">> ELSE <<"any">>)
         ELSE <<"nonnull">>
EmitCast ==
    Applies => PrintT(<<"REPLAY", ToJson([op |-> "cast", from |-> TagStr(c.from), to |-> TagStr(c.to), v |-> c.v,
                                           exp |-> Expected])>>)
EmitCmp ==
    (c.from = "f64" /\ c.to = "f64" /\ c.v = 0) =>
        \A a \in Universe, b \in Universe :
            PrintT(<<"REPLAY", ToJson([op |-> "cmp", a |-> a, b |-> b, cmp |-> Cmp(a, b), rev |-> CmpRev(a, b)])>>)
EmitTDCmp ==
    (c.from = "f64" /\ c.to = "f64" /\ c.v = 0) =>
        \A a \in TDUniverse, b \in TDUniverse :
            PrintT(<<"REPLAY", ToJson([op |-> "tdcmp", a |-> a, b |-> b, cmp |-> TDCmp(a, b), rev |-> TDCmpRev(a, b)])>>)
=============================================================================
