SPECIFICATION Spec
CONSTANTS
  HLMaxLen = 5
  MaxLen = 5
  SpLen = 3
  ValSet = {0, 1, 2, 3}
  Kinds = {"half_life", "winsor", "spearman"}
  RampLens = {10}
  ShiftHalves = {6}
  Elem <- ElemDef
INVARIANTS PwIsPow NoUnderflow InRange ResultLaw SpearmanLaw EmitComposite
PROPERTY Terminates
CHECK_DEADLOCK FALSE
