SPECIFICATION Spec
CONSTANTS
  MaxLen = 9
  MaxW = 7
  ValA <- SignedA
  ValB <- SignedB
  WithNull = TRUE
  ElemA <- ElemADef
  ElemB <- ElemBDef
INVARIANTS NoDrift2 OutDef2 LenOK2 MaskLaw2 PerfectLineZeroResidual EmitFull2
CHECK_DEADLOCK FALSE
