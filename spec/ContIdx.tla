------------------------------- MODULE ContIdx -------------------------------
(* Where logical slot i (0-based) of a ring buffer / a strided view lives in the   *)
(* underlying storage (1-based cell).  Containers.tla (TLC, every representation   *)
(* within the bound, and the real containers built for each) and                   *)
(* ContainersProof.tla (every capacity, head, offset and stride, TLA+ proof        *)
(* system) use these operators.                                                    *)
EXTENDS Integers
RingCell(head, cap, i) == ((head + i) % cap) + 1
StridedCell(off, step, i) == off + i * step + 1
=============================================================================
