SPECIFICATION WSpec
CONSTANTS
  MaxLen = 1
  MaxW = 5
  VR = 3
  WithNull = TRUE
  Elem <- ElemDef
INVARIANTS StepOK NoDriftW MomentsAgreeW CacheOKW WindowBounded
CHECK_DEADLOCK FALSE
