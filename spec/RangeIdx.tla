------------------------------- MODULE RangeIdx -------------------------------
(* The element-count arithmetic of Vec1Create::range, in one place: Generators.tla *)
(* (TLC: every a, b in the bound, steps -3..3, against the progression built       *)
(* element by element) and RangeProof.tla (the count law for EVERY integer a, b    *)
(* and EVERY non-zero step, TLA+ proof system) use the same operators.             *)
EXTENDS Integers

MaxR(a, b) == IF a >= b THEN a ELSE b
\* members of the progression strictly before b in the direction of the step
Before(x, b, step) == IF step > 0 THEN x < b ELSE x > b
\* ceil(p / q) by exact integer arithmetic (\div floors)
CeilDiv(p, q) == IF q > 0 THEN -((-p) \div q) ELSE -(p \div (-q))
RangeCount(a, b, step) == MaxR(0, CeilDiv(b - a, step))
=============================================================================
