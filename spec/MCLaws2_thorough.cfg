SPECIFICATION Spec
CONSTANTS
  MaxLen = 3
  MaxW = 4
  VRA = 2
  VRB = 1
  WithNull = TRUE
  ElemA <- ElemADef
  ElemB <- ElemBDef
  Units = {1, 2, 3}
INVARIANTS Homogeneous2 EmitLaws2
CHECK_DEADLOCK FALSE
