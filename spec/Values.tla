------------------------------- MODULE Values -------------------------------
(***************************************************************************)
(* Shared vocabulary of every tevec specification module.                   *)
(*                                                                         *)
(*  - NULL is the one null of the library (NaN for float series, None for  *)
(*    optional series, NaT for time values).  It is an in-band integer     *)
(*    outside every alphabet so that it survives TLC's JSON writer/reader. *)
(*  - Series are TLA+ sequences (1-based).  Positions the implementation   *)
(*    talks about are 0-based; P0(s, i) reads 0-based position i.          *)
(*  - Exact rationals are pairs <<n, d>> with d > 0, always kept reduced   *)
(*    so that TLC's 32-bit integers do not overflow on the small alphabets *)
(*    we enumerate (TLC stops with an error on overflow, it never wraps).  *)
(*  - Expectations are what a specification tells the conformance harness  *)
(*    about one observable:                                                *)
(*        <<0>>            must be null                                    *)
(*        <<1, n, d>>      must equal n/d          (floating tolerance)    *)
(*        <<2, s, n, d>>   must equal s*sqrt(n/d)  (floating tolerance)    *)
(*        <<3, v>>         must equal the integer v exactly                *)
(*        <<4>>            unspecified by the property                     *)
(*        <<5, e1, e2,..>> any of the listed alternatives                  *)
(*        <<6, n, d>>      must equal n/d exactly (rank-type outputs)      *)
(*        <<7, s, n1, d1, n2, d2, ...>>   must equal s*sqrt(prod ni/di)     *)
(*        <<8, bn, bd, n1, d1, ...>>      must equal bn/bd + prod ni/di     *)
(*        <<9, bn, bd, s, qn, qd>>        must equal bn/bd + s*sqrt(qn/qd)   *)
(*        <<10, s>>                       must be s * infinity               *)
(*    (7 and 8 keep large products out of TLC's 32-bit integers: the        *)
(*     factors are handed over unmultiplied)                                *)
(***************************************************************************)
EXTENDS Integers, Sequences, FiniteSets

NULL == -99999

Valid(v) == v # NULL

Min2(a, b) == IF a <= b THEN a ELSE b
Max2(a, b) == IF a >= b THEN a ELSE b
Abs(a)     == IF a < 0 THEN -a ELSE a
Sgn(a)     == IF a < 0 THEN -1 ELSE IF a > 0 THEN 1 ELSE 0

P0(s, i) == s[i + 1]

RECURSIVE GCDn(_, _)
GCDn(a, b) == IF b = 0 THEN a ELSE GCDn(b, a % b)      \* a, b >= 0
GCD(a, b)  == GCDn(Abs(a), Abs(b))

(* ---- sequences ------------------------------------------------------- *)

\* contiguous sub-sequence with 0-based inclusive bounds lo..hi
Sub0(s, lo, hi) == IF hi < lo THEN <<>> ELSE [k \in 1..(hi - lo + 1) |-> s[lo + k]]

\* the trailing window of width w that ends at 0-based position i
Win(s, i, w) == Sub0(s, Max2(0, i - w + 1), i)

RECURSIVE Sel(_)
\* the non-null sub-sequence, order preserved
Sel(s) == IF s = <<>> THEN <<>>
          ELSE IF Valid(Head(s)) THEN <<Head(s)>> \o Sel(Tail(s)) ELSE Sel(Tail(s))

RECURSIVE PairSelA(_, _)
RECURSIVE PairSelB(_, _)
\* pairwise-complete observations of two equal-length sequences
PairSelA(a, b) == IF a = <<>> THEN <<>>
                  ELSE IF Valid(Head(a)) /\ Valid(Head(b))
                       THEN <<Head(a)>> \o PairSelA(Tail(a), Tail(b))
                       ELSE PairSelA(Tail(a), Tail(b))
PairSelB(a, b) == PairSelA(b, a)

RECURSIVE SumSeq(_)
SumSeq(s) == IF s = <<>> THEN 0 ELSE Head(s) + SumSeq(Tail(s))

Count(s) == Len(Sel(s))

\* sum of k-th powers, k small
Pow(x, k) == CASE k = 0 -> 1 [] k = 1 -> x [] k = 2 -> x * x
               [] k = 3 -> x * x * x [] k = 4 -> x * x * x * x
SumPow(s, k) == SumSeq([i \in 1..Len(s) |-> Pow(s[i], k)])
SumProd(a, b) == SumSeq([i \in 1..Len(a) |-> a[i] * b[i]])
\* sum of position-weighted values, weights 1..n oldest to newest
SumT(s) == SumSeq([i \in 1..Len(s) |-> i * s[i]])

RECURSIVE IPow(_, _)
IPow(x, k) == IF k = 0 THEN 1 ELSE x * IPow(x, k - 1)

SeqMin(s) == CHOOSE m \in {s[i] : i \in 1..Len(s)} : \A j \in 1..Len(s) : m <= s[j]
SeqMax(s) == CHOOSE m \in {s[i] : i \in 1..Len(s)} : \A j \in 1..Len(s) : m >= s[j]

(* ---- exact rationals ------------------------------------------------- *)

QN(n, d) == LET g == GCD(n, d)
                sd == IF d < 0 THEN -1 ELSE 1
            IN  IF g = 0 THEN <<0, 1>> ELSE <<sd * (n \div g), sd * (d \div g)>>
            \* note: \div on negative n after removing the common factor is exact
QInt(a)      == <<a, 1>>
\* sums over the least common denominator, so that intermediates stay as small as the result
QAdd(p, q)   == LET g == GCD(p[2], q[2])
                IN  QN(p[1] * (q[2] \div g) + q[1] * (p[2] \div g), (p[2] \div g) * q[2])
QSub(p, q)   == QAdd(p, <<-q[1], q[2]>>)
QMul(p, q)   == LET a == QN(p[1], q[2]) b == QN(q[1], p[2])
                IN  QN(a[1] * b[1], a[2] * b[2])
QDiv(p, q)   == QMul(p, IF q[1] < 0 THEN <<-q[2], -q[1]>> ELSE <<q[2], q[1]>>)
QNeg(p)      == <<-p[1], p[2]>>
QEq(p, q)    == QN(p[1], p[2]) = QN(q[1], q[2])      \* no cross-multiplication: cannot overflow
QLt(p, q)    == p[1] * q[2] < q[1] * p[2]
QLe(p, q)    == p[1] * q[2] <= q[1] * p[2]
QZero(p)     == p[1] = 0
QSgn(p)      == Sgn(p[1])
RECURSIVE QPow(_, _)
QPow(p, k)   == IF k = 0 THEN <<1, 1>> ELSE QMul(p, QPow(p, k - 1))

(* ---- expectations ---------------------------------------------------- *)

ENull        == <<0>>
EQ(q)        == <<1, q[1], q[2]>>
ESq(s, q)    == <<2, s, q[1], q[2]>>          \* s * sqrt(q), q >= 0
EInt(v)      == <<3, v>>
EAny         == <<4>>
EExact(q)    == <<6, q[1], q[2]>>
EOpt(v)      == IF v = NULL THEN ENull ELSE EInt(v)
RECURSIVE FlatQ(_)
FlatQ(fs)    == IF fs = <<>> THEN <<>> ELSE <<Head(fs)[1], Head(fs)[2]>> \o FlatQ(Tail(fs))
\* the rational denoted by an <<8, ...>> expectation (only where the product is known to fit)
RECURSIVE ProdFrom(_, _)
ProdFrom(e, i) == IF i > Len(e) THEN <<1, 1>> ELSE QMul(<<e[i], e[i + 1]>>, ProdFrom(e, i + 2))
AffValue(e) == QAdd(<<e[2], e[3]>>, ProdFrom(e, 4))
ESqProd(s, fs) == <<7, s>> \o FlatQ(fs)        \* fs: sequence of reduced rationals >= 0
EAff(b, fs)    == <<8, b[1], b[2]>> \o FlatQ(fs)

=============================================================================
