SPECIFICATION Spec
CONSTANTS
  MaxLen = 6
  Alphabet <- SubsecAlphabet
INVARIANTS StartLeI Sound NsDigit EmitWF
PROPERTY Total
CHECK_DEADLOCK FALSE
