------------------------------ MODULE MCRollWin2 ------------------------------
EXTENDS RollWin2
CONSTANTS VRA, VRB, WithNull
ElemADef == ((0 - VRA)..VRA) \cup (IF WithNull THEN {NULL} ELSE {})
ElemBDef == ((0 - VRB)..VRB) \cup (IF WithNull THEN {NULL} ELSE {})
=============================================================================
