-------------------------------- MODULE Stats --------------------------------
(***************************************************************************)
(* Textbook definitions of the statistics tevec computes, in exact integer  *)
(* / rational arithmetic over a sequence of NON-NULL integers (callers      *)
(* apply Sel / PairSel first).  Every operator returns an expectation       *)
(* (Values.tla): a rational, a signed square root of a rational, null, or   *)
(* "unspecified" where the statistic is mathematically undefined.           *)
(*                                                                         *)
(* Central moments are defined from explicit deviations                     *)
(*      Dev(v, k) = n*v[k] - Sum(v)            ( = n * (v[k] - mean) )      *)
(*      D(v, j)   = Sum_k Dev(v, k)^j                                       *)
(* so that m_j = D(v, j) / n^(j+1) and nothing here shares an algebraic     *)
(* expansion with the implementation's running power sums.                  *)
(***************************************************************************)
EXTENDS Values

N(v)  == Len(v)
S(v)  == SumSeq(v)
Dev(v, k) == N(v) * v[k] - S(v)
D(v, j)   == SumSeq([k \in 1..N(v) |-> Pow(Dev(v, k), j)])

Constant(v) == \A k \in 1..N(v) : v[k] = v[1]

DefSum(v)  == EQ(QInt(S(v)))
DefMean(v) == IF N(v) = 0 THEN EAny ELSE EQ(QN(S(v), N(v)))

\* sample variance  D2 / (n^2 (n-1))
QVar(v)   == QMul(QN(D(v, 2), N(v) * N(v)), QN(1, N(v) - 1))
DefVar(v) == IF N(v) < 2 THEN ENull ELSE EQ(QVar(v))
DefStd(v) == IF N(v) < 2 THEN ENull ELSE ESq(1, QVar(v))

\* adjusted Fisher-Pearson skewness  sqrt(n(n-1))/(n-2) * m3 / m2^(3/2)
\*   squared:  n^2 (n-1) D3^2 / ((n-2)^2 D2^3), handed over as unmultiplied factors
SkewExp(n, d2, d3) ==
    IF n < 3 THEN ENull
    ELSE IF d2 = 0 THEN EAny          \* zero spread: undefined
    ELSE ESqProd(Sgn(d3), <<QN(n * n * (n - 1), (n - 2) * (n - 2)), QN(Abs(d3), d2), QN(Abs(d3), d2), QN(1, d2)>>)
DefSkew(v) == SkewExp(N(v), D(v, 2), D(v, 3))

\* adjusted excess kurtosis  ((n^2-1) m4/m2^2 - 3 (n-1)^2) / ((n-2)(n-3)),  m4/m2^2 = n D4 / D2^2
KurtExp(n, d2, d4) ==
    IF n < 4 THEN ENull
    ELSE IF d2 = 0 THEN EAny
    ELSE EAff(QN(-3 * (n - 1) * (n - 1), (n - 2) * (n - 3)),
              <<QN((n * n - 1) * n, (n - 2) * (n - 3)), QN(d4, d2), QN(1, d2)>>)
DefKurt(v) == KurtExp(N(v), D(v, 2), D(v, 4))

\* linearly weighted average, weights 1..n oldest to newest
DefWma(v) == IF N(v) = 0 THEN EAny ELSE EQ(QN(2 * SumT(v), N(v) * (N(v) + 1)))

\* exponentially weighted average with alpha = 2/w :
\*    Sum_k (1-alpha)^(n-k) v[k]  /  Sum_k (1-alpha)^(n-k)
QEwmNum(v, w) == LET n == N(v)
                     \* numerator scaled by w^(n-1):  Sum (w-2)^(n-k) w^(k-1) v[k]
                 IN  SumSeq([k \in 1..n |-> IPow(w - 2, n - k) * IPow(w, k - 1) * v[k]])
QEwmDen(v, w) == LET n == N(v)
                 IN  SumSeq([k \in 1..n |-> IPow(w - 2, n - k) * IPow(w, k - 1)])
DefEwm(v, w) == IF N(v) = 0 \/ QEwmDen(v, w) = 0 THEN EAny
                ELSE EQ(QN(QEwmNum(v, w), QEwmDen(v, w)))

(* ---- order statistics of a window ------------------------------------- *)

DefMin(v) == IF N(v) = 0 THEN EAny ELSE EInt(SeqMin(v))
DefMax(v) == IF N(v) = 0 THEN EAny ELSE EInt(SeqMax(v))

\* 1-based offset (within the FULL window win, nulls included) of the most recent
\* position holding the extreme of the valid values
LastPosOf(win, x) == CHOOSE p \in 1..Len(win) : win[p] = x /\ \A q \in (p + 1)..Len(win) : win[q] # x
DefArgMin(win) == IF Count(win) = 0 THEN EAny ELSE EInt(LastPosOf(win, SeqMin(Sel(win))))
DefArgMax(win) == IF Count(win) = 0 THEN EAny ELSE EInt(LastPosOf(win, SeqMax(Sel(win))))

\* average rank of x among the valid values v (x is one of them), times 2
Rank2(v, x, rev) ==
    LET less == Cardinality({k \in 1..N(v) : IF rev THEN v[k] > x ELSE v[k] < x})
        same == Cardinality({k \in 1..N(v) : v[k] = x})
    IN  2 * less + same + 1            \* 2 * (less + (same+1)/2)
DefRank(win, rev, pct) ==
    LET x == win[Len(win)]
        v == Sel(win)
    IN  IF x = NULL THEN ENull
        ELSE IF pct THEN EExact(QN(Rank2(v, x, rev), 2 * N(v)))
        ELSE EExact(QN(Rank2(v, x, rev), 2))

\* z-score of the newest element: (x - mean) / sample std ; null on zero spread
DefZscore(win) ==
    LET x == win[Len(win)]
        v == Sel(win)
        n == N(v)
    IN  IF x = NULL \/ n < 2 \/ D(v, 2) = 0 THEN ENull
        ELSE ESq(Sgn(n * x - S(v)),
                 QMul(QN((n * x - S(v)) * (n * x - S(v)), D(v, 2)), QInt(n - 1)))

\* min-max normalisation of the newest element; null on zero spread
DefMinMaxNorm(win) ==
    LET x == win[Len(win)]
        v == Sel(win)
    IN  IF x = NULL \/ N(v) = 0 \/ SeqMax(v) = SeqMin(v) THEN ENull
        ELSE EQ(QN(x - SeqMin(v), SeqMax(v) - SeqMin(v)))

(* ---- least squares of the valid values on t = 1..n --------------------- *)

TrendDen(v) == LET n == N(v) IN n * SumSeq([k \in 1..n |-> k * k]) - ((n * (n + 1)) \div 2) * ((n * (n + 1)) \div 2)
QSlope(v)     == LET n == N(v) IN QN(n * SumT(v) - ((n * (n + 1)) \div 2) * S(v), TrendDen(v))
QIntercept(v) == LET n == N(v) IN QMul(QSub(QInt(S(v)), QMul(QSlope(v), QInt((n * (n + 1)) \div 2))), QN(1, n))
QFit(v, t)    == QAdd(QIntercept(v), QMul(QSlope(v), QInt(t)))
TrendDefined(v) == N(v) >= 2          \* TrendDen > 0 exactly then
DefSlope(v)     == IF TrendDefined(v) THEN EQ(QSlope(v)) ELSE EAny
DefIntercept(v) == IF TrendDefined(v) THEN EQ(QIntercept(v)) ELSE EAny
DefReg(v)       == IF TrendDefined(v) THEN EQ(QFit(v, N(v))) ELSE EAny
DefTsf(v)       == IF TrendDefined(v) THEN EQ(QFit(v, N(v) + 1)) ELSE EAny
\* mean squared residual
RECURSIVE QSumSeq(_)
QSumSeq(qs) == IF qs = <<>> THEN <<0, 1>> ELSE QAdd(Head(qs), QSumSeq(Tail(qs)))
DefTrendMse(v)  == IF ~TrendDefined(v) THEN EAny
                   ELSE EQ(QMul(QSumSeq([k \in 1..N(v) |->
                                   LET r == QSub(QInt(v[k]), QFit(v, k)) IN QMul(r, r)]),
                                QN(1, N(v))))

(* ---- fractional differencing ------------------------------------------ *)

\* generalised binomial coefficient C(d, k) for the rational d = dn/dd
RECURSIVE QBinom(_, _, _)
QBinom(dn, dd, k) == IF k = 0 THEN <<1, 1>>
                     ELSE QMul(QBinom(dn, dd, k - 1), QN(dn - (k - 1) * dd, dd * k))
\* Sum_k (-1)^k C(d,k) * (k-th most recent element), over the elements given (oldest first)
DefFdiff(v, dn, dd) ==
    LET n == N(v) IN
    EQ(QSumSeq([k \in 1..n |->
          LET j == k - 1 IN QMul(QMul(QInt(IF j % 2 = 0 THEN 1 ELSE -1), QBinom(dn, dd, j)),
                                 QInt(v[n - j]))]))

(* ---- two series: pairwise-complete observations a (regressand), b ------ *)

Sab(a, b) == SumProd(a, b)
\* n * cross / self deviations
Cab(a, b) == N(a) * Sab(a, b) - S(a) * S(b)            \* n^2 * population covariance
Vb(b)     == N(b) * SumPow(b, 2) - S(b) * S(b)          \* n^2 * population variance = D2/n

DefCov(a, b) == IF N(a) < 2 THEN ENull ELSE EQ(QN(Cab(a, b), N(a) * (N(a) - 1)))
DefCorr(a, b) ==
    IF N(a) < 2 THEN ENull
    ELSE IF Vb(a) = 0 \/ Vb(b) = 0 THEN EAny
    ELSE ESq(Sgn(Cab(a, b)), QMul(QN(Cab(a, b), Vb(a)), QN(Cab(a, b), Vb(b))))

\* regression of a on b:  a = alpha + beta b
RegDefined(a, b) == N(a) >= 1 /\ Vb(b) # 0
QBeta(a, b)  == QN(Cab(a, b), Vb(b))
QAlpha(a, b) == QMul(QSub(QInt(S(a)), QMul(QBeta(a, b), QInt(S(b)))), QN(1, N(a)))
\* integer residual numerators: r_k = R_k / (n * Vb)
R(a, b, k) == N(a) * Vb(b) * a[k] - (S(a) * Vb(b) - Cab(a, b) * S(b)) - N(a) * Cab(a, b) * b[k]
RMax(a, b) == LET m == {Abs(R(a, b, k)) : k \in 1..N(a)} IN CHOOSE x \in m : \A y \in m : y <= x
RPow(a, b, j) == SumSeq([k \in 1..N(a) |-> Pow(R(a, b, k), j)])
DefBeta(a, b)  == IF RegDefined(a, b) THEN EQ(QBeta(a, b)) ELSE EAny
DefAlpha(a, b) == IF RegDefined(a, b) THEN EQ(QAlpha(a, b)) ELSE EAny
DefSse(a, b)   == IF ~RegDefined(a, b) THEN EAny
                  ELSE IF RMax(a, b) > 8000 THEN EAny
                  ELSE EAff(<<0, 1>>, <<QN(RPow(a, b, 2), N(a) * Vb(b)), QN(1, N(a) * Vb(b))>>)
DefResidMean(a, b) == IF RegDefined(a, b) THEN EQ(<<0, 1>>) ELSE EAny
\* sample standard deviation of the residuals (they sum to zero)
DefResidStd(a, b) ==
    IF N(a) < 2 THEN ENull
    ELSE IF ~RegDefined(a, b) \/ RMax(a, b) > 8000 THEN EAny
    ELSE ESqProd(1, <<QN(RPow(a, b, 2), N(a) * Vb(b)), QN(1, N(a) * Vb(b)), QN(1, N(a) - 1)>>)
DefResidSkew(a, b) ==
    IF N(a) < 3 THEN ENull
    ELSE IF ~RegDefined(a, b) \/ RMax(a, b) > 600 THEN EAny
    ELSE SkewExp(N(a), RPow(a, b, 2), RPow(a, b, 3))

=============================================================================
