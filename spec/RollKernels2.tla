---------------------------- MODULE RollKernels2 ----------------------------
(***************************************************************************)
(* The two-series rolling kernels (tea-rolling binary.rs, reg.rs):          *)
(* covariance, Pearson correlation and the least-squares regression of the  *)
(* FIRST series (a, the regressand) on the SECOND (b, the regressor) over   *)
(* the pairwise-complete observations of the window.                        *)
(*                                                                         *)
(* Same streaming shape as RollKernels: Step(<<va, vb>>) = Add; Emit;       *)
(* Remove.  Operational state: the code's cross sums                        *)
(*     acc = [n, sa, sb, sab, sa2, sb2]                                     *)
(* Invariants: NoDrift2 (sums = from-scratch sums of the post-removal       *)
(* window), OutDef2 (emitted = per-window least squares from Stats.tla),    *)
(* MaskLaw2, PerfectLineZeroResidual.                                       *)
(***************************************************************************)
EXTENDS Stats, TLC

CONSTANTS MaxLen, MaxW
CONSTANT ElemA, ElemB            \* alphabets (operators of the model module)

VARIABLES w, mp, as, bs, acc, out, dfn
vars == <<w, mp, as, bs, acc, out, dfn>>

MpReq  == IF mp = -1 THEN w \div 2 ELSE mp
EffMp2 == Min2(MpReq, w)

OpKernels  == {"cov", "corr", "alpha", "beta", "sse"}        \* from the running sums
WinKernels == {"resid_mean", "resid_std", "resid_skew"}      \* recomputed over the window
Kernels2 == OpKernels \cup WinKernels

Def2(k, wa, wb) ==
    LET a == PairSelA(wa, wb)
        b == PairSelB(wa, wb)
    IN  CASE k = "cov"   -> DefCov(a, b)
          [] k = "corr"  -> DefCorr(a, b)
          [] k = "alpha" -> DefAlpha(a, b)
          [] k = "beta"  -> DefBeta(a, b)
          [] k = "sse"   -> DefSse(a, b)
          [] k = "resid_mean" -> DefResidMean(a, b)
          [] k = "resid_std"  -> DefResidStd(a, b)
          [] k = "resid_skew" -> DefResidSkew(a, b)

Acc0 == [n |-> 0, sa |-> 0, sb |-> 0, sab |-> 0, sa2 |-> 0, sb2 |-> 0]

Upd(c, va, vb, sg) ==
    IF va = NULL \/ vb = NULL THEN c
    ELSE [n |-> c.n + sg, sa |-> c.sa + sg * va, sb |-> c.sb + sg * vb, sab |-> c.sab + sg * va * vb,
          sa2 |-> c.sa2 + sg * va * va, sb2 |-> c.sb2 + sg * vb * vb]

\* outputs the way the code forms them from the running sums
Op2(k, c) ==
    LET n == c.n
        den == n * c.sb2 - c.sb * c.sb
        beta == QN(n * c.sab - c.sa * c.sb, den)
        alpha == QMul(QSub(QInt(c.sa), QMul(beta, QInt(c.sb))), QN(1, n))
    IN
    CASE k = "cov" -> IF n < 2 THEN ENull          \* 0/0 (n = 1) is NaN; n = 0 must not underflow
                      ELSE EQ(QMul(QSub(QInt(c.sab), QN(c.sa * c.sb, n)), QN(1, n - 1)))
      [] k = "corr" ->
            IF n < 2 THEN ENull
            ELSE LET va == QSub(QN(c.sa2, n), QMul(QN(c.sa, n), QN(c.sa, n)))
                     vb == QSub(QN(c.sb2, n), QMul(QN(c.sb, n), QN(c.sb, n)))
                     cv == QSub(QN(c.sab, n), QN(c.sa * c.sb, n * n))
                 IN  IF QZero(va) \/ QZero(vb) THEN EAny
                     ELSE ESq(QSgn(cv), QMul(QDiv(cv, va), QDiv(cv, vb)))
      [] k = "beta"  -> IF n = 0 \/ den = 0 THEN EAny ELSE EQ(beta)
      [] k = "alpha" -> IF n = 0 \/ den = 0 THEN EAny ELSE EQ(alpha)
      [] k = "sse"   -> IF n = 0 \/ den = 0 THEN EAny
                        ELSE EQ(QSub(QSub(QInt(c.sa2), QMul(alpha, QInt(c.sa))), QMul(beta, QInt(c.sab))))

Init ==
    /\ w \in 1..MaxW
    /\ mp \in {-1} \cup 0..w
    /\ as = <<>> /\ bs = <<>>
    /\ acc = Acc0
    /\ out = [k \in Kernels2 |-> <<>>]
    /\ dfn = [k \in Kernels2 |-> EAny]

Step(va, vb) ==
    /\ Len(as) < MaxLen
    /\ LET i  == Len(as)
           sa == Append(as, va)
           sb == Append(bs, vb)
           c1 == Upd(acc, va, vb, 1)
           d  == [k \in Kernels2 |-> Def2(k, Win(sa, i, w), Win(sb, i, w))]
           em(k) == IF c1.n < EffMp2 THEN ENull
                    ELSE IF k \in OpKernels THEN Op2(k, c1) ELSE d[k]
       IN  /\ as' = sa /\ bs' = sb /\ dfn' = d
           /\ out' = [k \in Kernels2 |-> Append(out[k], em(k))]
           /\ acc' = IF i >= w - 1 THEN Upd(c1, P0(sa, i - w + 1), P0(sb, i - w + 1), -1) ELSE c1
    /\ UNCHANGED <<w, mp>>

Next == \E va \in ElemA, vb \in ElemB : Step(va, vb)
Spec == Init /\ [][Next]_vars

(* ---- properties -------------------------------------------------------- *)

PostA == IF as = <<>> THEN <<>> ELSE Win(as, Len(as) - 1, w - 1)
PostB == IF bs = <<>> THEN <<>> ELSE Win(bs, Len(bs) - 1, w - 1)

NoDrift2 ==
    LET a == PairSelA(PostA, PostB)
        b == PairSelB(PostA, PostB)
    IN  /\ acc.n = Len(a)
        /\ acc.sa = S(a) /\ acc.sb = S(b) /\ acc.sab = SumProd(a, b)
        /\ acc.sa2 = SumPow(a, 2) /\ acc.sb2 = SumPow(b, 2)

SameExp(a, b) ==
    \/ a = b \/ a = EAny \/ b = EAny
    \/ a[1] = 1 /\ b[1] = 1 /\ QEq(<<a[2], a[3]>>, <<b[2], b[3]>>)
    \/ a[1] = 2 /\ b[1] = 2 /\ QEq(<<a[3], a[4]>>, <<b[3], b[4]>>) /\ (a[2] = b[2] \/ a[3] = 0)
    \/ a[1] = 1 /\ b[1] = 8 /\ QEq(<<a[2], a[3]>>, AffValue(b))
    \/ a[1] = 8 /\ b[1] = 1 /\ QEq(<<b[2], b[3]>>, AffValue(a))

OutDef2 ==
    as # <<>> =>
      LET i == Len(as) - 1
          cnt == Len(PairSelA(Win(as, i, w), Win(bs, i, w)))
      IN  \A k \in Kernels2 : SameExp(out[k][i + 1], IF cnt < EffMp2 THEN ENull ELSE dfn[k])

LenOK2 == \A k \in Kernels2 : Len(out[k]) = Len(as)

MaskLaw2 ==
    as # <<>> =>
      LET i == Len(as) - 1
          cnt == Len(PairSelA(Win(as, i, w), Win(bs, i, w)))
      IN  \A k \in Kernels2 :
            /\ cnt < EffMp2 => out[k][i + 1] = ENull
            /\ (cnt >= EffMp2 /\ dfn[k] \notin {ENull, EAny}) => out[k][i + 1] # ENull

\* C04: a perfectly linear window has zero residual
PerfectLineZeroResidual ==
    as # <<>> =>
      LET i == Len(as) - 1
          a == PairSelA(Win(as, i, w), Win(bs, i, w))
          b == PairSelB(Win(as, i, w), Win(bs, i, w))
      IN  (RegDefined(a, b) /\ \A k \in 1..Len(a) : R(a, b, k) = 0 /\ Len(a) >= EffMp2)
            => SameExp(out["sse"][i + 1], EQ(<<0, 1>>))

AppendOnly2 == [][\A k \in Kernels2 : \A j \in 1..Len(out[k]) : out'[k][j] = out[k][j]]_vars
=============================================================================
