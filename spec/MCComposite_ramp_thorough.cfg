SPECIFICATION Spec
CONSTANTS
  HLMaxLen = 13
  MaxLen = 5
  SpLen = 3
  ValSet = {0, 1, 2, 3}
  Kinds = {"half_life_ramp"}
  RampLens = {10, 11, 12, 13}
  ShiftHalves = {6}
  Elem <- ElemDef
INVARIANTS PwIsPow NoUnderflow InRange ResultLaw EmitComposite
PROPERTY Terminates
CHECK_DEADLOCK FALSE
