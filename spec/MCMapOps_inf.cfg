SPECIFICATION Spec
CONSTANTS
  MaxLen = 4
  ValSet <- InfSet
  Kinds = {"lag"}
  CutLen = 2
  Elem <- ElemDef
INVARIANTS Laws EmitMap
CHECK_DEADLOCK FALSE
