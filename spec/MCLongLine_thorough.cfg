SPECIFICATION LSpec
CONSTANTS
  MaxLen = 4
  MaxW = 6
  LineLens = {260, 400}
  LineWs = {100, 215, 216, 250, 256, 260, 400}
  LawN = 3
  Elem = {0}
INVARIANTS EmitLine
CHECK_DEADLOCK FALSE
