-------------------------------- MODULE Laws2 --------------------------------
(***************************************************************************)
(* Units of measurement for the two-series kernels (see Laws1).  The first   *)
(* series (regressand) is measured in unit ua, the second (regressor) in ub: *)
(*     Def2(k, ua*a, ub*b) = ua^DegA(k) * ub^DegB(k) * Def2(k, a, b)          *)
(* with DegB negative for the slope (a-units per b-unit).                    *)
(***************************************************************************)
EXTENDS RollKernels2, Json

CONSTANT Units

DegA(k) == CASE k \in {"cov", "alpha", "beta", "resid_mean", "resid_std"} -> 1
             [] k = "sse" -> 2
             [] OTHER -> 0                       \* corr, resid_skew
DegB(k) == CASE k = "cov" -> 1 [] k = "beta" -> -1 [] OTHER -> 0

InUnit(s, u) == [i \in 1..Len(s) |-> IF s[i] = NULL THEN NULL ELSE u * s[i]]

NormE(e) == CASE e[1] = 7 -> LET q == ProdFrom(e, 3) IN ESq(IF QZero(q) THEN 0 ELSE e[2], q)
              [] e[1] = 8 -> EQ(AffValue(e))
              [] e[1] = 3 -> EQ(<<e[2], 1>>)
              [] e[1] = 6 -> EQ(<<e[2], e[3]>>)
              [] OTHER    -> e
\* multiply an expectation by the positive rational c
TimesQ(e, c) == LET n == NormE(e) IN
                CASE n[1] = 1 -> EQ(QMul(<<n[2], n[3]>>, c))
                  [] n[1] = 2 -> ESq(n[2], QMul(<<n[3], n[4]>>, QMul(c, c)))
                  [] OTHER    -> n
UnitPow(u, d) == IF d >= 0 THEN <<IPow(u, d), 1>> ELSE <<1, IPow(u, -d)>>

CurA == IF as = <<>> THEN <<>> ELSE Win(as, Len(as) - 1, w)
CurB == IF bs = <<>> THEN <<>> ELSE Win(bs, Len(bs) - 1, w)

Homogeneous2 ==
    as # <<>> =>
    \A k \in Kernels2, ua \in Units, ub \in Units :
        SameExp(NormE(Def2(k, InUnit(CurA, ua), InUnit(CurB, ub))),
                TimesQ(Def2(k, CurA, CurB), QMul(UnitPow(ua, DegA(k)), UnitPow(ub, DegB(k)))))

EmitLaws2 ==
    (as = <<>> /\ w = 1 /\ mp = 0) =>
        PrintT(<<"REPLAY", ToJson([op |-> "laws2",
                                   dega |-> [k \in Kernels2 |-> DegA(k)],
                                   degb |-> [k \in Kernels2 |-> DegB(k)]])>>)
=============================================================================
