-------------------------------- MODULE MCAgg --------------------------------
(* Bounded configuration of Agg: every series up to MaxLen over the alphabet   *)
(* (one-series run), or every pair of equal-length series (Pairs = TRUE).      *)
EXTENDS Agg, Json

CONSTANTS ValSet, ValSet2, TiesLen
\* a signed alphabet for cfg files (which cannot hold negative literals)
SignedSet == {0 - 1, 0, 2}
SignedSet3 == {0 - 2, 0, 1, 3}
ElemDef  == ValSet \cup {NULL}
Elem2Def == ValSet2 \cup {NULL}

\* tie-heavy samples beyond the enumeration bound: every series of length 4..TiesLen over {-1, 0, 1}
\* (no nulls, min_periods 0).  Heavy ties make the higher moments hit special values exactly - an
\* excess kurtosis of exactly 0, a skewness of exactly 0 - which guards written for degenerate input
\* must not mistake for their own markers.
TiesInit ==
    /\ s \in UNION {[1..k -> {0 - 1, 0, 1}] : k \in 4..TiesLen}
    /\ t = s /\ mp = 0 /\ i = 0 /\ f = F0
TiesSpec == TiesInit /\ [][Next]_vars /\ WF_vars(Next)

\* float series holding infinities: no fold machine (its power sums would leave TLC's integers), the
\* definitions and their laws only
InfElemDef == {NINFA, 0 - 1, 0, 2, PINFA, NULL}
InfInit == /\ s \in Seqs(InfElemDef, MaxLen) /\ t = s /\ mp = 0 /\ i = 0 /\ f = F0
InfSpec == InfInit /\ [][UNCHANGED vars]_vars
InfLawsInv == InfLaws(s)
EmitInf ==
    PrintT(<<"REPLAY", ToJson([op |-> "agg_inf", s |-> s, pinf |-> PINFA, ninf |-> NINFA,
                               exp |-> [k \in InfAggKeys |-> InfAggOf(k, s)]])>>)

Emit1 ==
    (Done /\ ~Pairs) =>
      PrintT(<<"REPLAY", ToJson([op |-> "agg", s |-> s, mp |-> mp,
          calls |-> FoldCalls(s), nadd |-> NAddFold(s), nprod |-> NProdFold(s), exp |-> [
          count_valid |-> EInt(CountValid), count_none |-> EInt(CountNone),
          vfirst |-> EOpt(FirstValid), vlast |-> EOpt(LastValid),
          vany |-> EInt(IF AnyTrue THEN 1 ELSE 0), vall |-> EInt(IF AllTrue THEN 1 ELSE 0),
          vsum |-> DefVSum, vmean |-> DefVMean,
          vmean_var_mean |-> DefMeanOfMeanVar,
          vvar |-> DefVVar, vstd |-> DefVStd, vskew |-> DefVSkew, vkurt |-> DefVKurt,
          vmin |-> DefVMin, vmax |-> DefVMax, vargmin |-> DefVArgMin, vargmax |-> DefVArgMax],
          counts |-> [x \in ElemDef |-> CountValue(x)]])>>)

Emit2 ==
    (Done /\ Pairs) =>
      PrintT(<<"REPLAY", ToJson([op |-> "agg2", s |-> s, t |-> t, mp |-> mp, calls2 |-> Fold2Calls(s, t), exp |-> [
          vcov |-> DefVCov, vcorr |-> DefVCorr,
          mask_n |-> EInt(DefMaskCount), mask_sum_raw |-> EInt(DefMaskSumRaw),
          mask_sum |-> DefMaskSum, mask_mean |-> DefMaskMean]])>>)
=============================================================================
