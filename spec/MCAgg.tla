-------------------------------- MODULE MCAgg --------------------------------
(* Bounded configuration of Agg: every series up to MaxLen over the alphabet   *)
(* (one-series run), or every pair of equal-length series (Pairs = TRUE).      *)
EXTENDS Agg, Json

CONSTANTS ValSet, ValSet2
\* a signed alphabet for cfg files (which cannot hold negative literals)
SignedSet == {0 - 1, 0, 2}
SignedSet3 == {0 - 2, 0, 1, 3}
ElemDef  == ValSet \cup {NULL}
Elem2Def == ValSet2 \cup {NULL}

Emit1 ==
    (Done /\ ~Pairs) =>
      PrintT(<<"REPLAY", ToJson([op |-> "agg", s |-> s, mp |-> mp, exp |-> [
          count_valid |-> EInt(CountValid), count_none |-> EInt(CountNone),
          vfirst |-> EOpt(FirstValid), vlast |-> EOpt(LastValid),
          vany |-> EInt(IF AnyTrue THEN 1 ELSE 0), vall |-> EInt(IF AllTrue THEN 1 ELSE 0),
          vsum |-> DefVSum, vmean |-> DefVMean,
          vmean_var_mean |-> DefMeanOfMeanVar,
          vvar |-> DefVVar, vstd |-> DefVStd, vskew |-> DefVSkew, vkurt |-> DefVKurt,
          vmin |-> DefVMin, vmax |-> DefVMax, vargmin |-> DefVArgMin, vargmax |-> DefVArgMax],
          counts |-> [x \in ElemDef |-> CountValue(x)]])>>)

Emit2 ==
    (Done /\ Pairs) =>
      PrintT(<<"REPLAY", ToJson([op |-> "agg2", s |-> s, t |-> t, mp |-> mp, exp |-> [
          vcov |-> DefVCov, vcorr |-> DefVCorr,
          mask_n |-> EInt(DefMaskCount), mask_sum_raw |-> EInt(DefMaskSumRaw),
          mask_sum |-> DefMaskSum, mask_mean |-> DefMaskMean]])>>)
=============================================================================
