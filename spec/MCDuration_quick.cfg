SPECIFICATION Spec
CONSTANTS
  MaxLen = 3
  Alphabet <- FullAlphabet
INVARIANTS StartLeI Sound EmitDur
PROPERTY Total
CHECK_DEADLOCK FALSE
