SPECIFICATION Spec
CONSTANTS
  MaxLen = 6
  ValSet <- SignedSet
  Elem <- ElemDef
INVARIANTS MirrorOK RankLoopOK PartitionOK EmitOrder
CHECK_DEADLOCK FALSE
