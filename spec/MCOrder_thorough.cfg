SPECIFICATION Spec
CONSTANTS
  MaxLen = 6
  ValSet = {0, 1, 2}
  Elem <- ElemDef
INVARIANTS MirrorOK RankLoopOK PartitionOK EmitOrder
CHECK_DEADLOCK FALSE
