SPECIFICATION Spec
CONSTANTS
  MaxLen = 6
  ValSet <- SignedSet
  Elem <- ElemDef
  LongLens = {17}
  PerLen = 1
INVARIANTS MirrorOK RankLoopOK PartitionOK QuantileHomogeneous NearIsNeighbour EmitOrder
CHECK_DEADLOCK FALSE
