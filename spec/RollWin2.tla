------------------------------ MODULE RollWin2 ------------------------------
(***************************************************************************)
(* History-free configuration of the two-series rolling kernels (the same   *)
(* construction as RollWin for RollKernels).  The state is what the next    *)
(* step can depend on: the post-removal windows pa / pb of the two series   *)
(* and the running cross sums.  The graph is finite and cyclic, so          *)
(* NoDrift2W and Step2OK (every kernel's emitted value equals the           *)
(* definition on the pairwise-complete window) hold after ANY number of     *)
(* additions and removals, for histories of every length.                   *)
(***************************************************************************)
EXTENDS RollKernels2

VARIABLES pa, pb,  \* post-removal windows
          ok       \* did the last step emit what the definitions require, for every kernel?

W2Init ==
    /\ w \in 1..MaxW /\ mp \in {-1} \cup 0..w
    /\ pa = <<>> /\ pb = <<>> /\ acc = Acc0 /\ ok = TRUE
    /\ as = <<>> /\ bs = <<>> /\ out = [k \in Kernels2 |-> <<>>] /\ dfn = [k \in Kernels2 |-> EAny]

W2Step(va, vb) ==
    LET sa   == Append(pa, va)
        sb   == Append(pb, vb)
        full == Len(sa) = w
        c1   == Upd(acc, va, vb, 1)
        cnt  == Len(PairSelA(sa, sb))
        d    == [k \in Kernels2 |-> Def2(k, sa, sb)]
        em(k) == IF c1.n < EffMp2 THEN ENull
                 ELSE IF k \in OpKernels THEN Op2(k, c1) ELSE d[k]
    IN  /\ ok' = \A k \in Kernels2 : SameExp(em(k), IF cnt < EffMp2 THEN ENull ELSE d[k])
        /\ IF full
           THEN /\ pa' = Tail(sa) /\ pb' = Tail(sb) /\ acc' = Upd(c1, Head(sa), Head(sb), -1)
           ELSE /\ pa' = sa /\ pb' = sb /\ acc' = c1
        /\ UNCHANGED <<w, mp, as, bs, out, dfn>>

W2Next == \E va \in ElemA, vb \in ElemB : W2Step(va, vb)
W2Spec == W2Init /\ [][W2Next]_<<vars, pa, pb, ok>>

Step2OK == ok
NoDrift2W ==
    LET a == PairSelA(pa, pb)
        b == PairSelB(pa, pb)
    IN  /\ acc.n = Len(a)
        /\ acc.sa = S(a) /\ acc.sb = S(b) /\ acc.sab = SumProd(a, b)
        /\ acc.sa2 = SumPow(a, 2) /\ acc.sb2 = SumPow(b, 2)
Window2Bounded == Len(pa) = Len(pb) /\ (Len(pa) <= w - 1 \/ (w = 1 /\ pa = <<>>))
=============================================================================
