------------------------------- MODULE MapOps -------------------------------
(***************************************************************************)
(* Element-wise mapping operations of tea-map: shift / vshift, vdiff,       *)
(* vpct_change, ffill / bfill (+ masks), fill, vclip, abs / vabs, vcut,     *)
(* vsorted_unique_idx, vsorted_unique.                                      *)
(*                                                                         *)
(* Positional DEFINITIONS (what element i of the result is) for all of      *)
(* them, and the carried-state MACHINES of the ones the code implements     *)
(* with state: forward / backward fill (a remembered last valid element)    *)
(* and sorted-unique (a remembered previous value, with a one-element       *)
(* look-ahead and an end sentinel for Keep::Last).  TLC runs the machines   *)
(* over every series in the bound and checks that they end in the           *)
(* definitions, plus the algebraic laws the property lists.                 *)
(***************************************************************************)
EXTENDS Stats, TLC, CutIdx

CONSTANT MaxLen
CONSTANT Elem          \* alphabet incl. NULL

Seqs(A, n) == UNION {[1..k -> A] : k \in 0..n}

(* ---- positional definitions ---------------------------------------------------- *)

\* element that sits n places before position i (1-based), if any
Lag(s, i, n) == IF i - n >= 1 /\ i - n <= Len(s) THEN s[i - n] ELSE NULL
HasLag(s, i, n) == i - n >= 1 /\ i - n <= Len(s)

DefShift(s, n, fill) == [i \in 1..Len(s) |-> IF HasLag(s, i, n) THEN s[i - n] ELSE fill]

\* Float series may hold +-infinity: not a null, but arithmetic on it follows IEEE 754 -
\* inf - inf and inf / inf have no value (NaN, the null of a float series).  PINFM / NINFM are the
\* two infinities as in-band symbols; XSub / XPct are subtraction and relative change extended to them.
PINFM == 900000
NINFM == 0 - 900000
IsInfM(x) == x = PINFM \/ x = NINFM
XSub(a, b) ==
    IF a = PINFM THEN (IF b = PINFM THEN NULL ELSE PINFM)
    ELSE IF a = NINFM THEN (IF b = NINFM THEN NULL ELSE NINFM)
    ELSE IF b = PINFM THEN NINFM ELSE IF b = NINFM THEN PINFM ELSE a - b
EInf(sg) == <<10, sg>>                       \* expectation: sg * infinity
\* a / b - 1 for a non-null pair
XPct(a, b) ==
    IF b = 0 THEN ENull                                                   \* zero base: null by the property
    ELSE IF IsInfM(b) THEN (IF IsInfM(a) THEN ENull ELSE EQ(<<0 - 1, 1>>))  \* finite / inf = 0
    ELSE IF a = PINFM THEN EInf(Sgn(b)) ELSE IF a = NINFM THEN EInf(0 - Sgn(b))
    ELSE EQ(QN(a - b, b))

\* The value 0 has two encodings in a float type (+0.0 and -0.0, which compare equal): every definition here is a
\* function of the VALUE, so the sign of a zero changes no result - in particular a zero base of a percentage
\* change is a zero base whatever its sign (the replay writes every zero of a case as -0.0 in a second pass).
ZeroSignFree == \A b \in {0} : XPct(1, b) = ENull /\ XPct(0 - 1, b) = ENull
\* x[i] - x[i-n] where both operands exist and are non-null; the fill value where the lagged
\* operand does not exist; null where an existing operand is null
DefDiff(s, n, fill) ==
    [i \in 1..Len(s) |->
        IF ~HasLag(s, i, n) THEN fill
        ELSE IF s[i] = NULL \/ s[i - n] = NULL THEN NULL
        ELSE XSub(s[i], s[i - n])]

\* x[i]/x[i-n] - 1 as an expectation; null on a missing / null operand or a zero base
DefPct(s, n) ==
    [i \in 1..Len(s) |->
        IF ~HasLag(s, i, n) \/ s[i] = NULL \/ s[i - n] = NULL THEN ENull
        ELSE XPct(s[i], s[i - n])]

\* ---- units of measurement (see Laws1.tla): shifting and differencing are homogeneous of degree 1
\* in the unit the series AND the fill value are measured in, the percentage change of degree 0
UnitOf(x, u) == IF x = NULL \/ IsInfM(x) THEN x ELSE u * x
InUnitM(s, u) == [i \in 1..Len(s) |-> UnitOf(s[i], u)]
LagDeg == [shift |-> 1, diff |-> 1, pct |-> 0]
LagHomogeneous(s, n, fill) ==
    \A u \in {2, 3} :
        /\ DefShift(InUnitM(s, u), n, UnitOf(fill, u)) = InUnitM(DefShift(s, n, fill), u)
        /\ DefDiff(InUnitM(s, u), n, UnitOf(fill, u)) = InUnitM(DefDiff(s, n, fill), u)
        /\ DefPct(InUnitM(s, u), n) = DefPct(s, n)

\* nearest earlier / later element that is not masked, else the default
\* masks: "null" is the library's is_none; "zero" is a second mask for the *_mask forms
IsNull == "null"
IsZero == "zero"
Masked(m, x) == IF m = "null" THEN x = NULL ELSE x = 0

RECURSIVE PrevKept(_, _, _)
PrevKept(s, i, m) == IF i < 1 THEN NULL ELSE IF ~Masked(m, s[i]) THEN i ELSE PrevKept(s, i - 1, m)
RECURSIVE NextKept(_, _, _)
NextKept(s, i, m) == IF i > Len(s) THEN NULL ELSE IF ~Masked(m, s[i]) THEN i ELSE NextKept(s, i + 1, m)

DefFFill(s, dflt, m) ==
    [i \in 1..Len(s) |-> IF ~Masked(m, s[i]) THEN s[i]
                         ELSE LET p == PrevKept(s, i - 1, m) IN IF p = NULL THEN dflt ELSE s[p]]
DefBFill(s, dflt, m) ==
    [i \in 1..Len(s) |-> IF ~Masked(m, s[i]) THEN s[i]
                         ELSE LET p == NextKept(s, i + 1, m) IN IF p = NULL THEN dflt ELSE s[p]]
DefFill(s, v, m) == [i \in 1..Len(s) |-> IF Masked(m, s[i]) THEN v ELSE s[i]]

ClipOne(x, lo, hi) ==
    IF x = NULL THEN NULL
    ELSE IF lo # NULL /\ x < lo THEN lo
    ELSE IF hi # NULL /\ x > hi THEN hi
    ELSE x
DefClip(s, lo, hi) == [i \in 1..Len(s) |-> ClipOne(s[i], lo, hi)]
DefAbs(s) == [i \in 1..Len(s) |-> IF s[i] = NULL THEN NULL ELSE Abs(s[i])]
\* drop_none: the valid elements, in order (the one mapping operation that changes the length)
DefDropNone(s) == Sel(s)
DropNoneLaws(s) ==
    /\ Len(DefDropNone(s)) = N(Sel(s)) /\ \A i \in 1..Len(DefDropNone(s)) : DefDropNone(s)[i] # NULL
    /\ DefDropNone(DefDropNone(s)) = DefDropNone(s)
    /\ DefDropNone(DefFill(s, 7, IsNull)) = DefFill(s, 7, IsNull)           \* nothing to drop after a fill

(* ---- laws ------------------------------------------------------------------------ *)

LenPreserved(s) ==
    /\ \A n \in -(Len(s) + 3)..(Len(s) + 3) :
         Len(DefShift(s, n, NULL)) = Len(s) /\ Len(DefDiff(s, n, NULL)) = Len(s) /\ Len(DefPct(s, n)) = Len(s)
    /\ Len(DefFFill(s, NULL, IsNull)) = Len(s) /\ Len(DefBFill(s, NULL, IsNull)) = Len(s)

\* C06: a non-negative lag never looks ahead: the result on a prefix is the prefix of the result
PrefixLaw(s) ==
    \A n \in 0..(Len(s) + 2), k \in 0..Len(s) :
        LET p == SubSeq(s, 1, k) IN
        /\ DefShift(p, n, NULL) = SubSeq(DefShift(s, n, NULL), 1, k)
        /\ DefDiff(p, n, NULL)  = SubSeq(DefDiff(s, n, NULL), 1, k)
        /\ DefPct(p, n)         = SubSeq(DefPct(s, n), 1, k)

ClipLaws(s) ==
    \A lo \in Elem, hi \in Elem :
        LET c == DefClip(s, lo, hi) IN
        /\ \A i \in 1..Len(s) : (s[i] = NULL) <=> (c[i] = NULL)                   \* nulls stay null
        /\ (lo = NULL \/ hi = NULL \/ lo <= hi) =>
              /\ DefClip(c, lo, hi) = c                                              \* idempotent
              /\ \A i \in 1..Len(s) : c[i] # NULL =>
                     (lo = NULL \/ c[i] >= lo) /\ (hi = NULL \/ c[i] <= hi)          \* inside the bounds
              /\ \A i, j \in 1..Len(s) : (s[i] # NULL /\ s[j] # NULL /\ s[i] <= s[j]) => c[i] <= c[j]   \* monotone

FillLaws(s) ==
    /\ \A i \in 1..Len(s) : s[i] # NULL => DefFFill(s, 7, IsNull)[i] = s[i]          \* only nulls are touched
    /\ \A i \in 1..Len(s) : s[i] # NULL => DefFill(s, 7, IsNull)[i] = s[i]
    /\ \A i \in 1..Len(s) : DefFill(s, 7, IsNull)[i] # NULL

(* ---- the carried-state machines ---------------------------------------------------- *)

\* forward fill: one remembered element
RECURSIVE FFillRun(_, _, _, _, _)
FFillRun(s, i, last, dflt, m) ==
    IF i > Len(s) THEN <<>>
    ELSE IF Masked(m, s[i])
         THEN <<IF last # <<>> THEN last[1] ELSE dflt>> \o FFillRun(s, i + 1, last, dflt, m)
         ELSE <<s[i]>> \o FFillRun(s, i + 1, <<s[i]>>, dflt, m)
Rev(s) == [i \in 1..Len(s) |-> s[Len(s) - i + 1]]
MachFFill(s, dflt, m) == FFillRun(s, 1, <<>>, dflt, m)
\* backward fill is the forward machine run over the reversed series, collected, reversed back
MachBFill(s, dflt, m) == Rev(FFillRun(Rev(s), 1, <<>>, dflt, m))

FillRefines(s) ==
    \A d \in {NULL, 7} :
        /\ MachFFill(s, d, IsNull) = DefFFill(s, d, IsNull) /\ MachBFill(s, d, IsNull) = DefBFill(s, d, IsNull)
        /\ MachFFill(s, d, IsZero) = DefFFill(s, d, IsZero) /\ MachBFill(s, d, IsZero) = DefBFill(s, d, IsZero)

\* the machine's output obeys the closure recurrence f[i] = s[i] if kept, else f[i-1] (f[0] = the default) - the
\* recurrence FillProof.tla starts from when it proves, for a series of ANY length, that the closure computes the
\* positional definition
FFillIsClosure(s) ==
    \A d \in {NULL, 7} :
        LET f == MachFFill(s, d, IsNull) IN
        /\ Len(f) = Len(s)
        /\ \A i \in 1..Len(s) : f[i] = IF s[i] # NULL THEN s[i] ELSE (IF i = 1 THEN d ELSE f[i - 1])

\* ---- sorted-unique ---------------------------------------------------------------------

\* inputs of the operation: equal values adjacent, nulls in one block at the head or the tail
Grouped(s) ==
    /\ \A i, j \in 1..Len(s) : (i < j /\ s[i] = s[j]) => \A k \in i..j : s[k] = s[i]
    /\ \/ \A i \in 1..Len(s) : s[i] # NULL
       \/ \E c \in 0..Len(s) : \/ \A i \in 1..Len(s) : (s[i] = NULL) <=> (i <= c)
                               \/ \A i \in 1..Len(s) : (s[i] = NULL) <=> (i > c)

\* 0-based first / last index of every run of equal non-null values, in order
RunFirsts(s) == SelectSeq([i \in 1..Len(s) |-> i - 1],
                          LAMBDA z : s[z + 1] # NULL /\ (z = 0 \/ s[z] # s[z + 1]))
RunLasts(s)  == SelectSeq([i \in 1..Len(s) |-> i - 1],
                          LAMBDA z : s[z + 1] # NULL /\ (z + 1 = Len(s) \/ s[z + 2] # s[z + 1]))
RunValues(s) == [k \in 1..Len(RunFirsts(s)) |-> s[RunFirsts(s)[k] + 1]]

\* Keep::First as coded: remember the previous VALUE, emit the index when it changes
RECURSIVE UniqFirstRun(_, _, _)
UniqFirstRun(s, i, last) ==
    IF i > Len(s) THEN <<>>
    ELSE IF s[i] = NULL THEN UniqFirstRun(s, i + 1, last)
    ELSE IF last = <<s[i]>> THEN UniqFirstRun(s, i + 1, last)
    ELSE <<i - 1>> \o UniqFirstRun(s, i + 1, <<s[i]>>)
MachUniqFirst(s) == UniqFirstRun(s, 1, <<>>)

\* Keep::Last, REQUIRED behaviour of the look-ahead machine: walking from the second element
\* (then an end sentinel), emit the index of the PREVIOUS element when a run of non-null
\* values ends there
RECURSIVE UniqLastRun(_, _, _)
UniqLastRun(s, i, last) ==      \* i: 1-based index of the look-ahead element; Len(s)+1 = sentinel
    IF i > Len(s) + 1 THEN <<>>
    ELSE LET cur == IF i = Len(s) + 1 THEN NULL ELSE s[i] IN
         IF cur # NULL
         THEN (IF last # <<>> /\ last # <<cur>> THEN <<i - 2>> ELSE <<>>) \o UniqLastRun(s, i + 1, <<cur>>)
         ELSE (IF last # <<>> THEN <<i - 2>> ELSE <<>>) \o UniqLastRun(s, i + 1, <<>>)
MachUniqLast(s) == IF s = <<>> THEN <<>>
                   ELSE UniqLastRun(s, 2, IF s[1] = NULL THEN <<>> ELSE <<s[1]>>)

UniqRefines(s) ==
    Grouped(s) => /\ MachUniqFirst(s) = RunFirsts(s)
                  /\ MachUniqLast(s) = RunLasts(s)
                  /\ \A k \in 1..Len(RunLasts(s)) : s[RunLasts(s)[k] + 1] # NULL     \* never a null index

(* ---- binning ------------------------------------------------------------------------------ *)

\* outcome of cutting x with ascending edges b (non-null), nl labels, closedness and bound mode:
\*   >= 0 : 0-based label index      -1 : error "not in bins"      -2 : the null label
CutOne(x, b, right, bounds) ==
    IF x = NULL THEN -2
    ELSE IF bounds
         THEN \* open outer bounds: label k covers the k-th gap of  -inf | b[1] | ... | b[m] | +inf
              IF right THEN Cardinality({k \in 1..Len(b) : b[k] < x})
              ELSE Cardinality({k \in 1..Len(b) : b[k] <= x})
         ELSE LET hits == {k \in 1..(Len(b) - 1) : InBin(b, k, x, right)}        \* CutIdx.tla (CutProof.tla: any length)
              IN  IF hits = {} THEN -1 ELSE (CHOOSE k \in hits : TRUE) - 1
\* the label series may itself hold a null (label index nulllab, -1 for none): a value in that bin
\* gets the null label - which is a result, not an error
CutOneL(x, b, right, bounds, nulllab) ==
    LET k == CutOne(x, b, right, bounds) IN IF k >= 0 /\ k = nulllab THEN -2 ELSE k
\* C14: an error is reported for values outside all intervals only, whatever the labels are
ErrorOnlyOutside(b) ==
    \A x \in Elem, right \in BOOLEAN, bounds \in BOOLEAN, nulllab \in -1..Len(b) :
        (CutOneL(x, b, right, bounds, nulllab) = -1) <=> (CutOne(x, b, right, bounds) = -1)
CutCallOK(b, nl, bounds) == IF bounds THEN nl = Len(b) + 1 ELSE nl + 1 = Len(b)

Ascending(b) == \A i \in 1..(Len(b) - 1) : b[i] < b[i + 1]
\* C14: for ascending edges at most one interval contains a value
UniqueBin(b) ==
    Ascending(b) => \A x \in Elem \ {NULL}, right \in BOOLEAN :
        Cardinality({k \in 1..(Len(b) - 1) : InBin(b, k, x, right)}) <= 1
\* C14: with open outer bounds every non-null value receives a label
OpenBoundsTotal(b) ==
    \A x \in Elem \ {NULL}, right \in BOOLEAN :
        CutOne(x, b, right, TRUE) \in 0..Len(b)

=============================================================================
