SPECIFICATION Spec
CONSTANTS
  MaxLen = 4
  MaxW = 5
  VR = 2
  WithNull = TRUE
  Elem <- ElemDef
  Units = {2, 3, 5}
INVARIANTS Homogeneous MaskUnitFree TransLaw EmitLaws
CHECK_DEADLOCK FALSE
