------------------------------- MODULE Window -------------------------------
(***************************************************************************)
(* The rolling-driver protocol of tea-core (Vec1View::rolling_apply,        *)
(* rolling_apply_idx, rolling2_apply, rolling2_apply_idx, rolling_custom,   *)
(* rolling2_custom, rolling_custom_iter and the *_to forms).                *)
(*                                                                         *)
(* Every driver walks the positions 0..len-1 of the input once.  At each   *)
(* position it may read input elements through the unchecked accessors,    *)
(* invokes the user callback once, and stores the callback's result at the *)
(* same position of the output, either by an unchecked write into an       *)
(* uninitialised buffer ("to" body: the *_to functions and the fast paths  *)
(* of Vec / slice / array / ndarray, which allocate the buffer themselves) *)
(* or by collecting an iterator ("iter" body: the trait's default bodies). *)
(*                                                                         *)
(* Two things live in this module.                                         *)
(*  (1) The REQUIRED protocol: Req(i), the callback arguments the property *)
(*      fixes for position i, and the safety envelope (reads in bounds,    *)
(*      each slot written once, every slot written before the buffer is    *)
(*      exposed).                                                          *)
(*  (2) The driver MACHINE: what the two bodies do, step by step, with     *)
(*      their own window clamping and their own reads.  TLC checks that    *)
(*      the machine stays inside (1) for every length, window and form.    *)
(* TraceWindow.tla replays events recorded from the real drivers through   *)
(* the same actions.                                                       *)
(***************************************************************************)
EXTENDS Values, TLC, WindowIdx

CONSTANTS MaxLen,     \* largest series length explored
          MaxWExtra   \* windows 0 .. len + MaxWExtra

NONE == -1            \* "nothing to remove" / no start index
ANY  == -2            \* left open by the property

Forms1  == {"apply", "idx", "custom", "citer"}
Forms2  == {"apply2", "idx2", "custom2"}
Forms   == Forms1 \cup Forms2
Slicing == {"custom", "custom2", "citer"}
HasTo(f) == f \in {"apply", "idx", "apply2", "idx2", "custom"}

VARIABLES len,      \* length of the (first) input
          len2,     \* length of the second input (= len for one-series forms)
          w,        \* requested window
          form, body,
          pc,       \* "begin" | "run" | "done" | "panic"
          pos,      \* number of callback invocations so far = next position
          calls,    \* the invocations so far: <<start, lo, hi>> per position
          written,  \* output positions written so far
          reads,    \* unchecked reads performed by the last step
          err       \* protocol faults observed so far (must stay empty)

vars == <<len, len2, w, form, body, pc, pos, calls, written, reads, err>>

Degenerate == (w = 0) \/ (len2 # len)

(* ---- (1) the required protocol --------------------------------------- *)

\* index of the window start handed to the callback at position i
ReqStart(i) ==
    IF i >= w - 1 THEN i - w + 1
    ELSE IF i < Min2(w, len) - 1 THEN NONE
    ELSE ANY                          \* only i = len-1 when w > len: unspecified

\* half-open range [lo, hi) handed to a slice callback at position i
ReqLo(i) == Max2(0, i - w + 1)
ReqHi(i) == i + 1

Req(i) == IF form \in Slicing THEN <<NONE, ReqLo(i), ReqHi(i)>>
          ELSE <<ReqStart(i), ReqLo(i), ReqHi(i)>>

MatchCall(c, i) ==
    /\ c[2] = ReqLo(i) /\ c[3] = ReqHi(i)
    /\ \/ form \in Slicing
       \/ ReqStart(i) = ANY
       \/ c[1] = ReqStart(i)

SeriesLen(s) == IF s = 1 THEN len ELSE len2

ReadOK(r) ==      \* r = <<series, idx>>  or  <<series, lo, hi>>
    IF Len(r) = 2 THEN r[2] >= 0 /\ r[2] < SeriesLen(r[1])
    ELSE 0 <= r[2] /\ r[2] <= r[3] /\ r[3] <= SeriesLen(r[1])

(* ---- (2) the driver machine ------------------------------------------ *)

Init ==
    /\ len \in 0..MaxLen
    /\ form \in Forms
    /\ w \in 0..(len + MaxWExtra)
    /\ len2 \in IF form \in Forms2
                THEN {len} \cup ({len - 2, len - 1, len + 1, len + 2, len + 3} \cap 0..(MaxLen + 3))
                ELSE {len}
    /\ body \in IF HasTo(form) THEN {"iter", "to"} ELSE {"iter"}
    /\ pc = "begin" /\ pos = 0 /\ calls = <<>> /\ written = {} /\ reads = {}
    /\ err = {}

\* A degenerate request must end in a clean panic before anything is read or
\* written (an empty input with window 0 may also just return the empty output).
Begin ==
    /\ pc = "begin"
    /\ pc' \in IF Degenerate
               THEN (IF len = 0 /\ len2 = 0 THEN {"panic", "run"} ELSE {"panic"})
               ELSE {"run"}
    /\ UNCHANGED <<len, len2, w, form, body, pos, calls, written, reads, err>>

\* the window the body works with: the *_to bodies clamp it to the length first
\* (the index arithmetic is WindowIdx.tla's: WindowProof.tla proves it in bounds for every length and window)
EffW == EffWOf(body = "to", w, len)

DrvStart(i) == IF HasStart(i, EffW) THEN StartOf(i, EffW) ELSE NONE

DrvReads(i) ==
    LET st == DrvStart(i)
        lo == LoOf(i, EffW)
        two == form \in Forms2
    IN  CASE form \in {"apply", "apply2"} ->
               {<<1, i>>} \cup (IF st = NONE THEN {} ELSE {<<1, st>>})
               \cup (IF two THEN {<<2, i>>} \cup (IF st = NONE THEN {} ELSE {<<2, st>>}) ELSE {})
          [] form \in {"idx", "idx2"} ->
               {<<1, i>>} \cup (IF two THEN {<<2, i>>} ELSE {})
          [] OTHER ->
               {<<1, lo, i + 1>>} \cup (IF two THEN {<<2, lo, i + 1>>} ELSE {})

Step ==
    /\ pc = "run" /\ pos < len
    /\ reads' = DrvReads(pos)
    /\ calls' = Append(calls, <<IF form \in Slicing THEN NONE ELSE DrvStart(pos),
                                LoOf(pos, EffW), HiOf(pos)>>)
    /\ written' = written \cup {pos}
    /\ err' = IF pos \in written THEN err \cup {"double_write"} ELSE err
    /\ pos' = pos + 1
    /\ UNCHANGED <<len, len2, w, form, body, pc>>

Finish ==
    /\ pc = "run" /\ pos = len
    /\ pc' = "done" /\ reads' = {}
    /\ UNCHANGED <<len, len2, w, form, body, pos, calls, written, err>>

Next == Begin \/ Step \/ Finish

Spec == Init /\ [][Next]_vars /\ WF_vars(Next)

(* ---- properties -------------------------------------------------------- *)

TypeOK ==
    /\ len \in 0..MaxLen /\ len2 \in 0..(MaxLen + 3) /\ w \in Nat
    /\ form \in Forms /\ body \in {"iter", "to"}
    /\ pc \in {"begin", "run", "done", "panic"}
    /\ pos \in 0..len /\ written \subseteq 0..(len - 1)

\* C02: exactly one invocation per position, in increasing order
OncePerPosition ==
    /\ Len(calls) = pos
    /\ \A k \in 1..Len(calls) : calls[k][3] = k

\* C02: with exactly the right window
RightWindow == \A k \in 1..Len(calls) : MatchCall(calls[k], k - 1)

\* C02 / C05: one result per input element
LenOK == pc = "done" => Len(calls) = len

\* C10: unchecked accessors only ever see in-range arguments
ReadsInBounds == \A r \in reads : ReadOK(r)

\* C10: each output slot written exactly once, all of them before exposure
WriteOnce  == err = {}
InitAtDone == pc = "done" => written = 0..(len - 1)

\* C10: a degenerate request never reaches the run phase with data to touch
DegenerateIsClean == (Degenerate /\ len + len2 > 0) => pc \in {"begin", "panic"}

Terminates == <>(pc \in {"done", "panic"})

=============================================================================
