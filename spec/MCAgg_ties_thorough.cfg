SPECIFICATION TiesSpec
CONSTANTS
  MaxLen = 9
  Pairs = FALSE
  TiesLen = 9
  ValSet <- SignedSet
  ValSet2 = {0, 1}
  Elem <- ElemDef
  Elem2 <- Elem2Def
INVARIANTS FoldRefines FoldPrefix NullTransparent Emit1
PROPERTY Terminates
CHECK_DEADLOCK FALSE
