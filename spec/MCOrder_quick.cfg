SPECIFICATION Spec
CONSTANTS
  MaxLen = 5
  ValSet <- SignedSet
  Elem <- ElemDef
INVARIANTS MirrorOK RankLoopOK PartitionOK EmitOrder
CHECK_DEADLOCK FALSE
