SPECIFICATION Spec
CONSTANTS
  MaxLen = 5
  ValSet = {0, 1, 2}
  Elem <- ElemDef
INVARIANTS MirrorOK RankLoopOK PartitionOK EmitOrder
CHECK_DEADLOCK FALSE
