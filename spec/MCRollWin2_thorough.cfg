SPECIFICATION W2Spec
CONSTANTS
  MaxLen = 1
  MaxW = 4
  VRA = 2
  VRB = 1
  WithNull = TRUE
  ElemA <- ElemADef
  ElemB <- ElemBDef
INVARIANTS Step2OK NoDrift2W Window2Bounded
CHECK_DEADLOCK FALSE
