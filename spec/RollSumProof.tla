---------------------------- MODULE RollSumProof ----------------------------
(***************************************************************************)
(* The add -> emit -> remove protocol of the rolling kernels for EVERY       *)
(* length, window and summand.                                               *)
(*                                                                         *)
(* Every running accumulator of tea-rolling (count of valid elements, sum,   *)
(* power sums, cross sums) is a sum of a per-position summand f[j] over the  *)
(* current window: f is the value, its square, ... or the indicator of "not  *)
(* null".  At position i the kernel adds f[i], emits, and - when an element  *)
(* leaves the window (WindowIdx!HasStart) - subtracts f[StartOf(i)].         *)
(* RollKernels.tla checks with TLC, for every history within a bound, that   *)
(* the accumulators equal the from-scratch sums over the window contents.    *)
(* Here the same statement is proved for all lengths and windows in exact    *)
(* arithmetic: what is emitted at position i is the sum of f over exactly    *)
(* the positions LoOf(i) .. i, and what stays in the accumulator afterwards  *)
(* is the sum over the part of that window that the next position keeps -    *)
(* nothing is counted twice, nothing is forgotten (NoDrift without a bound). *)
(*                                                                         *)
(* P is the prefix-sum function of f (P[0] = 0, P[k+1] = P[k] + f[k]); the   *)
(* sum of f over lo .. i is P[i+1] - P[lo].                                  *)
(***************************************************************************)
EXTENDS WindowIdx, TLAPS

CONSTANTS Len, W, ToBody, f, P
ASSUME LenNat == Len \in Nat
ASSUME WPos   == W \in Nat /\ W >= 1
ASSUME ToBool == ToBody \in BOOLEAN
ASSUME FType  == f \in [0..(Len - 1) -> Int]
ASSUME PType  == P \in [0..Len -> Int]
ASSUME PZero  == P[0] = 0
ASSUME PStep  == \A k \in 0..(Len - 1) : P[k + 1] = P[k] + f[k]

EffW == EffWOf(ToBody, W, Len)
WinSum(i) == P[i + 1] - P[LoOf(i, EffW)]          \* sum of f over the window of position i

VARIABLES pos, acc, last
vars == <<pos, acc, last>>

Init == pos = 0 /\ acc = 0 /\ last = 0
Step ==
    /\ pos < Len
    /\ LET a1 == acc + f[pos] IN
         /\ last' = a1                                                      \* emit
         /\ acc' = IF HasStart(pos, EffW) THEN a1 - f[StartOf(pos, EffW)] ELSE a1   \* remove
    /\ pos' = pos + 1
Next == Step
Spec == Init /\ [][Next]_vars

Inv ==
    /\ pos \in 0..Len
    /\ acc \in Int /\ last \in Int
    /\ Len >= 1 => acc = P[pos] - P[LoOf(pos, EffW)]      \* the part of the next window already seen
    /\ pos > 0 => last = WinSum(pos - 1)                  \* what was emitted is the window sum

LEMMA EffWPos == Len >= 1 => EffW \in Nat /\ EffW >= 1
  BY LenNat, WPos, ToBool DEF EffW, EffWOf, MinI

THEOREM NoDrift == Spec => []Inv
<1>1. Init => Inv
  <2>1. Len >= 1 => LoOf(0, EffW) = 0
    BY EffWPos DEF LoOf, MaxI
  <2> QED BY <2>1, LenNat, PType, PZero DEF Init, Inv
<1>2. Inv /\ [Next]_vars => Inv'
  <2> SUFFICES ASSUME Inv, [Next]_vars PROVE Inv'
    OBVIOUS
  <2>1. CASE Step
    <3>1. pos \in 0..(Len - 1) /\ Len >= 1
      BY <2>1, LenNat DEF Inv, Step
    <3>2. EffW \in Nat /\ EffW >= 1
      BY <3>1, EffWPos
    <3> DEFINE lo == LoOf(pos, EffW)
    <3>3. lo \in 0..pos /\ lo = (IF pos - EffW + 1 >= 0 THEN pos - EffW + 1 ELSE 0)
      BY <3>1, <3>2 DEF LoOf, MaxI
    <3>4. LoOf(pos + 1, EffW) = (IF HasStart(pos, EffW) THEN lo + 1 ELSE lo) /\ LoOf(pos + 1, EffW) \in 0..(pos + 1)
      BY <3>1, <3>2, <3>3 DEF LoOf, MaxI, HasStart
    <3>5. HasStart(pos, EffW) => StartOf(pos, EffW) = lo /\ lo \in 0..(Len - 1)
      BY <3>1, <3>2, <3>3, LenNat DEF HasStart, StartOf
    <3>6. P[pos + 1] = P[pos] + f[pos] /\ f[pos] \in Int /\ P[pos] \in Int /\ P[pos + 1] \in Int /\ P[lo] \in Int
      BY <3>1, <3>3, PStep, FType, PType, LenNat
    <3>7. HasStart(pos, EffW) => P[lo + 1] = P[lo] + f[lo] /\ f[lo] \in Int /\ P[lo + 1] \in Int
      BY <3>5, PStep, FType, PType, LenNat
    <3> HIDE DEF lo
    <3>8. last' = P[pos + 1] - P[lo]
      BY <2>1, <3>1, <3>6 DEF Inv, Step, lo
    <3>9. acc' = P[pos + 1] - P[LoOf(pos + 1, EffW)]
      <4>1. CASE HasStart(pos, EffW)
        BY <4>1, <2>1, <3>1, <3>4, <3>5, <3>6, <3>7 DEF Inv, Step, lo
      <4>2. CASE ~HasStart(pos, EffW)
        BY <4>2, <2>1, <3>1, <3>4, <3>6 DEF Inv, Step, lo
      <4> QED BY <4>1, <4>2
    <3>10. pos' = pos + 1 /\ pos' \in 0..Len /\ pos' > 0 /\ pos' - 1 = pos
      BY <2>1, <3>1, LenNat DEF Step
    <3>11. acc' \in Int /\ last' \in Int
      BY <3>4, <3>6, <3>8, <3>9, <3>3, PType, <3>1, LenNat
    <3> QED
      BY <3>8, <3>9, <3>10, <3>11 DEF Inv, WinSum, lo
  <2>2. CASE UNCHANGED vars
    BY <2>2 DEF Inv, vars, WinSum
  <2> QED BY <2>1, <2>2 DEF Next
<1>3. QED BY <1>1, <1>2, PTL DEF Spec

\* the window of position i is the W most recent positions, fewer only at the start of the series
THEOREM WindowIsRight ==
    \A i \in 0..(Len - 1) : /\ LoOf(i, EffW) = (IF i >= EffW - 1 THEN i - EffW + 1 ELSE 0)
                            /\ (ToBody = FALSE \/ W <= Len) => EffW = W
  BY LenNat, WPos, ToBool DEF LoOf, MaxI, EffW, EffWOf, MinI
=============================================================================
