--------------------------------- MODULE Agg ---------------------------------
(***************************************************************************)
(* Aggregations of tea-core/agg.rs (AggValidBasic, AggBasic) and tea-agg     *)
(* (AggValidExt): textbook meaning over the NON-NULL elements of a series    *)
(* (pairwise-complete for two series), the required-observation thresholds,  *)
(* and the one-pass fold machine the code uses (vfold_n / vapply_n shape).   *)
(*                                                                         *)
(* The state is one aggregation problem - a series s (with nulls), a second  *)
(* series / mask t, a min_periods mp - plus the fold machine's progress.     *)
(* TLC enumerates every problem within the bound as an initial state, runs   *)
(* the fold to the end and checks                                           *)
(*     FoldRefines      the machine's final state = the definitions          *)
(*     PermInvariant    symmetric aggregations ignore the order of elements  *)
(*     NullTransparent  inserting / deleting nulls changes nothing           *)
(*     Thresholds       null exactly below the required observation count    *)
(***************************************************************************)
EXTENDS Stats, TLC

CONSTANTS MaxLen,
          Pairs           \* TRUE: enumerate an independent second series / mask
CONSTANT Elem, Elem2     \* alphabets incl. NULL (operators of the model module)

VARIABLES s,      \* first series
          t,      \* second series / mask, same length
          mp,     \* min_periods
          i,      \* fold position: elements 1..i consumed
          f       \* fold state
vars == <<s, t, mp, i, f>>

Seqs(A, n) == UNION {[1..k -> A] : k \in 0..n}

(* ---- definitions over the valid elements --------------------------------- *)

V == Sel(s)

CountValid == N(V)
CountNone  == Len(s) - N(V)
CountValue(x) == IF x = NULL THEN CountNone ELSE Cardinality({k \in 1..Len(s) : s[k] = x})

FirstValid == IF N(V) = 0 THEN NULL ELSE V[1]
LastValid  == IF N(V) = 0 THEN NULL ELSE V[N(V)]
\* booleans are 0 / 1
AnyTrue == \E k \in 1..N(V) : V[k] # 0
AllTrue == \A k \in 1..N(V) : V[k] # 0

\* variance-type statistics need max(m, 2) observations; a constant sample has variance 0
NeedOf(m, k) == Max2(m, k)
Need(k) == NeedOf(mp, k)
\* the scale-bearing aggregations as functions of the series (Laws3.tla states their homogeneity)
AggKeys == {"vsum", "vmean", "vmean_var_mean", "vvar", "vstd", "vskew", "vkurt", "vmin", "vmax", "vfirst", "vlast"}
AggOf(k, ser, m) ==
    LET v == Sel(ser) IN
    CASE k = "vsum"  -> IF N(v) = 0 THEN ENull ELSE EInt(S(v))
      [] k = "vmean" -> IF N(v) = 0 THEN ENull ELSE EQ(QN(S(v), N(v)))
      [] k = "vvar"  -> IF N(v) < NeedOf(m, 2) THEN ENull ELSE EQ(QVar(v))
      [] k = "vstd"  -> IF N(v) < NeedOf(m, 2) THEN ENull ELSE ESq(1, QVar(v))
      [] k = "vmean_var_mean" -> IF N(v) < Max2(m, 1) THEN ENull ELSE EQ(QN(S(v), N(v)))
      [] k = "vskew" -> IF N(v) < NeedOf(m, 3) THEN ENull ELSE DefSkew(v)
      [] k = "vkurt" -> IF N(v) < NeedOf(m, 4) THEN ENull ELSE DefKurt(v)
      [] k = "vmin"  -> IF N(v) = 0 THEN ENull ELSE EInt(SeqMin(v))
      [] k = "vmax"  -> IF N(v) = 0 THEN ENull ELSE EInt(SeqMax(v))
      [] k = "vfirst" -> IF N(v) = 0 THEN ENull ELSE EInt(v[1])
      [] k = "vlast"  -> IF N(v) = 0 THEN ENull ELSE EInt(v[N(v)])
DefVSum  == AggOf("vsum", s, mp)
DefVMean == AggOf("vmean", s, mp)
DefVVar  == AggOf("vvar", s, mp)
DefVStd  == AggOf("vstd", s, mp)
DefMeanOfMeanVar == AggOf("vmean_var_mean", s, mp)
DefVSkew == AggOf("vskew", s, mp)
DefVKurt == AggOf("vkurt", s, mp)
DefVMin  == AggOf("vmin", s, mp)
DefVMax  == AggOf("vmax", s, mp)
\* 0-based index (in s, nulls counted) of the FIRST minimum / maximum
FirstPosOf(x) == CHOOSE p \in 1..Len(s) : s[p] = x /\ \A q \in 1..(p - 1) : s[q] # x
DefVArgMin == IF N(V) = 0 THEN ENull ELSE EInt(FirstPosOf(SeqMin(V)) - 1)
DefVArgMax == IF N(V) = 0 THEN ENull ELSE EInt(FirstPosOf(SeqMax(V)) - 1)

\* two series: pairwise deletion
PA == PairSelA(s, t)
PB == PairSelB(s, t)
Agg2Keys == {"vcov", "vcorr"}
Agg2Of(k, a, b, m) ==
    LET pa == PairSelA(a, b)  pb == PairSelB(a, b) IN
    CASE k = "vcov"  -> IF N(pa) < NeedOf(m, 2) THEN ENull ELSE DefCov(pa, pb)
      [] k = "vcorr" -> IF N(pa) < NeedOf(m, 2) THEN ENull ELSE DefCorr(pa, pb)
DefVCov  == Agg2Of("vcov", s, t, mp)
DefVCorr == Agg2Of("vcorr", s, t, mp)

\* masked sum / mean: t is a mask over {0, 1, NULL}; an element counts when its mask is 1
RECURSIVE MaskSel(_, _)
MaskSel(a, m) == IF a = <<>> THEN <<>>
                 ELSE IF Head(m) = 1 THEN <<Head(a)>> \o MaskSel(Tail(a), Tail(m))
                 ELSE MaskSel(Tail(a), Tail(m))
MV == Sel(MaskSel(s, t))
DefMaskCount == N(MV)
DefMaskSum   == IF N(MV) = 0 THEN ENull ELSE EInt(S(MV))
DefMaskSumRaw == S(MV)
DefMaskMean  == IF N(MV) < mp THEN ENull ELSE IF N(MV) = 0 THEN EAny ELSE EQ(QN(S(MV), N(MV)))

(* ---- float series holding infinities ----------------------------------------- *)

\* An infinity is a VALID element (only NaN is the null of a float type).  Two sentinels stand for
\* +inf / -inf; they order like the infinities (every finite value of the alphabet lies between),
\* so the order-based aggregations are defined as before, and the sums follow IEEE: a sum that
\* meets one kind of infinity is that infinity, one that meets both has no value.
PINFA == 900000
NINFA == 0 - 900000
IsInfA(x) == x = PINFA \/ x = NINFA
EInfA(sg) == <<10, sg>>                      \* expectation: sg * infinity (Values.tla kind 10)
EInfOr(x) == IF x = PINFA THEN EInfA(1) ELSE IF x = NINFA THEN EInfA(0 - 1) ELSE EInt(x)
HasP(v) == \E k \in 1..Len(v) : v[k] = PINFA
HasN(v) == \E k \in 1..Len(v) : v[k] = NINFA
FirstPosIn(ser, x) == CHOOSE p \in 1..Len(ser) : ser[p] = x /\ \A q \in 1..(p - 1) : ser[q] # x
InfAggKeys == {"count_valid", "count_none", "vfirst", "vlast", "vsum", "vmean", "vmin", "vmax", "vargmin", "vargmax"}
InfAggOf(k, ser) ==
    LET v == Sel(ser) IN
    CASE k = "count_valid" -> EInt(N(v))
      [] k = "count_none"  -> EInt(Len(ser) - N(v))
      [] k = "vfirst" -> IF N(v) = 0 THEN ENull ELSE EInfOr(v[1])
      [] k = "vlast"  -> IF N(v) = 0 THEN ENull ELSE EInfOr(v[N(v)])
      [] k = "vmin"   -> IF N(v) = 0 THEN ENull ELSE EInfOr(SeqMin(v))
      [] k = "vmax"   -> IF N(v) = 0 THEN ENull ELSE EInfOr(SeqMax(v))
      [] k = "vargmin" -> IF N(v) = 0 THEN ENull ELSE EInt(FirstPosIn(ser, SeqMin(v)) - 1)
      [] k = "vargmax" -> IF N(v) = 0 THEN ENull ELSE EInt(FirstPosIn(ser, SeqMax(v)) - 1)
      [] k = "vsum"   -> IF N(v) = 0 THEN ENull
                         ELSE IF HasP(v) /\ HasN(v) THEN EAny
                         ELSE IF HasP(v) THEN EInfA(1) ELSE IF HasN(v) THEN EInfA(0 - 1) ELSE EInt(S(v))
      [] k = "vmean"  -> IF N(v) = 0 THEN ENull
                         ELSE IF HasP(v) /\ HasN(v) THEN EAny
                         ELSE IF HasP(v) THEN EInfA(1) ELSE IF HasN(v) THEN EInfA(0 - 1) ELSE EQ(QN(S(v), N(v)))
\* C11 on such series: the minimum of a series that holds -inf IS -inf (no finite bound stands in for
\* it), likewise the maximum; an extreme is attained by an element; nulls stay transparent
InfLaws(ser) ==
    LET v == Sel(ser) IN
    /\ HasN(v) => InfAggOf("vmin", ser) = EInfA(0 - 1)
    /\ HasP(v) => InfAggOf("vmax", ser) = EInfA(1)
    /\ (N(v) > 0 /\ \A k \in 1..N(v) : v[k] = NINFA) => InfAggOf("vmax", ser) = EInfA(0 - 1)
    /\ (N(v) > 0 /\ \A k \in 1..N(v) : v[k] = PINFA) => InfAggOf("vmin", ser) = EInfA(1)
    /\ \A k \in InfAggKeys \ {"count_none", "vargmin", "vargmax"} : InfAggOf(k, ser) = InfAggOf(k, v)

(* ---- the fold primitives themselves (iter_traits.rs, number.rs) ------------------ *)

\* vfold / vfold_n / vapply / vapply_n call their closure once per VALID element, in order, and
\* count those calls; vfold2 once per pairwise-complete pair.  The sequence of calls is the
\* observable; n_add / n_prod are the one-step forms (accumulate and count when the operand is valid).
FoldCalls(ser) == Sel(ser)
Fold2Calls(a, b) == <<PairSelA(a, b), PairSelB(a, b)>>
RECURSIVE ProdSeq(_)
ProdSeq(v) == IF v = <<>> THEN 1 ELSE Head(v) * ProdSeq(Tail(v))
NAddFold(ser) == <<S(Sel(ser)), N(Sel(ser))>>           \* fold of n_add from 0
NProdFold(ser) == <<ProdSeq(Sel(ser)), N(Sel(ser))>>    \* fold of n_prod from 1
\* compensated (Kahan) summation is exact on integers: the compensation term stays 0
RECURSIVE KahanFold(_, _, _)
KahanFold(v, sum, cc) ==
    IF v = <<>> THEN <<sum, cc>>
    ELSE LET y == Head(v) - cc  tt == sum + y IN KahanFold(Tail(v), tt, (tt - sum) - y)
KahanExact(ser) == KahanFold(Sel(ser), 0, 0) = <<S(Sel(ser)), 0>>
\* min_with / max_with folded over the valid elements give the extremes
MinWith(a, b) == IF b < a THEN b ELSE a
MaxWith(a, b) == IF b > a THEN b ELSE a
RECURSIVE FoldWith(_, _, _)
FoldWith(Op(_, _), acc, v) == IF v = <<>> THEN acc ELSE FoldWith(Op, Op(acc, Head(v)), Tail(v))
WithFoldsExtremes(ser) ==
    LET v == Sel(ser) IN
    N(v) > 0 => /\ FoldWith(MinWith, v[1], Tail(v)) = SeqMin(v)
                /\ FoldWith(MaxWith, v[1], Tail(v)) = SeqMax(v)

(* ---- the one-pass fold machine --------------------------------------------- *)

F0 == [n |-> 0, s1 |-> 0, s2 |-> 0, s3 |-> 0, s4 |-> 0, mn |-> NULL, mx |-> NULL,
       imn |-> NULL, imx |-> NULL, first |-> NULL, last |-> NULL, nnone |-> 0]

Fold(g, x, pos0) ==
    IF x = NULL THEN [g EXCEPT !.nnone = @ + 1]
    ELSE [n |-> g.n + 1, s1 |-> g.s1 + x, s2 |-> g.s2 + x * x, s3 |-> g.s3 + x * x * x,
          s4 |-> g.s4 + x * x * x * x,
          mn |-> IF g.mn = NULL \/ x < g.mn THEN x ELSE g.mn,
          mx |-> IF g.mx = NULL \/ x > g.mx THEN x ELSE g.mx,
          imn |-> IF g.mn = NULL \/ x < g.mn THEN pos0 ELSE g.imn,      \* strict: first extreme stays
          imx |-> IF g.mx = NULL \/ x > g.mx THEN pos0 ELSE g.imx,
          first |-> IF g.first = NULL THEN x ELSE g.first,
          last |-> x,
          nnone |-> g.nnone]

Init ==
    /\ s \in Seqs(Elem, MaxLen)
    /\ t \in IF Pairs THEN [1..Len(s) -> Elem2] ELSE {s}
    /\ mp \in 0..(MaxLen + 1)
    /\ i = 0 /\ f = F0

Step ==
    /\ i < Len(s)
    /\ f' = Fold(f, s[i + 1], i)
    /\ i' = i + 1
    /\ UNCHANGED <<s, t, mp>>

Next == Step
Spec == Init /\ [][Next]_vars /\ WF_vars(Next)

Done == i = Len(s)

(* ---- properties ---------------------------------------------------------------- *)

\* C11: the one-pass machine ends in the definitions
FoldRefines ==
    Done => /\ f.n = CountValid /\ f.nnone = CountNone
            /\ f.s1 = SumPow(V, 1) /\ f.s2 = SumPow(V, 2) /\ f.s3 = SumPow(V, 3) /\ f.s4 = SumPow(V, 4)
            /\ f.first = FirstValid /\ f.last = LastValid
            /\ EOpt(f.mn) = DefVMin /\ EOpt(f.mx) = DefVMax
            /\ EOpt(f.imn) = DefVArgMin /\ EOpt(f.imx) = DefVArgMax
            \* central moments from the raw sums, as in RollKernels
            /\ f.n * (f.n * f.s2 - f.s1 * f.s1) = D(V, 2)

\* C11: every prefix of the fold describes the prefix it has consumed (no element counted twice)
FoldPrefix ==
    LET pv == Sel(Sub0(s, 0, i - 1)) IN f.n = N(pv) /\ f.s1 = S(pv)

\* symmetric aggregations depend on the multiset of valid values only
Multiset(v) == [x \in {v[k] : k \in 1..Len(v)} |-> Cardinality({k \in 1..Len(v) : v[k] = x})]
PermSets == {p \in [1..Len(s) -> 1..Len(s)] : \A a, b \in 1..Len(s) : a # b => p[a] # p[b]}
Perm(p) == [k \in 1..Len(s) |-> s[p[k]]]
SymAgg(x) == <<N(Sel(x)), S(Sel(x)), SumPow(Sel(x), 2), SumPow(Sel(x), 3), SumPow(Sel(x), 4),
               IF N(Sel(x)) = 0 THEN NULL ELSE SeqMin(Sel(x)), IF N(Sel(x)) = 0 THEN NULL ELSE SeqMax(Sel(x))>>
\* C11: invariance under any permutation (checked on initial states only: i = 0)
PermInvariant ==
    (i = 0 /\ mp = 0 /\ Len(s) <= 5) => \A p \in PermSets : SymAgg(Perm(p)) = SymAgg(s)

\* C08: nulls are transparent - the aggregation of s is the aggregation of its valid part
NullTransparent == i = 0 => SymAgg(s) = SymAgg(V)

\* C08 / C11: the fold primitives visit exactly the valid elements, and the one-step helpers agree
FoldPrimitives ==
    i = 0 => /\ FoldCalls(s) = V /\ Len(FoldCalls(s)) = CountValid
             /\ Len(Fold2Calls(s, t)[1]) = Len(Fold2Calls(s, t)[2])
             /\ NAddFold(s) = <<SumPow(V, 1), CountValid>>
             /\ KahanExact(s) /\ WithFoldsExtremes(s)

Terminates == <>Done
=============================================================================
