-------------------------------- MODULE MCTime --------------------------------
(* Enumeration of TimeArith cases over a grid that includes the range limits of   *)
(* the nanosecond unit, the epoch neighbourhood, month ends, leap days and year   *)
(* ends; laws are checked on every case and the expected values emitted.          *)
EXTENDS TimeArith, Json

CONSTANT Kinds
VARIABLE c
vars == <<c>>

N(x) == 0 - x
Days  == {N(106751), N(25567), N(1), 0, 1, 59, 11016, 11017, 19722, 19723, 19782, 19783, 106751}
DaysS == {N(25567), N(1), 0, 11016, 19782, 19783}
Secs  == {0, 1, 3599, 43200, 86399}
Nss   == {0, 1, 999, 1000, 999999, 1000000, 999999999}
\* the two ends of the nanosecond unit's range (i64 nanoseconds; the least value is the NaT sentinel):
\* 1677-09-21T00:12:43.145224192 .. 2262-04-11T23:47:16.854775807
NsEdge == {<<N(106752), 763, 145224194>>, <<N(106752), 763, 500000000>>, <<N(106752), 763, 999999999>>,
           <<N(106752), 764, 0>>, <<N(106752), 764, 1>>, <<N(106752), 86399, 999999999>>,
           <<106751, 85636, 854775807>>, <<106751, 85636, 854775806>>, <<106751, 85636, 0>>, <<106751, 85635, 999999999>>}
\* beyond the nanosecond unit's range (second / millisecond / microsecond resolution only): years before
\* year 0 - which the formatter writes with a sign -, year 0 itself, the last four-digit year and a
\* five-digit one (proleptic Gregorian calendar, astronomical year numbering as in the calendar library)
FarDays == {DaysFromCivil(0 - 44, 3, 15), DaysFromCivil(0 - 1, 12, 31), DaysFromCivil(0, 1, 1), DaysFromCivil(0, 2, 29),
            DaysFromCivil(9999, 12, 31), DaysFromCivil(12345, 6, 7), DaysFromCivil(0 - 9999, 1, 1)}
FarGrid == {<<d, s, n>> : d \in FarDays, s \in {0, 45296}, n \in {0, 500000000}}
Grid  == {<<d, s, n>> : d \in Days, s \in Secs, n \in Nss} \cup NsEdge \cup FarGrid
\* instants further apart than an i64 of nanoseconds can count (292 years)
FarS  == {<<N(106751), 0, 0>>, <<N(106751), 86399, 999000000>>, <<106751, 0, 0>>, <<106750, 86399, 999000000>>}
GridS == {<<d, s, n>> : d \in DaysS, s \in {0, 86399}, n \in {0, 999000000}}

\* month-free durations built from the eight fixed units, both signs, and two compounds
FixedDurs == {NormDur(0, 0, 0, 1), NormDur(0, 0, 0, N(1)), NormDur(0, 0, 0, 1000), NormDur(0, 0, 0, N(1000)),
              NormDur(0, 0, 0, 1000000), NormDur(0, 0, 0, N(1000000)), NormDur(0, 0, 1, 0), NormDur(0, 0, N(1), 0),
              NormDur(0, 0, 60, 0), NormDur(0, 0, N(60), 0), NormDur(0, 0, 3600, 0), NormDur(0, 0, N(3600), 0),
              NormDur(0, 1, 0, 0), NormDur(0, N(1), 0, 0), NormDur(0, 7, 0, 0), NormDur(0, N(7), 0, 0),
              NormDur(0, 1, 45000, 0), NormDur(0, 0, N(7200), N(500000000))}
AllDurs == FixedDurs \cup {<<1, 0, 0, 0>>, <<N(1), 0, 0, 0>>, <<14, 0, 0, 0>>, <<2, 0, 3600, 0>>,
                           NormDur(N(12), 0, N(1), 500), DZero}

MonthDates == {DaysFromCivil(2024, 1, 31), DaysFromCivil(2024, 2, 29), DaysFromCivil(2023, 2, 28), DaysFromCivil(2024, 3, 31),
               DaysFromCivil(1900, 2, 28), DaysFromCivil(2000, 2, 29), DaysFromCivil(2023, 12, 31), 0, N(1),
               DaysFromCivil(2024, 5, 15), DaysFromCivil(2024, 8, 30), DaysFromCivil(1969, 1, 31)}
MonthCounts == {N(1200), N(13), N(12), N(1), 1, 2, 11, 12, 13, 1200}

Init ==
    \/ /\ "unit" \in Kinds   /\ c \in {[kind |-> "unit", t |-> t] : t \in Grid}
    \/ /\ "addsub" \in Kinds /\ c \in {[kind |-> "addsub", t |-> t, a |-> a] : t \in GridS, a \in FixedDurs}
    \/ /\ "diff" \in Kinds   /\ c \in {[kind |-> "diff", a |-> a, b |-> b] : a \in GridS \cup FarS, b \in GridS \cup FarS}
    \/ /\ "months" \in Kinds /\ c \in {[kind |-> "months", t |-> <<d, s, 0>>, m |-> m] :
                                         d \in MonthDates, s \in {0, 37230}, m \in MonthCounts}
    \/ /\ "group" \in Kinds  /\ c \in {[kind |-> "group", a |-> a, b |-> b, k |-> k] :
                                         a \in AllDurs, b \in AllDurs, k \in {N(2), 0, 3}}
    \/ /\ "nat" \in Kinds    /\ c \in {[kind |-> "nat", a |-> a] : a \in AllDurs \cup {NAT}}
    \* a NaT operand against every VALID date-time of the grid (pre-epoch and far instants included):
    \* the difference of two date-times and the shift by a NaT duration
    \/ /\ "nat" \in Kinds    /\ c \in {[kind |-> "natt", t |-> t] : t \in GridS \cup FarS \cup NsEdge}
    \/ /\ "trunc" \in Kinds  /\ c \in {[kind |-> "trunc", t |-> t] : t \in (Grid \ NsEdge) \cup {<<d, 37230, 123456789>> : d \in MonthDates}}
    \/ /\ "tod" \in Kinds    /\ c \in {[kind |-> "tod", h |-> h, mi |-> mi, s |-> s, sub |-> sub] :
                                         h \in {0, 1, 12, 23}, mi \in {0, 30, 59}, s \in {0, 59}, sub \in {0, 1, 123456789, 999999999}}
Next == UNCHANGED vars
Spec == Init /\ [][Next]_vars

Laws ==
    /\ c.kind = "unit"   => CoarserIsFloor(c.t) /\ FinerAndBack(c.t) /\ TruncTowardPast(c.t) /\ CalendarRoundTrip(c.t[1])
                            /\ CoarserIsFloor(NAT) /\ FinerAndBack(NAT)
    /\ c.kind = "addsub" => AddSubInverse(c.t, c.a) /\ TAdd(NAT, c.a) = NAT /\ TAdd(c.t, NAT) = NAT /\ TSub(NAT, c.a) = NAT
    /\ c.kind = "diff"   => DiffAddsBack(c.a, c.b) /\ TDiff(NAT, c.b) = NAT /\ TDiff(c.a, NAT) = NAT
    /\ c.kind = "group"  => GroupAxioms(c.a, c.b, DScale(c.a, c.k)) /\ ScaleDistributes(c.a, c.b, c.k) /\ DivUndoesScale(c.a, c.k)
                            /\ DAdd(NAT, c.a) = NAT /\ DNeg(NAT) = NAT /\ DScale(NAT, c.k) = NAT
                            \* NaT absorbs EVERY duration, also one with a calendar part
                            /\ TAdd(NAT, c.a) = NAT /\ TSub(NAT, c.a) = NAT
    /\ c.kind = "nat"    => TAdd(NAT, c.a) = NAT /\ TSub(NAT, c.a) = NAT /\ DAdd(NAT, c.a) = NAT /\ DAdd(c.a, NAT) = NAT
                            \* ... and every scaling factor, zero included (0 * NaT is not the empty duration)
                            /\ \A k \in {N(2), N(1), 0, 1, 3} : DScale(NAT, k) = NAT
    /\ c.kind = "natt"   => TDiff(c.t, NAT) = NAT /\ TDiff(NAT, c.t) = NAT /\ TAdd(c.t, NAT) = NAT /\ TSub(c.t, NAT) = NAT
    /\ c.kind = "trunc"  => /\ \A q \in {1, 15, 60, 3600, 21600, 86400} : TruncIsGreatestMultiple(c.t, q)
                            /\ \A dm \in {1, 2, 3, 4, 6, 12} : MonthTruncIsPeriodStart(c.t, dm)
    /\ c.kind = "tod"    => HmsRoundTrip(c.h, c.mi, c.s, c.sub) /\ ToDWithLaws(ToDFromHms(c.h, c.mi, c.s, c.sub))

EmitTime ==
    PrintT(<<"REPLAY", ToJson(
      CASE c.kind = "unit" ->
             [op |-> "unit", t |-> c.t, fields |-> Fields(c.t),
              trunc |-> [s |-> ToUnit(c.t, "s"), ms |-> ToUnit(c.t, "ms"), us |-> ToUnit(c.t, "us"), ns |-> ToUnit(c.t, "ns")]]
        [] c.kind = "addsub" -> [op |-> "addsub", t |-> c.t, a |-> c.a, sum |-> TAdd(c.t, c.a), dif |-> TSub(c.t, c.a)]
        [] c.kind = "diff"   -> [op |-> "diff", a |-> c.a, b |-> c.b, d |-> TDiff(c.a, c.b)]
        [] c.kind = "months" -> [op |-> "months", t |-> c.t, m |-> c.m, sum |-> AddMonths(c.t, c.m),
                                 civil |-> CivilFromDays(AddMonths(c.t, c.m)[1])]
        [] c.kind = "group"  -> [op |-> "group", a |-> c.a, b |-> c.b, k |-> c.k,
                                 sum |-> DAdd(c.a, c.b), dif |-> DSub(c.a, c.b), neg |-> DNeg(c.a), scaled |-> DScale(c.a, c.k)]
        [] c.kind = "nat"    -> [op |-> "nat", a |-> c.a, factors |-> <<N(2), N(1), 0, 1, 3>>]
        [] c.kind = "natt"   -> [op |-> "natt", t |-> c.t, dl |-> TDiff(NAT, c.t), dr |-> TDiff(c.t, NAT),
                                 sum |-> TAdd(c.t, NAT), dif |-> TSub(c.t, NAT)]
        [] c.kind = "trunc"  -> [op |-> "trunc", t |-> c.t,
                                 secs |-> [q \in {1, 15, 60, 3600, 21600, 86400} |-> TruncSecs(c.t, q)],
                                 days |-> [k \in {2, 7} |-> TruncDays(c.t, k)],
                                 nss |-> [q \in {1000, 1000000, 250000000} |-> TruncNs(c.t, q)],
                                 months |-> [dm \in {1, 2, 3, 4, 6, 12} |-> TruncMonths(c.t, dm)]]
        [] c.kind = "tod"    -> [op |-> "tod", h |-> c.h, mi |-> c.mi, s |-> c.s, sub |-> c.sub,
                                 tod |-> ToDFromHms(c.h, c.mi, c.s, c.sub),
                                 with |-> [fld \in {"hour", "minute", "second", "nano"} |->
                                             [val \in WithVals(fld) |-> ToDWith(ToDFromHms(c.h, c.mi, c.s, c.sub), fld, val)]]])>>)
=============================================================================
