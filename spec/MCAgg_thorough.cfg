SPECIFICATION Spec
CONSTANTS
  MaxLen = 6
  Pairs = FALSE
  TiesLen = 6
  ValSet <- SignedSet
  ValSet2 = {0, 1}
  Elem <- ElemDef
  Elem2 <- Elem2Def
INVARIANTS FoldRefines FoldPrefix PermInvariant NullTransparent FoldPrimitives Emit1
PROPERTY Terminates
CHECK_DEADLOCK FALSE
