------------------------------ MODULE TrustProof ------------------------------
(***************************************************************************)
(* For EVERY source length, lag, window and k: the shift-like adaptors       *)
(* yield exactly as many items as their input (which is what their wrapper   *)
(* declares), the partition adaptors exactly k + 1, the rolling iterator     *)
(* exactly the length of its input, and the unsigned subtraction of the      *)
(* lowering is never evaluated on the wrong side of its guard.               *)
(* TrustedIter.tla ties these closed forms to the combinator trees           *)
(* (ClosedFormsAgree, TLC).  Proved with tlapm (SMT).                        *)
(***************************************************************************)
EXTENDS TrustIdx, TLAPS

THEOREM ShiftLen == \A L \in Nat, n \in Int : YShift(L, n) = L /\ ShiftSubtractionGuarded(L, n)
  BY DEF YShift, ShiftSubtractionGuarded, MinT, MaxT, AbsT
THEOREM DiffLen == \A L \in Nat, n \in Int : YDiff(L, n) = L
  BY DEF YDiff, MinT, MaxT, AbsT
THEOREM PctLen == \A L \in Nat, n \in Int : YPct(L, n) = L
  BY DEF YPct, MinT, MaxT, AbsT
THEOREM PartitionLen == \A L \in Nat, v \in Nat, k \in Nat, sort \in BOOLEAN :
                           (v <= L /\ k + 1 < INFT) => YPartition(L, v, k, sort) = k + 1
  BY DEF YPartition, MinT, INFT
THEOREM RollingLen == \A L \in Nat, w \in Nat : w >= 1 => YRolling(L, w) = L
  BY DEF YRolling, MinT
=============================================================================
