----------------------------- MODULE OrderStats -----------------------------
(***************************************************************************)
(* Order statistics of tea-agg/vec_valid.rs (vquantile, vmedian),            *)
(* tea-agg/lib.rs (vpercentile_of) and tea-map/vec_map.rs (vrank,            *)
(* vpartition, varg_partition) over the non-null elements of a series.       *)
(*                                                                         *)
(* Definitions work on Sorted(Sel(s)).  Three pieces of the code are         *)
(* modelled operationally and checked against the definitions:               *)
(*   - the mirrored selection vquantile uses for q > 1/2 (it selects from    *)
(*     the top with q' = 1 - q)                                  MirrorOK    *)
(*   - vrank's run-length loop over the argsorted positions, as the list of  *)
(*     unchecked writes it performs                     RankLoopOK, WriteOnce*)
(*   - the partition result as a multiset specification       PartitionOK    *)
(***************************************************************************)
EXTENDS Stats, SequencesExt, TLC

CONSTANTS MaxLen
CONSTANT Elem

VARIABLE s
vars == <<s>>

Seqs(A, n) == UNION {[1..k -> A] : k \in 0..n}

V  == Sel(s)
SV == SortSeq(V, LAMBDA a, b : a < b)          \* ascending
n  == Len(V)

(* ---- quantile ----------------------------------------------------------------- *)

Qs == {<<0, 1>>, <<1, 10>>, <<1, 4>>, <<1, 3>>, <<1, 2>>, <<2, 3>>, <<3, 4>>, <<9, 10>>, <<1, 1>>}
Methods == {"linear", "lower", "higher", "midpoint"}
Dyadic(q) == q[2] \in {1, 2, 4}

\* value at sorted 0-based rank r of the ascending sequence sv
QuantAtOf(sv, lo, hi, fr, m) ==      \* fr = fractional part as a rational
    CASE m = "linear"   -> QAdd(QInt(sv[lo + 1]), QMul(QInt(sv[hi + 1] - sv[lo + 1]), fr))
      [] m = "lower"    -> QInt(sv[lo + 1])
      [] m = "higher"   -> QInt(sv[hi + 1])
      [] m = "midpoint" -> QN(sv[lo + 1] + sv[hi + 1], 2)

\* the quantile of the ascending sequence sv (a function of the sorted valid values only)
QuantileOf(sv, q, m) ==
    LET nn == Len(sv) IN
    IF nn = 0 THEN ENull
    ELSE LET num == (nn - 1) * q[1]
             lo  == num \div q[2]
             exact == num % q[2] = 0
             hi  == IF exact THEN lo ELSE lo + 1
             fr  == QN(num - lo * q[2], q[2])
             main == EQ(QuantAtOf(sv, lo, hi, fr, m))
         IN  IF exact /\ ~Dyadic(q)
             THEN \* (n-1)q is an integer but q is not a binary fraction: the float index may
                  \* land one ulp on either side (DESIGN 5.5)
                  <<5, main>>
                  \o (IF lo >= 1 THEN <<EQ(QuantAtOf(sv, lo - 1, lo, <<1, 1>>, m))>> ELSE <<>>)
                  \o (IF lo + 1 <= nn - 1 THEN <<EQ(QuantAtOf(sv, lo, lo + 1, <<0, 1>>, m))>> ELSE <<>>)
             ELSE main

\* q moved off a grid point by an amount EPS that is far below the grid spacing and far above rounding (the replay
\* uses 2e-11): where (n-1)q is an integer k the neighbours are then k, k+1 (sg = +1) or k-1, k (sg = -1) and
\* NOT the single rank k - a tolerance on the fractional index wider than rounding would collapse them; elsewhere
\* nothing changes.  (The linear method moves by EPS times a gap: not compared.)
NearMethods == {"lower", "higher", "midpoint"}
QuantileNear(sv, q, sg, m) ==
    LET nn == Len(sv) IN
    IF nn = 0 THEN ENull
    ELSE LET num == (nn - 1) * q[1]
             lo  == num \div q[2]
             exact == num % q[2] = 0
         IN  IF ~exact THEN EQ(QuantAtOf(sv, lo, lo + 1, <<1, 2>>, m))
             ELSE IF sg = 1 THEN (IF lo + 1 <= nn - 1 THEN EQ(QuantAtOf(sv, lo, lo + 1, <<1, 2>>, m)) ELSE EQ(QuantAtOf(sv, lo, lo, <<0, 1>>, m)))
             ELSE (IF lo >= 1 THEN EQ(QuantAtOf(sv, lo - 1, lo, <<1, 2>>, m)) ELSE EQ(QuantAtOf(sv, lo, lo, <<0, 1>>, m)))
DefQuantileNear(q, sg, m) == QuantileNear(SV, q, sg, m)
\* the moved q stays inside [0, 1]
NearOK(q, sg) == IF sg = 1 THEN q[1] < q[2] ELSE q[1] > 0
\* moving q by less than the spacing of the indices never changes a neighbour by more than one rank
NearIsNeighbour ==
    \A q \in Qs, sg \in {0 - 1, 1}, m \in {"lower", "higher"} :
        (NearOK(q, sg) /\ Len(SV) > 0) =>
            \E r \in 0..(Len(SV) - 1) : DefQuantileNear(q, sg, m) = EQ(QInt(SV[r + 1]))

At(r) == SV[r + 1]
QuantAt(lo, hi, fr, m) == QuantAtOf(SV, lo, hi, fr, m)
DefQuantile(q, m) == QuantileOf(SV, q, m)

\* units of measurement (see Laws1.tla): a quantile is homogeneous of degree 1 in the unit of the
\* series (sorting commutes with a positive unit), ranks and percentiles of score of degree 0
ScaleQ(e, u) == CASE e[1] = 1 -> EQ(QMul(<<e[2], e[3]>>, <<u, 1>>))
                  [] e[1] = 5 -> <<5>> \o [j \in 1..(Len(e) - 1) |-> EQ(QMul(<<e[j + 1][2], e[j + 1][3]>>, <<u, 1>>))]
                  [] OTHER -> e
QuantileHomogeneous ==
    \A u \in {2, 3}, q \in Qs, m \in Methods :
        QuantileOf([j \in 1..n |-> u * SV[j]], q, m) = ScaleQ(DefQuantile(q, m), u)
OrderDeg == [quantile |-> 1, pct_of |-> 0, ranks |-> 0, partition |-> 1]

\* the code's path for q > 1/2: select from the top with q' = 1 - q
DescAt(r) == SV[n - r]
MirrorQuantile(q, m) ==
    LET qq  == <<q[2] - q[1], q[2]>>
        num == (n - 1) * qq[1]
        lo  == num \div qq[2]                 \* i: rank from the top
        exact == num % qq[2] = 0
        hi  == IF exact THEN lo ELSE lo + 1   \* j
        fr  == QN(num - lo * qq[2], qq[2])
        vi  == DescAt(lo)                      \* the larger neighbour
        vj  == DescAt(hi)                      \* the selected (smaller) one
    IN  IF exact THEN QInt(vj)
        ELSE CASE m = "lower"    -> QInt(vj)
               [] m = "higher"   -> QInt(vi)
               [] m = "linear"   -> QAdd(QInt(vi), QMul(QInt(vj - vi), fr))
               [] m = "midpoint" -> QN(vi + vj, 2)

MirrorOK ==
    n >= 1 => \A q \in Qs, m \in Methods :
        (2 * q[1] > q[2]) =>
            LET num == (n - 1) * q[1]
                lo  == num \div q[2]
                exact == num % q[2] = 0
                hi  == IF exact THEN lo ELSE lo + 1
                fr  == QN(num - lo * q[2], q[2])
            IN  QEq(MirrorQuantile(q, m), QuantAt(lo, hi, fr, m))

(* ---- percentile of score --------------------------------------------------------- *)

PMethods == {"rank", "weak", "strict"}
DefPercentileOf(x, m) ==
    IF x = NULL \/ n = 0 THEN ENull
    ELSE LET less == Cardinality({k \in 1..n : V[k] < x})
             same == Cardinality({k \in 1..n : V[k] = x})
         IN  CASE m = "weak"   -> EExact(QN(less + same, n))
               [] m = "strict" -> EExact(QN(less, n))
               [] m = "rank"   -> IF same > 1 THEN EExact(QN((less + 1) + (less + same), 2 * n))
                                  ELSE EExact(QN(less + same, n))

(* ---- rank ------------------------------------------------------------------------- *)

DefRankAt(k, rev, pct) ==
    IF s[k] = NULL THEN ENull
    ELSE IF pct THEN EExact(QN(Rank2(V, s[k], rev), 2 * n))
    ELSE EExact(QN(Rank2(V, s[k], rev), 2))
DefRanks(rev, pct) == [k \in 1..Len(s) |-> DefRankAt(k, rev, pct)]

\* vrank's loop, over the positions argsorted with nulls last (any order among equals: the
\* result must not depend on it, so one canonical order is modelled).  It returns the list of
\* writes <<position, 2*rank or NULL>> the loop performs.
NullLastLt(a, b, rev) == IF a = NULL THEN FALSE ELSE IF b = NULL THEN TRUE ELSE IF rev THEN a > b ELSE a < b
Order(rev) == SortSeq([k \in 1..Len(s) |-> k], LAMBDA a, b : NullLastLt(s[a], s[b], rev) \/ (s[a] = s[b] /\ a < b))

RECURSIVE RankLoop(_, _, _, _, _, _)
\* j: 1-based index into the order o; rep, cur, sum as in the code; writes accumulated in acc
RankLoop(o, j, rep, cur, sum, acc) ==
    LET L == Len(o) IN
    IF j = L
    THEN \* after the loop: the last run
         acc \o [k \in 1..rep |-> <<o[L - rep + k], 2 * (sum + cur), rep>>]
    ELSE LET v == s[o[j]]  v1 == s[o[j + 1]] IN
         IF v1 = NULL
         THEN \* the rest are nulls: flush the current run, then null everything after j
              acc \o [k \in 1..rep |-> <<o[j - k + 1], 2 * (sum + cur), rep>>]
                  \o [k \in 1..(L - j) |-> <<o[j + k], NULL, 1>>]
         ELSE IF v = v1 THEN RankLoop(o, j + 1, rep + 1, cur + 1, sum + cur, acc)
         ELSE IF rep = 1 THEN RankLoop(o, j + 1, 1, cur + 1, sum, Append(acc, <<o[j], 2 * cur, 1>>))
         ELSE RankLoop(o, j + 1, 1, cur + 1, 0,
                       acc \o [k \in 1..rep |-> <<o[j - k + 1], 2 * (sum + cur), rep>>])

\* the writes of vrank(rev) on s (Len(s) >= 2, first sorted element non-null)
RankWrites(rev) == RankLoop(Order(rev), 1, 1, 1, 0, <<>>)

RankLoopOK ==
    (Len(s) >= 2 /\ n >= 1) =>
      \A rev \in BOOLEAN :
        LET ws == RankWrites(rev) IN
        /\ Len(ws) = Len(s)                                          \* every slot ...
        /\ \A a, b \in 1..Len(ws) : a # b => ws[a][1] # ws[b][1]      \* ... exactly once
        /\ \A a \in 1..Len(ws) :
             LET pos == ws[a][1] IN
             IF ws[a][2] = NULL THEN s[pos] = NULL
             ELSE s[pos] # NULL /\ ws[a][2] = Rank2(V, s[pos], rev) * ws[a][3]

(* ---- partition ---------------------------------------------------------------------- *)

\* the k+1 smallest (largest when rev) valid values, in order, padded with NULL
DefPartition(k, rev) ==
    LET ord == IF rev THEN [j \in 1..n |-> SV[n - j + 1]] ELSE SV
    IN  [j \in 1..(k + 1) |-> IF j <= n THEN ord[j] ELSE NULL]

PartitionOK ==
    \A k \in 0..(Len(s) + 1), rev \in BOOLEAN :
        LET p == DefPartition(k, rev) IN
        /\ Len(p) = k + 1
        /\ Count(p) = Min2(k + 1, n)
        \* nothing left out is better than something taken
        /\ \A j \in 1..Len(p) : p[j] # NULL =>
              Cardinality({x \in 1..n : IF rev THEN V[x] > p[j] ELSE V[x] < p[j]}) <= j - 1

Init == s \in Seqs(Elem, MaxLen)
Next == UNCHANGED vars
Spec == Init /\ [][Next]_vars
=============================================================================
