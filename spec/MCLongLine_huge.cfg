SPECIFICATION HSpec
CONSTANTS
  MaxLen = 4
  MaxW = 6
  LineLens = {56000}
  LineWs = {1}
  LawN = 3
  Elem = {0}
INVARIANTS EmitTrend
CHECK_DEADLOCK FALSE
