SPECIFICATION WSpec
CONSTANTS
  RMin <- NegFour
  RMax = 9
  MaxN = 8
INVARIANTS LawsOnce WriterRule EmitGen EmitWriter
PROPERTY WriterTerminates
CHECK_DEADLOCK FALSE
