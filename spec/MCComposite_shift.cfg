SPECIFICATION Spec
CONSTANTS
  HLMaxLen = 40
  MaxLen = 5
  SpLen = 3
  ValSet = {0, 1, 2, 3}
  Kinds = {"half_life_shift"}
  RampLens = {10}
  ShiftHalves = {5, 6, 7, 10, 12}
  Elem <- ElemDef
INVARIANTS PwIsPow NoUnderflow InRange ResultLaw EmitComposite
PROPERTY Terminates
CHECK_DEADLOCK FALSE
