------------------------------- MODULE TimeIdx -------------------------------
(* The mixed-radix arithmetic of instants <<day, second of day, nanosecond>> and   *)
(* month-free durations, shared by TimeArith.tla (TLC, on a grid of instants) and  *)
(* TimeProof.tla (every instant and duration, TLA+ proof system).                  *)
EXTENDS Integers

NS == 1000000000
SECS_PER_DAY == 86400
UnitNs(u) == CASE u = "s" -> NS [] u = "ms" -> 1000000 [] u = "us" -> 1000 [] u = "ns" -> 1

\* carry ns into sec and sec into day (\div floors, % is non-negative)
NormInst(d, s, n) ==
    LET s1 == s + (n \div NS)
        n1 == n % NS
    IN  <<d + (s1 \div SECS_PER_DAY), s1 % SECS_PER_DAY, n1>>
NormDur(mo, d, s, n) ==
    LET s1 == s + (n \div NS) IN <<mo, d + (s1 \div SECS_PER_DAY), s1 % SECS_PER_DAY, n % NS>>
\* low digits dropped (toward the past)
TruncToUnit(t, u) == <<t[1], t[2], (t[3] \div UnitNs(u)) * UnitNs(u)>>
TruncSecs(t, q) == <<t[1], (t[2] \div q) * q, 0>>                 \* q seconds, q divides 86400
TruncDays(t, k) == <<(t[1] \div k) * k, 0, 0>>                    \* k days
TruncNs(t, q)   == <<t[1], t[2], (t[3] \div q) * q>>              \* q nanoseconds, q divides 10^9
=============================================================================
