SPECIFICATION Spec
CONSTANTS
  MaxLen = 4
  Pairs = FALSE
  ValSet <- SignedSet
  ValSet2 = {0, 1}
  Elem <- ElemDef
  Elem2 <- Elem2Def
  Units = {2, 3}
INVARIANTS Homogeneous3 EmitLaws3
CHECK_DEADLOCK FALSE
