------------------------------- MODULE MCOrder -------------------------------
EXTENDS OrderStats, Json
CONSTANTS ValSet
SignedSet == {0 - 1, 0, 2}
ElemDef == ValSet \cup {NULL}


EmitOrder ==
    PrintT(<<"REPLAY", ToJson([op |-> "order", s |-> s,
        quant |-> SetToSeq({[q |-> q, m |-> m, e |-> DefQuantile(q, m)] : q \in Qs, m \in Methods}),
        pct_of |-> SetToSeq({[x |-> x, m |-> m, e |-> DefPercentileOf(x, m)] : x \in ElemDef, m \in PMethods}),
        ranks |-> SetToSeq({[rev |-> r, pct |-> p, e |-> DefRanks(r, p)] : r \in BOOLEAN, p \in BOOLEAN}),
        part |-> SetToSeq({[k |-> k, rev |-> r, want |-> DefPartition(k, r)] : k \in 0..(Len(s) + 1), r \in BOOLEAN})
        ])>>)
=============================================================================
