------------------------------- MODULE MCOrder -------------------------------
EXTENDS OrderStats, Json, Randomization
CONSTANTS ValSet, LongLens, PerLen
SignedSet == {0 - 1, 0, 2}
ElemDef == ValSet \cup {NULL}


EmitOrder ==
    PrintT(<<"REPLAY", ToJson([op |-> "order", s |-> s, deg |-> OrderDeg,
        quant |-> SetToSeq({[q |-> q, m |-> m, e |-> DefQuantile(q, m)] : q \in Qs, m \in Methods}),
        quant_near |-> SetToSeq({[q |-> qs[1], sg |-> qs[2], m |-> m, e |-> DefQuantileNear(qs[1], qs[2], m)] :
                                  qs \in {x \in Qs \X {0 - 1, 1} : NearOK(x[1], x[2])}, m \in NearMethods}),
        pct_of |-> SetToSeq({[x |-> x, m |-> m, e |-> DefPercentileOf(x, m)] : x \in ElemDef, m \in PMethods}),
        ranks |-> SetToSeq({[rev |-> r, pct |-> p, e |-> DefRanks(r, p)] : r \in BOOLEAN, p \in BOOLEAN}),
        part |-> SetToSeq({[k |-> k, rev |-> r, want |-> DefPartition(k, r)] : k \in 0..(Len(s) + 1), r \in BOOLEAN})
        ])>>)

\* long series: selection algorithms switch strategy with the length (insertion sort below ~20
\* elements, partition-based selection above), so the bounded enumeration is complemented by
\* PerLen random series of every length in LongLens over a ten-value alphabet with nulls
Wide == (0 - 3)..6
LongInit == \E len \in LongLens : s \in RandomSubset(PerLen, [1..len -> Wide \cup {NULL}])
LongSpec == LongInit /\ [][Next]_vars
=============================================================================
