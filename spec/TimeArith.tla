------------------------------ MODULE TimeArith ------------------------------
(***************************************************************************)
(* Time values of tea-time: date-times at second / millisecond /              *)
(* microsecond / nanosecond resolution, durations (calendar months + a        *)
(* fixed part) and times of day.                                              *)
(*                                                                         *)
(* An instant is the mixed-radix triple <<day, sec, ns>> counted from          *)
(* 1970-01-01 with 0 <= sec < 86400 and 0 <= ns < 10^9 (day any integer), or   *)
(* NAT.  All components fit TLC's integers for the whole 1678..2262 range,     *)
(* and "truncation toward the past" is structural: dropping low digits of a    *)
(* normalised triple can only move the instant backwards, also before 1970.    *)
(* A duration is <<months, days, sec, ns>> with the same normalisation of the  *)
(* fixed part (days any integer), or NAT.  A time of day is <<sec, ns>>.       *)
(***************************************************************************)
EXTENDS Integers, Sequences, TLC, TimeIdx

NAT == <<"NaT">>
IsNat(x) == x = NAT

\* NS, SECS_PER_DAY, UnitNs, NormInst, NormDur, TruncToUnit, TruncSecs / TruncDays / TruncNs are TimeIdx.tla's:
\* TimeProof.tla proves the month-free laws below for EVERY instant and duration with the TLA+ proof system
Units == {"s", "ms", "us", "ns"}
\* rank: larger = coarser
Rank(u) == CASE u = "s" -> 3 [] u = "ms" -> 2 [] u = "us" -> 1 [] u = "ns" -> 0
Coarser(u, v) == IF Rank(u) >= Rank(v) THEN u ELSE v

(* ---- instants -------------------------------------------------------------------- *)

\* the instant as representable at unit u: low digits dropped (toward the past)
ToUnit(t, u) == IF IsNat(t) THEN NAT ELSE TruncToUnit(t, u)

\* C16: converting U -> T denotes the instant at the coarser of the two resolutions
Convert(t, u, v) == ToUnit(ToUnit(t, u), v)
CoarserIsFloor(t) == \A u \in Units, v \in Units : Convert(t, u, v) = ToUnit(t, Coarser(u, v))
\* C16: to a finer unit and back is the identity
FinerAndBack(t) == \A u \in Units, v \in Units :
                      Rank(v) <= Rank(u) => Convert(Convert(t, u, v), v, u) = ToUnit(t, u)
Before(a, b) == \/ a[1] < b[1] \/ (a[1] = b[1] /\ a[2] < b[2]) \/ (a[1] = b[1] /\ a[2] = b[2] /\ a[3] <= b[3])
\* C16: truncation never moves an instant forward, and by less than one unit
TruncTowardPast(t) == \A u \in Units :
    ~IsNat(t) => /\ Before(ToUnit(t, u), t)
                 /\ t[3] - ToUnit(t, u)[3] < UnitNs(u)

(* ---- proleptic Gregorian calendar --------------------------------------------------- *)

\* days from civil (Hinnant): valid for any year
DaysFromCivil(y0, m, d) ==
    LET y == IF m <= 2 THEN y0 - 1 ELSE y0
        era == y \div 400
        yoe == y - era * 400
        mp == (m + 9) % 12
        doy == (153 * mp + 2) \div 5 + d - 1
        doe == yoe * 365 + yoe \div 4 - yoe \div 100 + doy
    IN  era * 146097 + doe - 719468
CivilFromDays(z0) ==
    LET z == z0 + 719468
        era == z \div 146097
        doe == z - era * 146097
        yoe == (doe - doe \div 1460 + doe \div 36524 - doe \div 146096) \div 365
        y == yoe + era * 400
        doy == doe - (365 * yoe + yoe \div 4 - yoe \div 100)
        mp == (5 * doy + 2) \div 153
        d == doy - (153 * mp + 2) \div 5 + 1
        m == IF mp < 10 THEN mp + 3 ELSE mp - 9
    IN  <<IF m <= 2 THEN y + 1 ELSE y, m, d>>
IsLeap(y) == (y % 4 = 0 /\ y % 100 # 0) \/ y % 400 = 0
DaysInMonth(y, m) == CASE m \in {1, 3, 5, 7, 8, 10, 12} -> 31 [] m \in {4, 6, 9, 11} -> 30
                       [] OTHER -> IF IsLeap(y) THEN 29 ELSE 28

CalendarRoundTrip(day) == LET c == CivilFromDays(day) IN DaysFromCivil(c[1], c[2], c[3]) = day
\* calendar fields of an instant: <<year, month, day, hour, minute, second>>
Fields(t) == LET c == CivilFromDays(t[1]) IN
             <<c[1], c[2], c[3], t[2] \div 3600, (t[2] % 3600) \div 60, t[2] % 60>>

(* ---- durations ------------------------------------------------------------------------ *)

DAdd(a, b) == IF IsNat(a) \/ IsNat(b) THEN NAT ELSE NormDur(a[1] + b[1], a[2] + b[2], a[3] + b[3], a[4] + b[4])
DNeg(a)    == IF IsNat(a) THEN NAT ELSE NormDur(-a[1], -a[2], -a[3], -a[4])
DSub(a, b) == DAdd(a, DNeg(b))
\* integer scaling by repeated addition (a product of the nanosecond digit would not fit TLC's integers)
RECURSIVE DScale(_, _)
DScale(a, k) == IF IsNat(a) THEN NAT
                ELSE IF k = 0 THEN <<0, 0, 0, 0>>
                ELSE IF k < 0 THEN DNeg(DScale(a, -k))
                ELSE DAdd(a, DScale(a, k - 1))
DZero == <<0, 0, 0, 0>>

\* C17: durations form a group under addition / negation and scaling distributes
GroupAxioms(a, b, c) ==
    /\ DAdd(DAdd(a, b), c) = DAdd(a, DAdd(b, c))
    /\ DAdd(a, b) = DAdd(b, a)
    /\ DAdd(a, DZero) = a
    /\ DAdd(a, DNeg(a)) = DZero
ScaleDistributes(a, b, k) == DAdd(DScale(a, k), DScale(b, k)) = DScale(DAdd(a, b), k)
\* the quotient of two month-free durations (an integer, truncated toward zero) undoes scaling: (a * k) / a = k.
\* (Durations with a calendar part have no quotient in general; the code's own comment says as much, and a pure
\* month count divided by another divides 0 ns by 0 ns - observed, outside the listed properties.)
DurNs(a) == (a[2] * SECS_PER_DAY + a[3]) * NS + a[4]             \* small durations only (TLC integers)
DDivSmall(a, b) == LET q == DurNs(a) \div DurNs(b) IN IF DurNs(a) % DurNs(b) = 0 \/ (DurNs(a) >= 0) = (DurNs(b) > 0) THEN q ELSE q + 1
DivUndoesScale(a, k) ==
    (~IsNat(a) /\ a[1] = 0 /\ a[2] = 0 /\ a[3] = 0 /\ a[4] # 0) => DDivSmall(DScale(a, k), a) = k

(* ---- date-time arithmetic --------------------------------------------------------------- *)

\* calendar months with end-of-month clamping
AddMonths(t, m) ==
    LET c == CivilFromDays(t[1])
        mi == (c[1] * 12 + (c[2] - 1)) + m            \* months since year 0
        y == mi \div 12
        mo == (mi % 12) + 1
        d == IF c[3] <= DaysInMonth(y, mo) THEN c[3] ELSE DaysInMonth(y, mo)
    IN  <<DaysFromCivil(y, mo, d), t[2], t[3]>>

TAdd(t, a) == IF IsNat(t) \/ IsNat(a) THEN NAT
              ELSE LET tm == IF a[1] = 0 THEN t ELSE AddMonths(t, a[1])
                   IN  NormInst(tm[1] + a[2], tm[2] + a[3], tm[3] + a[4])
TSub(t, a) == IF IsNat(t) \/ IsNat(a) THEN NAT
              ELSE LET tm == IF a[1] = 0 THEN t ELSE AddMonths(t, -a[1])
                   IN  NormInst(tm[1] - a[2], tm[2] - a[3], tm[3] - a[4])
\* difference of two instants: a month-free duration
TDiff(a, b) == IF IsNat(a) \/ IsNat(b) THEN NAT
               ELSE NormDur(0, a[1] - b[1], a[2] - b[2], a[3] - b[3])

\* C17: inverse laws for month-free durations
AddSubInverse(t, a) == (a[1] = 0) => TSub(TAdd(t, a), a) = t
DiffAddsBack(a, b) == TAdd(b, TDiff(a, b)) = a

\* truncation to a month-free duration that divides the day, a whole number of days, or a
\* divisor of the second - the greatest multiple (counted from the epoch) not after t
\* (TruncSecs / TruncDays / TruncNs: TimeIdx.tla)
\* truncation to dm months, dm dividing 12: the first instant of the calendar period
TruncMonths(t, dm) ==
    LET c == CivilFromDays(t[1])
        m0 == ((c[2] - 1) \div dm) * dm + 1
    IN  <<DaysFromCivil(c[1], m0, 1), 0, 0>>

TruncIsGreatestMultiple(t, q) ==
    (q \in {1, 15, 60, 3600, 21600, 86400}) =>
        LET r == TruncSecs(t, q) IN
        /\ Before(r, t) /\ r[2] % q = 0 /\ r[3] = 0
        /\ (t[2] - r[2]) < q
MonthTruncIsPeriodStart(t, dm) ==
    LET r == TruncMonths(t, dm)  c == CivilFromDays(r[1])  ct == CivilFromDays(t[1]) IN
    /\ Before(r, t) /\ c[3] = 1 /\ r[2] = 0 /\ r[3] = 0
    /\ (c[2] - 1) % dm = 0 /\ c[1] = ct[1] /\ ct[2] - c[2] < dm /\ ct[2] >= c[2]

(* ---- time of day ---------------------------------------------------------------------------- *)

ToDFromHms(h, mi, s, sub) == <<h * 3600 + mi * 60 + s, sub>>
ToDFields(x) == <<x[1] \div 3600, (x[1] % 3600) \div 60, x[1] % 60, x[2]>>
HmsRoundTrip(h, mi, s, sub) == ToDFields(ToDFromHms(h, mi, s, sub)) = <<h, mi, s, sub>>
\* Timelike setters on a time of day: replace ONE field and keep the others; a value outside the
\* field's range has no result (<<>>).  (A nanosecond field of 10^9 .. 2*10^9-1 is the calendar library's
\* leap-second notation: not specified here.)
ToDWith(x, fld, val) ==
    LET f == ToDFields(x) IN
    CASE fld = "hour"   -> IF val < 24 THEN <<ToDFromHms(val, f[2], f[3], f[4])>> ELSE <<>>
      [] fld = "minute" -> IF val < 60 THEN <<ToDFromHms(f[1], val, f[3], f[4])>> ELSE <<>>
      [] fld = "second" -> IF val < 60 THEN <<ToDFromHms(f[1], f[2], val, f[4])>> ELSE <<>>
      [] fld = "nano"   -> IF val < 1000000000 THEN <<ToDFromHms(f[1], f[2], f[3], val)>> ELSE <<>>
FieldIx(fld) == CASE fld = "hour" -> 1 [] fld = "minute" -> 2 [] fld = "second" -> 3 [] fld = "nano" -> 4
WithVals(fld) == CASE fld = "hour" -> {0, 7, 23, 24, 25} [] fld = "minute" -> {0, 30, 59, 60} [] fld = "second" -> {0, 59, 60, 61}
                   [] fld = "nano" -> {0, 1, 999999999, 2000000000}
ToDWithLaws(x) ==
    \A fld \in {"hour", "minute", "second", "nano"} : \A val \in WithVals(fld) :
        LET r == ToDWith(x, fld, val) IN
        r # <<>> => /\ ToDFields(r[1])[FieldIx(fld)] = val                                     \* the field reads back
                    /\ \A k \in 1..4 : k # FieldIx(fld) => ToDFields(r[1])[k] = ToDFields(x)[k]   \* the others stay
                    /\ ToDWith(r[1], fld, val) = r                                            \* idempotent
                    /\ ToDWith(r[1], fld, ToDFields(x)[FieldIx(fld)]) = <<x>>                 \* and reversible
=============================================================================
