------------------------------ MODULE TraceRoll ------------------------------
(***************************************************************************)
(* Trace validation for RollKernels: the real one-series rolling functions  *)
(* are run on long random series; for every position the harness logs the   *)
(* input element and the outputs of all kernels at that position, each      *)
(* projected to the expectation vocabulary (a float output becomes the      *)
(* reduced fraction it equals within 1e-12; square-root statistics are      *)
(* squared first).  The trace is accepted only if it is a behaviour of the  *)
(* streaming machine: RollKernels!Step(v) is taken for every logged v - so  *)
(* NoDrift, MomentsAgree, CacheInWindow, OutDef and MaskLaw are evaluated   *)
(* at every step of every history - and the machine's own output at that    *)
(* step agrees with what the code produced.                                 *)
(*                                                                         *)
(*   begin  w mp                     next run                               *)
(*   step   v  o:[kernel |-> exp]    one position                           *)
(***************************************************************************)
EXTENDS RollKernels, Json, IOUtils

Rec == ndJsonDeserialize(IOEnv.TRACE)

VARIABLE l
tvars == <<vars, l>>

Ev == Rec[l]
IsEv(e) == l <= Len(Rec) /\ Ev.e = e /\ l' = l + 1

TInit ==
    /\ l = 1
    /\ w = 1 /\ mp = -1 /\ xs = <<>> /\ acc = Acc0
    /\ mn = <<NULL, NOIDX>> /\ mx = <<NULL, NOIDX>>
    /\ out = [k \in Kernels |-> <<>>] /\ dfn = [k \in Kernels |-> EAny]

TBegin ==
    /\ IsEv("begin")
    /\ w' = Ev.w /\ mp' = Ev.mp
    /\ xs' = <<>> /\ acc' = Acc0
    /\ mn' = <<NULL, NOIDX>> /\ mx' = <<NULL, NOIDX>>
    /\ out' = [k \in Kernels |-> <<>>] /\ dfn' = [k \in Kernels |-> EAny]

\* the omitted min_periods of the extrema family is only comparable once len >= w; the
\* harness does not log those kernels before that (DESIGN 5.3)
Logged == DOMAIN Ev.o

TStep ==
    /\ IsEv("step")
    /\ Step(Ev.v)
    /\ \A k \in Logged : SameExp(out'[k][Len(out'[k])], Ev.o[k])

TNext == TBegin \/ TStep
TraceSpec == TInit /\ [][TNext]_tvars

TraceAccepted ==
    LET d == TLCGet("stats").diameter IN
    IF d - 1 = Len(Rec) THEN TRUE
    ELSE Print(<<"TRACE-REJECTED", d, Rec[d]>>, FALSE)
=============================================================================
