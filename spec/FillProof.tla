------------------------------- MODULE FillProof -------------------------------
(***************************************************************************)
(* Forward fill for a series of ANY length: the stateful closure the code    *)
(* uses - carry the last valid element, hand it out where the element is     *)
(* null, the default before any valid element - computes the positional      *)
(* definition "the nearest earlier (or own) valid element, else the          *)
(* default".  MapOps.tla checks MachFFill = DefFFill with TLC for every       *)
(* series within a bound (FillRefines); here the length is arbitrary.        *)
(* Backward fill is the same statement on the reversed series.               *)
(*                                                                         *)
(* f is the output of the closure: f[0] is the carried state before the      *)
(* first element (the default), f[i] = s[i] if valid, else f[i-1].           *)
(* Proved with tlapm (SMT, induction on the position).                       *)
(***************************************************************************)
EXTENDS Integers, NaturalsInduction, TLAPS

CONSTANTS n, s, dflt, NULL, f
ASSUME NNat == n \in Nat
ASSUME FRec == /\ f[0] = dflt
               /\ \A i \in 1..n : f[i] = IF s[i] # NULL THEN s[i] ELSE f[i - 1]

\* the positional definition, stated without choosing a maximum: f[i] is the element at some valid position
\* j <= i after which everything up to i is null - or nothing up to i is valid and f[i] is the default
Nearest(i, x) ==
    \/ \E j \in 1..i : s[j] # NULL /\ (\A k \in (j + 1)..i : s[k] = NULL) /\ x = s[j]
    \/ (\A k \in 1..i : s[k] = NULL) /\ x = dflt

THEOREM FillRefinesAnyLength == \A i \in 0..n : Nearest(i, f[i])
<1> DEFINE P(i) == i \in 0..n => Nearest(i, f[i])
<1>1. P(0)
  BY FRec DEF Nearest
<1>2. \A i \in Nat : P(i) => P(i + 1)
  <2> TAKE i \in Nat
  <2> HAVE P(i)
  <2> HAVE i + 1 \in 0..n
  <2>0. i \in 0..n /\ i + 1 \in 1..n /\ Nearest(i, f[i])
    BY NNat
  <2>1. CASE s[i + 1] # NULL
    <3>1. f[i + 1] = s[i + 1]
      BY <2>0, <2>1, FRec
    <3>2. \A k \in ((i + 1) + 1)..(i + 1) : s[k] = NULL
      OBVIOUS
    <3> QED BY <2>0, <2>1, <3>1, <3>2 DEF Nearest
  <2>2. CASE s[i + 1] = NULL
    <3>1. f[i + 1] = f[i]
      BY <2>0, <2>2, FRec
    <3>2. CASE \E j \in 1..i : s[j] # NULL /\ (\A k \in (j + 1)..i : s[k] = NULL) /\ f[i] = s[j]
      <4>1. PICK j \in 1..i : s[j] # NULL /\ (\A k \in (j + 1)..i : s[k] = NULL) /\ f[i] = s[j]
        BY <3>2
      <4>2. j \in 1..(i + 1) /\ (\A k \in (j + 1)..(i + 1) : s[k] = NULL)
        BY <4>1, <2>2
      <4> QED BY <4>1, <4>2, <3>1 DEF Nearest
    <3>3. CASE (\A k \in 1..i : s[k] = NULL) /\ f[i] = dflt
      <4>1. \A k \in 1..(i + 1) : s[k] = NULL
        BY <3>3, <2>2
      <4> QED BY <4>1, <3>3, <3>1 DEF Nearest
    <3> QED BY <2>0, <3>2, <3>3 DEF Nearest
  <2> QED BY <2>1, <2>2
<1>3. \A i \in Nat : P(i)
  <2> HIDE DEF P
  <2> QED BY <1>1, <1>2, NatInduction, Isa
<1> QED BY <1>3, NNat

\* consequences: a valid element is handed out unchanged, and the output is null only where no valid element
\* has been seen and the default is null
THEOREM ValidUntouched == \A i \in 1..n : s[i] # NULL => f[i] = s[i]
  BY FRec
=============================================================================
