SPECIFICATION WSpec
CONSTANTS
  RMin <- NegFour
  RMax = 6
  MaxN = 6
INVARIANTS LawsOnce WriterRule EmitGen EmitWriter
PROPERTY WriterTerminates
CHECK_DEADLOCK FALSE
