SPECIFICATION Spec
CONSTANTS
  MaxLen = 3
  Pairs = TRUE
  ValSet <- SignedSet
  ValSet2 <- SignedSet
  Elem <- ElemDef
  Elem2 <- Elem2Def
  Units = {1, 2, 3}
INVARIANTS Homogeneous3P
CHECK_DEADLOCK FALSE
