------------------------------ MODULE MCMapOps ------------------------------
(* Enumeration of MapOps cases.  Every initial state is one case; the laws     *)
(* are evaluated on it and its positional expectations are emitted.           *)
EXTENDS MapOps, SequencesExt, Json

CONSTANTS ValSet, Kinds, CutLen
ElemDef == ValSet \cup {NULL}
\* a float alphabet with the two infinities
InfSet == {0, 1, PINFM, NINFM}

BIG  == 1000000                \* stands for i32::MAX / i32::MIN lags (any |n| >= len behaves alike)
TMIN == 0 - 1000000            \* the element type's minimum / maximum, mapped by the harness
TMAX == 1000000

VARIABLES kind, s, a, b, c, d
vars == <<kind, s, a, b, c, d>>

\* the last edge may be the element type's maximum itself (an edge equal to a value at the end of the range)
\* ... and the first edge the type's minimum (with open outer bounds the first interval is then empty above nothing)
Edges == {TMIN, 0, 1, 2, 3, 4, TMAX}
AscSeqs == {SetToSortSeq(es, LAMBDA x, y : x < y) : es \in SUBSET Edges}
CutVals == <<TMIN, 0 - 1, 0, 1, 2, 3, 4, 5, TMAX, NULL>>
CutSeqVals == {0, 1, 2, 3, 4, 5, NULL}
CutSeqLen == IF MaxLen >= 7 THEN 4 ELSE 3

Init ==
    /\ kind \in Kinds
    /\ \/ /\ kind = "lag"
          /\ s \in Seqs(ElemDef, MaxLen)
          /\ a \in (-(Len(s) + 3)..(Len(s) + 3)) \cup {0 - BIG, BIG}     \* n
          /\ b \in {NULL, 7}                                              \* fill
          /\ c = 0 /\ d = 0
       \/ /\ kind = "fill"
          /\ s \in Seqs(ElemDef, MaxLen)
          /\ a \in {NULL, 7}                                              \* default
          /\ b = 0 /\ c = 0 /\ d = 0
       \/ /\ kind = "clip"
          /\ s \in Seqs(ElemDef, MaxLen)
          /\ a \in ElemDef /\ b \in ElemDef                               \* lower, upper
          /\ c = 0 /\ d = 0
       \/ /\ kind = "uniq"
          /\ s \in {x \in Seqs(ElemDef, MaxLen + 1) : Grouped(x)}
          /\ a = 0 /\ b = 0 /\ c = 0 /\ d = 0
       \/ /\ kind = "cut"
          /\ s = CutVals
          /\ a \in AscSeqs                                                \* edges
          /\ b \in 0..CutLen                                              \* number of labels
          /\ c \in BOOLEAN /\ d \in BOOLEAN                               \* right, add_bounds
       \* binning is POSITIONAL: what a value gets does not depend on the values before it.  Every series
       \* of CutSeqLen values in every ORDER (a value beyond the edges followed by one inside, a later value
       \* in a lower bin than an earlier one, nulls in between), against every edge vector over 1..4 with at
       \* least two edges and the matching number of labels
       \/ /\ kind = "cutseq"
          /\ s \in [1..CutSeqLen -> CutSeqVals]
          /\ a \in {e \in AscSeqs : Len(e) >= 2 /\ \A k \in 1..Len(e) : e[k] \in 1..4}
          /\ c \in BOOLEAN /\ d \in BOOLEAN
          /\ b = IF d THEN Len(a) + 1 ELSE Len(a) - 1

Next == UNCHANGED vars
Spec == Init /\ [][Next]_vars

Laws ==
    /\ (kind = "lag" /\ a = 0 /\ b = NULL) => LenPreserved(s) /\ PrefixLaw(s)
    /\ kind = "lag" => LagHomogeneous(s, a, b)
    /\ (kind = "fill" /\ a = NULL) => FillLaws(s) /\ FillRefines(s) /\ FFillIsClosure(s) /\ DropNoneLaws(s)
    /\ (kind = "clip" /\ a = NULL /\ b = NULL) => ClipLaws(s)
    /\ kind = "uniq" => UniqRefines(s)
    /\ (kind = "cut" /\ b = 0 /\ c /\ d) => UniqueBin(a) /\ OpenBoundsTotal(a) /\ ErrorOnlyOutside(a)
    \* equal values get equal results wherever they stand in the series
    /\ kind = "cutseq" => /\ CutCallOK(a, b, d)
                          /\ \A i, j \in 1..Len(s) : s[i] = s[j] => CutOne(s[i], a, c, d) = CutOne(s[j], a, c, d)

EmitMap ==
    PrintT(<<"REPLAY", ToJson(
      CASE kind = "lag" ->
             [op |-> "lag", s |-> s, n |-> a, fill |-> b, deg |-> LagDeg,
              shift |-> DefShift(s, a, b), diff |-> DefDiff(s, a, b), pct |-> DefPct(s, a)]
        [] kind = "fill" ->
             [op |-> "fill", s |-> s, dflt |-> a,
              ffill |-> DefFFill(s, a, IsNull), bfill |-> DefBFill(s, a, IsNull),
              ffill0 |-> DefFFill(s, a, IsZero), bfill0 |-> DefBFill(s, a, IsZero),
              fill7 |-> DefFill(s, 7, IsNull), fill0 |-> DefFill(s, 7, IsZero), abs |-> DefAbs(s),
              dropped |-> DefDropNone(s)]
        [] kind = "clip" ->
             [op |-> "clip", s |-> s, lo |-> a, hi |-> b, clip |-> DefClip(s, a, b)]
        [] kind = "uniq" ->
             [op |-> "uniq", s |-> s, firsts |-> RunFirsts(s), lasts |-> RunLasts(s), vals |-> RunValues(s)]
        [] kind \in {"cut", "cutseq"} ->
             [op |-> "cut", s |-> s, bins |-> a, nlabels |-> b, right |-> c, bounds |-> d,
              call_ok |-> CutCallOK(a, b, d),
              exp |-> [i \in 1..Len(s) |-> CutOne(s[i], a, c, d)],
              \* the same request with a label series whose first / last label is itself null
              exp_null_first |-> [i \in 1..Len(s) |-> CutOneL(s[i], a, c, d, 0)],
              exp_null_last  |-> [i \in 1..Len(s) |-> CutOneL(s[i], a, c, d, b - 1)]])>>)
=============================================================================
