SPECIFICATION Spec
CONSTANTS
  MaxLen = 12
  MaxW = 8
  VR = 3
  ValSet <- Signed
  WithNull = TRUE
  Elem <- ElemDef
INVARIANTS NoDrift MomentsAgree OutDef LenOK MaskLaw CacheInWindow EmitFull
CHECK_DEADLOCK FALSE
