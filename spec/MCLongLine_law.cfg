SPECIFICATION LSpec
CONSTANTS
  MaxLen = 4
  MaxW = 6
  LineLens = {1}
  LineWs = {1}
  LawN = 9
  Elem = {0}
INVARIANTS LineLawOK
CHECK_DEADLOCK FALSE
