SPECIFICATION Spec
CONSTANTS
  Kinds = {"addsub", "diff", "months", "group", "trunc", "tod", "nat"}
INVARIANTS Laws EmitTime
CHECK_DEADLOCK FALSE
