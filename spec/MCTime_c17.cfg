SPECIFICATION Spec
CONSTANTS
  Kinds = {"addsub", "diff", "months", "group", "trunc", "tod"}
INVARIANTS Laws EmitTime
CHECK_DEADLOCK FALSE
