-------------------------------- MODULE Laws1 --------------------------------
(***************************************************************************)
(* Units of measurement.  The alphabets of the bounded configurations are    *)
(* small integers; the implementation runs on floats and machine integers    *)
(* of any magnitude.  The bridge is HOMOGENEITY: every rolling statistic is  *)
(* homogeneous of a known degree in the unit its series is measured in,      *)
(*        Def(k, u * win) = u^Deg(k) * Def(k, win)          for u > 0,       *)
(* so a conformance case over the integer alphabet is also a case over the   *)
(* same series measured in any unit u (1e-4, 123467.8, 4e8 for i32 ...),     *)
(* with the expectation multiplied by u^Deg(k).                              *)
(*                                                                         *)
(* TLC checks the law itself (Homogeneous) on every window of the bounded    *)
(* model for the integer units in Units, and emits the degree table once     *)
(* (EmitLaws); the harness applies the table it is handed, it has none of    *)
(* its own.  A wrong degree here is refuted by TLC, a wrong degree there     *)
(* cannot exist.                                                             *)
(***************************************************************************)
EXTENDS RollKernels, Json

CONSTANT Units                    \* integer units the law is checked for, e.g. {2, 3}

Deg(k) == CASE k \in {"sum", "mean", "ewm", "wma", "std", "min", "max", "reg", "tsf", "slope", "intercept"}
                      \cup FdKernels -> 1
            [] k \in {"var", "mse"} -> 2
            [] OTHER -> 0           \* skew, kurt, arg-extrema, ranks, z-score, min-max normalisation

\* The z-score decides "no spread" by an absolute threshold on a variance that is zero only in
\* exact arithmetic: measured in a large non-dyadic unit the computed variance of a plateau is a
\* rounding residue above any fixed threshold, so the kernel is replayed in SMALL units only
\* (|u| < 1, where the residue - of the order u^2 * 1e-16 - stays far below the threshold).
UnitSafe(k) == IF k = "zscore" THEN "small" ELSE "all"

InUnit(s, u) == [i \in 1..Len(s) |-> IF s[i] = NULL THEN NULL ELSE u * s[i]]

\* expectations reduced to <<0>>, <<4>>, <<1, n, d>> or <<2, s, n, d>>
NormE(e) == CASE e[1] = 7 -> LET q == ProdFrom(e, 3) IN ESq(IF QZero(q) THEN 0 ELSE e[2], q)
              [] e[1] = 8 -> EQ(AffValue(e))
              [] e[1] = 3 -> EQ(<<e[2], 1>>)
              [] e[1] = 6 -> EQ(<<e[2], e[3]>>)
              [] OTHER    -> e
TimesE(e, c) == LET n == NormE(e) IN
                CASE n[1] = 1 -> EQ(QMul(<<n[2], n[3]>>, <<c, 1>>))
                  [] n[1] = 2 -> ESq(n[2], QMul(<<n[3], n[4]>>, <<c * c, 1>>))
                  [] OTHER    -> n

CurWin == IF xs = <<>> THEN <<>> ELSE Win(xs, Len(xs) - 1, w)

Homogeneous ==
    xs # <<>> =>
    \A k \in Kernels, u \in Units :
        SameExp(NormE(Def(k, InUnit(CurWin, u))), TimesE(Def(k, CurWin), IPow(u, Deg(k))))

\* the null pattern does not depend on the unit at all
MaskUnitFree ==
    xs # <<>> =>
    \A k \in Kernels, u \in Units :
        (Def(k, InUnit(CurWin, u)) = ENull) <=> (Def(k, CurWin) = ENull)

\* ---- translation of the origin --------------------------------------------------------------
\* Besides the unit, the ORIGIN of the scale is arbitrary for statistics defined by order and
\* differences: adding b to every element adds b to the extrema and changes neither their
\* positions, nor the ranks, nor the min-max normalisation.  (The moment statistics are
\* translation-invariant in exact arithmetic too - TransLaw below checks all of them - but kernels
\* that accumulate f64 power sums cannot honour it for an origin near 2^60; only the kernels C03
\* calls EXACT are replayed at a far origin: TransReplay.)
Trans(k) == CASE k \in {"min", "max", "mean", "wma", "ewm", "reg", "tsf", "intercept"} -> "plus"
              [] k \in {"argmin", "argmax", "rank", "rank_rev", "rank_pct", "rank_rev_pct", "minmaxnorm", "zscore",
                        "var", "std", "skew", "kurt", "slope", "mse"} -> "same"
              [] OTHER -> "no"                       \* sum (n*b), fractional differences
TransReplay(k) == k \in {"min", "max", "argmin", "argmax", "rank", "rank_rev", "rank_pct", "rank_rev_pct", "minmaxnorm"}
Shifted(s, b) == [i \in 1..Len(s) |-> IF s[i] = NULL THEN NULL ELSE s[i] + b]
PlusE(e, b) == LET n == NormE(e) IN
               CASE n[1] = 1 -> EQ(QAdd(<<n[2], n[3]>>, <<b, 1>>))
                 [] OTHER    -> n
TransLaw ==
    xs # <<>> =>
    \A k \in Kernels, b \in {0 - 3, 5} :
        \/ Trans(k) = "no"
        \/ Trans(k) = "same" /\ SameExp(NormE(Def(k, Shifted(CurWin, b))), NormE(Def(k, CurWin)))
        \/ Trans(k) = "plus" /\ SameExp(NormE(Def(k, Shifted(CurWin, b))), PlusE(Def(k, CurWin), b))

EmitLaws ==
    (xs = <<>> /\ w = 1 /\ mp = 0) =>
        PrintT(<<"REPLAY", ToJson([op |-> "laws1",
                                   deg |-> [k \in Kernels |-> Deg(k)],
                                   safe |-> [k \in Kernels |-> UnitSafe(k)],
                                   trans |-> [k \in Kernels |-> IF TransReplay(k) THEN Trans(k) ELSE "no"]])>>)
=============================================================================
