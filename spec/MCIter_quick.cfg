SPECIFICATION Spec
CONSTANTS
  MaxSrc = 4
  MaxLen = 4
  ValSet = {0, 1}
  Elem <- ElemDef
INVARIANTS ConstructionOnce HintExact LenPreservedInv PartitionLen CollectSafe EmitIter
PROPERTY Terminates
CHECK_DEADLOCK FALSE
