SPECIFICATION TraceSpec
CONSTANTS
  MaxLen = 100000
  MaxWExtra = 3
INVARIANTS ReadsInBounds WriteOnce TOncePerPosition TRightWindow
POSTCONDITION TraceAccepted
CHECK_DEADLOCK FALSE
