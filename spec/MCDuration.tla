------------------------------ MODULE MCDuration ------------------------------
EXTENDS DurationParse, Json
FullAlphabet == {"1", "2", "+", "-", "n", "s", "u", "m", "h", "d", "w", "o", "y", "x", ".", " ", "E", "B", "M"}
\* grammar-directed alphabet: longer strings that are mostly well formed
TermAlphabet == {"1", "2", "-", "s", "m", "h", "d", "o", "y", "n"}
\* sub-second terms that reach whole seconds
SubsecAlphabet == {"T", "K", "Z", "2", "-", "m", "s", "u", "n"}
EmitDur ==
    st \in {"ok", "err", "beyond"} =>
      PrintT(<<"REPLAY", ToJson([op |-> "dur", s |-> s, outcome |-> st, wf |-> WellFormed(s),
                                 meaning |-> IF WellFormed(s) THEN Meaning(s) ELSE <<0, 0, 0>>])>>)
\* the grammar-directed run emits the well-formed strings only
EmitWF ==
    (st \in {"ok", "err", "beyond"} /\ WellFormed(s)) =>
      PrintT(<<"REPLAY", ToJson([op |-> "dur", s |-> s, outcome |-> st, wf |-> TRUE, meaning |-> Meaning(s)])>>)
=============================================================================
