------------------------------ MODULE TraceIter ------------------------------
(***************************************************************************)
(* Trace validation of the trusted-length contract on real iterators:        *)
(* random pipelines of the library's adaptors (depth 1..6) are consumed      *)
(* under random schedules and every call is logged.                          *)
(*   new   hint            a fresh iterator announcing `hint` items          *)
(*   next  end got hint    one call of next (end = "F") / next_back ("B"):   *)
(*                         got = 1 if an item came out; hint = upper bound   *)
(*                         announced AFTER the call                          *)
(* The number of items the iterator will really yield is not logged: TLC     *)
(* infers it - the trace is a behaviour of the consumption machine only if   *)
(* the iterator yields exactly what it announced at every point.             *)
(***************************************************************************)
EXTENDS Integers, Sequences, TLC, Json, IOUtils

Rec == ndJsonDeserialize(IOEnv.TRACE)
VARIABLES l, decl, taken, live
vars == <<l, decl, taken, live>>
Ev == Rec[l]

TInit == l = 1 /\ decl = 0 /\ taken = 0 /\ live = FALSE

TNew ==
    /\ l <= Len(Rec) /\ Ev.e = "new"
    /\ decl' = Ev.hint /\ taken' = 0 /\ live' = TRUE /\ l' = l + 1

\* HintExact as the step relation: an item comes out iff something remains, and the hint
\* after the call is what remains
TNext ==
    /\ l <= Len(Rec) /\ Ev.e = "next" /\ live
    /\ LET remaining == decl - taken IN
       /\ Ev.got = (IF remaining > 0 THEN 1 ELSE 0)
       /\ taken' = taken + Ev.got
       /\ Ev.hint = decl - taken'
    /\ UNCHANGED <<decl, live>> /\ l' = l + 1

\* the trusted collector's view: collected length must be the announced one
TCollect ==
    /\ l <= Len(Rec) /\ Ev.e = "collect" /\ live
    /\ Ev.len = decl - taken
    /\ live' = FALSE /\ UNCHANGED <<decl, taken>> /\ l' = l + 1

TraceNext == TNew \/ TNext \/ TCollect
TraceSpec == TInit /\ [][TraceNext]_vars

HintNonNegative == decl - taken >= 0

TraceAccepted ==
    LET d == TLCGet("stats").diameter IN
    IF d - 1 = Len(Rec) THEN TRUE
    ELSE Print(<<"TRACE-REJECTED", d, Rec[d]>>, FALSE)
=============================================================================
