SPECIFICATION LSpec
CONSTANTS
  MaxLen = 4
  MaxW = 6
  LineLens = {260}
  LineWs = {215, 250, 260}
  LawN = 3
  Elem = {0}
INVARIANTS EmitLine
CHECK_DEADLOCK FALSE
