SPECIFICATION Spec
CONSTANTS
  MaxLen = 4
  MaxW = 6
  ValA = {0, 1}
  ValB = {0, 1}
  WithNull = TRUE
  ElemA <- ElemADef
  ElemB <- ElemBDef
INVARIANTS NoDrift2 OutDef2 LenOK2 MaskLaw2 EmitRoll2
CHECK_DEADLOCK FALSE
