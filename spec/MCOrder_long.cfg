SPECIFICATION LongSpec
CONSTANTS
  MaxLen = 5
  ValSet <- SignedSet
  Elem <- ElemDef
  LongLens = {17, 18, 19, 21, 24, 29, 33, 40, 47}
  PerLen = 12
INVARIANTS MirrorOK EmitOrder
CHECK_DEADLOCK FALSE
