SPECIFICATION Spec
CONSTANTS
  MaxLen = 4
  Alphabet <- FullAlphabet
INVARIANTS StartLeI Sound EmitDur
PROPERTY Total
CHECK_DEADLOCK FALSE
