---------------------------- MODULE RollKernels ----------------------------
(***************************************************************************)
(* The one-series rolling kernels of tea-rolling (features.rs, cmp.rs,      *)
(* norm.rs, reg.rs trend family) and tevec/rolling.rs (fdiff) as a          *)
(* STREAMING machine on top of the driver protocol of Window.tla:           *)
(*                                                                         *)
(*     Step(v):   Add v to the state;  Emit the outputs;  Remove the        *)
(*                element that leaves the window (once i >= w-1).           *)
(*                                                                         *)
(* The next element is chosen nondeterministically at every step, so every  *)
(* state is a prefix of every longer history: outputs are appended, never   *)
(* revised (AppendOnly), which is causality by construction.                *)
(*                                                                         *)
(* The operational state is the code's own:                                 *)
(*    acc   n, s1..s4 (power sums), sxt (rank-weighted sum), qx (the         *)
(*          shifted-subtraction numerator of the exponential average)       *)
(*    mn    the cached minimum and its absolute index (ts_vmin/ts_vargmin)  *)
(*    mx    the cached maximum and its index                                *)
(* and the definitional counterparts are the operators of Stats.tla over    *)
(* the window Win(xs, i, w).  The invariants say that the two never part:   *)
(*    NoDrift        accumulators = from-scratch sums of the post-removal    *)
(*                   window, after every step, for every history            *)
(*    OutDef         every emitted output = definition on the window        *)
(*    CacheInWindow  a cached extreme is inside the window and is the       *)
(*                   element it claims to be                                *)
(*    MaskLaw        null exactly when the valid count is below the         *)
(*                   effective min_periods or the statistic's own minimum   *)
(***************************************************************************)
EXTENDS Stats, TLC

CONSTANTS MaxLen, MaxW
\* the element alphabet is an operator of the model module (cfg files cannot hold
\* negative literals)
CONSTANT Elem

VARIABLES w,      \* window, >= 1
          mp,     \* requested min_periods; -1 = omitted
          xs,     \* history so far
          acc,    \* running accumulators (post-removal)
          mn, mx, \* extrema caches: <<value or NULL, index or -1>>
          out,    \* out[k] = sequence of expectations emitted by kernel k
          dfn     \* dfn[k] = the (unmasked) definition of kernel k on the current window:
                  \* a function of (xs, w) only, carried so that it is evaluated once per step

vars == <<w, mp, xs, acc, mn, mx, out, dfn>>

NOIDX == -1000        \* "no index" (Option::None); distinct from every real or shifted index

(* ---- min_periods ------------------------------------------------------- *)

MpReq == IF mp = -1 THEN w \div 2 ELSE mp
\* features / norm / reg / binary families:  min(mp, w), raised to the statistic's minimum
EffMpFeat(intrinsic) == Max2(intrinsic, Min2(MpReq, w))
\* extrema / rank family (cmp.rs): no clamping of an explicit value; an omitted value is
\* floor(min(len,w)/2), which equals floor(w/2) only for len >= w (DESIGN 5.3) - the
\* emitter marks those expectations as valid for len >= w only
EffMpCmp == MpReq

(* ---- kernels ----------------------------------------------------------- *)

FeatKernels == {"sum", "mean", "ewm", "wma", "var", "std", "skew", "kurt"}
CmpKernels  == {"min", "max", "argmin", "argmax", "rank", "rank_rev", "rank_pct", "rank_rev_pct"}
NormKernels == {"zscore", "minmaxnorm"}
RegKernels  == {"reg", "tsf", "slope", "intercept", "mse"}
FdKernels   == {"fd_1_2", "fd_1_1", "fd_3_2", "fd_2_1"}       \* fractional orders 1/2, 1, 3/2, 2
Kernels == FeatKernels \cup CmpKernels \cup NormKernels \cup RegKernels \cup FdKernels

Intrinsic(k) == CASE k \in {"var", "std"} -> 2 [] k = "skew" -> 3 [] k = "kurt" -> 4 [] OTHER -> 0

EffMp(k) == IF k \in CmpKernels THEN EffMpCmp ELSE EffMpFeat(Intrinsic(k))

\* Exact rational models of the exponential average, the higher moments, the trend residual and
\* the fractional weights need powers that outgrow TLC's integers on long windows: they are
\* specified for windows holding at most 8 valid elements and left open beyond (the long-window
\* trace runs bind the other kernels there).
Big(v) == Len(v) > 8
WideW == w > 8

\* the definition of kernel k on the window win (nulls included)
Def(k, win) ==
    LET v == Sel(win) IN
    CASE k = "sum"  -> DefSum(v)
      [] k = "mean" -> DefMean(v)
      [] k = "ewm"  -> IF Big(v) \/ WideW THEN EAny ELSE DefEwm(v, w)
      [] k = "wma"  -> DefWma(v)
      [] k = "var"  -> DefVar(v)
      [] k = "std"  -> DefStd(v)
      [] k = "skew" -> IF Big(v) THEN EAny ELSE DefSkew(v)
      [] k = "kurt" -> IF Big(v) THEN EAny ELSE DefKurt(v)
      [] k = "min"  -> DefMin(v)
      [] k = "max"  -> DefMax(v)
      [] k = "argmin" -> DefArgMin(win)
      [] k = "argmax" -> DefArgMax(win)
      [] k = "rank"         -> DefRank(win, FALSE, FALSE)
      [] k = "rank_rev"     -> DefRank(win, TRUE, FALSE)
      [] k = "rank_pct"     -> DefRank(win, FALSE, TRUE)
      [] k = "rank_rev_pct" -> DefRank(win, TRUE, TRUE)
      [] k = "zscore"     -> DefZscore(win)
      [] k = "minmaxnorm" -> DefMinMaxNorm(win)
      [] k = "reg"       -> DefReg(v)
      [] k = "tsf"       -> DefTsf(v)
      [] k = "slope"     -> DefSlope(v)
      [] k = "intercept" -> DefIntercept(v)
      [] k = "mse"       -> IF Big(v) THEN EAny ELSE DefTrendMse(v)
      [] k = "fd_1_2" -> IF Big(v) THEN EAny ELSE DefFdiff(v, 1, 2)
      [] k = "fd_1_1" -> IF Big(v) THEN EAny ELSE DefFdiff(v, 1, 1)
      [] k = "fd_3_2" -> IF Big(v) THEN EAny ELSE DefFdiff(v, 3, 2)
      [] k = "fd_2_1" -> IF Big(v) THEN EAny ELSE DefFdiff(v, 2, 1)

\* the masked definition: what the property requires at a position whose window is win
DefMasked(k, win) == IF Count(win) < EffMp(k) THEN ENull ELSE Def(k, win)

(* ---- the operational kernels ------------------------------------------- *)

Acc0 == [n |-> 0, s1 |-> 0, s2 |-> 0, s3 |-> 0, s4 |-> 0, sxt |-> 0, qx |-> <<0, 1>>]

Alpha == QN(2, w)
Oma   == QSub(<<1, 1>>, Alpha)

AddAcc(a, v) ==
    IF v = NULL THEN a
    ELSE [n |-> a.n + 1, s1 |-> a.s1 + v, s2 |-> a.s2 + v * v, s3 |-> a.s3 + v * v * v,
          s4 |-> a.s4 + v * v * v * v,
          sxt |-> a.sxt + (a.n + 1) * v,
          qx |-> IF WideW THEN <<0, 1>> ELSE QAdd(QInt(v), QMul(Oma, a.qx))]          \* q += v - alpha*q

RemAcc(a, rm) ==
    IF rm = NULL THEN a
    ELSE [n |-> a.n - 1, s1 |-> a.s1 - rm, s2 |-> a.s2 - rm * rm, s3 |-> a.s3 - rm * rm * rm,
          s4 |-> a.s4 - rm * rm * rm * rm,
          sxt |-> a.sxt - a.s1,                            \* every rank drops by one
          qx |-> IF WideW THEN <<0, 1>> ELSE QSub(a.qx, QMul(QInt(rm), QPow(Oma, a.n - 1)))]

\* n^(j+1) * (j-th central moment), expanded from the raw power sums as the code does
C2(a) == a.n * (a.n * a.s2 - a.s1 * a.s1)
C3(a) == a.n * (a.n * a.n * a.s3 - 3 * a.n * a.s1 * a.s2 + 2 * a.s1 * a.s1 * a.s1)
C4(a) == a.n * (a.n * a.n * a.n * a.s4 - 4 * a.n * a.n * a.s1 * a.s3 + 6 * a.n * a.s1 * a.s1 * a.s2
                - 3 * a.s1 * a.s1 * a.s1 * a.s1)

\* outputs computed the way the code computes them, from the raw power sums
OpFeat(k, a) ==
    LET n == a.n
        ex  == QN(a.s1, n)  ex2 == QN(a.s2, n)
        pv  == QSub(ex2, QMul(ex, ex))                       \* population variance
    IN
    CASE k = "sum"  -> EQ(QInt(a.s1))
      [] k = "mean" -> IF n = 0 THEN EAny ELSE EQ(ex)
      [] k = "wma"  -> IF n = 0 THEN EAny ELSE EQ(QN(a.sxt, (n * (n + 1)) \div 2))
      [] k = "ewm"  -> LET den == QSub(<<1, 1>>, QPow(Oma, n))
                       IN  IF WideW THEN EAny ELSE IF n = 0 \/ QZero(den) THEN EAny
                           ELSE EQ(QDiv(QMul(a.qx, Alpha), den))
      [] k = "var"  -> EQ(QMul(pv, QN(n, n - 1)))
      [] k = "std"  -> ESq(1, QMul(pv, QN(n, n - 1)))
      \* the code expands the central moments from the raw power sums; CentralFromRaw states
      \* those expansions and MomentsAgree checks them against the explicit deviations
      [] k = "skew" -> IF n > 8 THEN EAny ELSE SkewExp(n, C2(a), C3(a))
      [] k = "kurt" -> IF n > 8 THEN EAny ELSE KurtExp(n, C2(a), C4(a))

\* ---- extrema cache (ts_vmin / ts_vargmin; ts_vmax / ts_vargmax mirrored) ---------

\* null-last comparison "a sorts at or before b" for the minimum (rev = FALSE) / maximum
LeqNullLast(a, b, rev) ==
    IF a = NULL THEN b = NULL
    ELSE IF b = NULL THEN TRUE
    ELSE IF rev THEN a >= b ELSE a <= b

RECURSIVE Rescan(_, _, _, _, _)
\* scan positions j..hi (0-based) of series s, keeping the LAST position that sorts first
Rescan(s, j, hi, c, rev) ==
    IF j > hi THEN c
    ELSE Rescan(s, j + 1, hi, IF LeqNullLast(P0(s, j), c[1], rev) THEN <<P0(s, j), j>> ELSE c, rev)

\* one step of the cache: s = history including the new element at 0-based i
StepCache(c, s, i, rev) ==
    LET v     == P0(s, i)
        start == IF i >= w - 1 THEN i - w + 1 ELSE NOIDX         \* None before the window is full
        c1    == IF v # NULL /\ c[2] = NOIDX THEN <<v, i>> ELSE c
        expired == start # NOIDX /\ c1[2] < start                 \* Option order: None < Some(_)
    IN  IF expired THEN Rescan(s, start, i, <<P0(s, start), c1[2]>>, rev)
        ELSE IF LeqNullLast(v, c1[1], rev) THEN <<v, i>> ELSE c1

OpExtreme(c, arg, s, i) ==
    IF arg THEN (IF c[2] = NOIDX THEN ENull ELSE EInt(c[2] - Max2(0, i - w + 1) + 1))
    ELSE EOpt(c[1])

(* ---- the machine ------------------------------------------------------- *)

Init ==
    /\ w \in 1..MaxW
    /\ mp \in {-1} \cup 0..w
    /\ xs = <<>>
    /\ acc = Acc0
    /\ mn = <<NULL, NOIDX>> /\ mx = <<NULL, NOIDX>>
    /\ out = [k \in Kernels |-> <<>>]
    /\ dfn = [k \in Kernels |-> EAny]

Emit(k, a, cmn, cmx, s, i, d) ==
    LET cnt == a.n
    IN  IF cnt < EffMp(k) THEN ENull
        ELSE CASE k \in FeatKernels -> OpFeat(k, a)
               [] k = "min"    -> OpExtreme(cmn, FALSE, s, i)
               [] k = "argmin" -> OpExtreme(cmn, TRUE, s, i)
               [] k = "max"    -> OpExtreme(cmx, FALSE, s, i)
               [] k = "argmax" -> OpExtreme(cmx, TRUE, s, i)
               [] OTHER        -> d[k]             \* kernels recomputed per window by the code

Step(v) ==
    /\ Len(xs) < MaxLen
    /\ LET i   == Len(xs)
           s   == Append(xs, v)
           a1  == AddAcc(acc, v)
           cmn == StepCache(mn, s, i, FALSE)
           cmx == StepCache(mx, s, i, TRUE)
           rm  == IF i >= w - 1 THEN P0(s, i - w + 1) ELSE NULL
           d   == [k \in Kernels |-> Def(k, Win(s, i, w))]
       IN  /\ xs' = s
           /\ dfn' = d
           /\ out' = [k \in Kernels |-> Append(out[k], Emit(k, a1, cmn, cmx, s, i, d))]
           /\ acc' = IF i >= w - 1 THEN RemAcc(a1, rm) ELSE a1
           /\ mn' = cmn /\ mx' = cmx
    /\ UNCHANGED <<w, mp>>

Next == \E v \in Elem : Step(v)

Spec == Init /\ [][Next]_vars

(* ---- properties -------------------------------------------------------- *)

\* the window that remains after the removal step at the last position
PostWin == IF xs = <<>> THEN <<>> ELSE Win(xs, Len(xs) - 1, w - 1)

\* C01: the incrementally maintained state never drifts from the window it describes
NoDrift ==
    LET v == Sel(PostWin) IN
    /\ acc.n = Len(v)
    /\ acc.s1 = SumPow(v, 1) /\ acc.s2 = SumPow(v, 2) /\ acc.s3 = SumPow(v, 3) /\ acc.s4 = SumPow(v, 4)
    /\ acc.sxt = SumT(v)
    /\ WideW \/ QEq(acc.qx, QSumSeq([k \in 1..Len(v) |-> QMul(QInt(v[k]), QPow(Oma, Len(v) - k))]))

\* C01: the expansions of the central moments from raw power sums that the skewness and
\* kurtosis kernels rely on agree with the explicit deviations, on the PRE-removal window
\* (checked on the post-removal window, which is the pre-removal window of a shorter one)
MomentsAgree ==
    LET v == Sel(PostWin) IN
    /\ C2(acc) = D(v, 2) /\ (Big(v) \/ (C3(acc) = D(v, 3) /\ C4(acc) = D(v, 4)))

\* two expectations agree (undefined statistics may be reported either way)
SameExp(a, b) ==
    \/ a = b \/ a = EAny \/ b = EAny
    \/ a[1] \in {1, 6} /\ b[1] \in {1, 6} /\ QEq(<<a[2], a[3]>>, <<b[2], b[3]>>)
    \/ a[1] = 2 /\ b[1] = 2 /\ QEq(<<a[3], a[4]>>, <<b[3], b[4]>>) /\ (a[2] = b[2] \/ a[3] = 0)
    \/ a[1] = 3 /\ b[1] = 1 /\ QEq(<<a[2], 1>>, <<b[2], b[3]>>)
    \/ a[1] = 1 /\ b[1] = 3 /\ QEq(<<b[2], 1>>, <<a[2], a[3]>>)

\* C01 / C03 / C04: every output equals the definition evaluated from scratch on its window
OutDef ==
    xs # <<>> =>
      LET i == Len(xs) - 1
          cnt == Count(Win(xs, i, w))
      IN
      \A k \in Kernels : SameExp(out[k][i + 1], IF cnt < EffMp(k) THEN ENull ELSE dfn[k])

\* C05: one output per input, null exactly when the count is below the effective minimum
LenOK == \A k \in Kernels : Len(out[k]) = Len(xs)
MaskLaw ==
    xs # <<>> =>
      LET i == Len(xs) - 1
          cnt == Count(Win(xs, i, w))
      IN  \A k \in Kernels :
            /\ cnt < EffMp(k) => out[k][i + 1] = ENull
            /\ (cnt >= EffMp(k) /\ dfn[k] \notin {ENull, EAny}) => out[k][i + 1] # ENull

\* C03: the cached extreme is an element of the current window and is what it claims to be
CacheOK(c, rev) ==
    xs # <<>> =>
      LET i == Len(xs) - 1
          lo == Max2(0, i - w + 1)
      IN  /\ c[2] # NOIDX => (c[2] >= lo /\ c[2] <= i /\ P0(xs, c[2]) = c[1])
          /\ Count(Win(xs, i, w)) > 0 =>
                /\ c[1] = (IF rev THEN SeqMax(Sel(Win(xs, i, w))) ELSE SeqMin(Sel(Win(xs, i, w))))
CacheInWindow == CacheOK(mn, FALSE) /\ CacheOK(mx, TRUE)

\* C06: emitted outputs are never revised
AppendOnly == [][\A k \in Kernels : \A j \in 1..Len(out[k]) : out'[k][j] = out[k][j]]_vars

=============================================================================
