----------------------------- MODULE MCContainers -----------------------------
EXTENDS Containers, Json
EmitCont ==
    PrintT(<<"REPLAY", ToJson([op |-> "cont", rep |-> c.rep,
              par |-> CASE c.rep = "ring" -> <<c.cap, c.head, c.len>>
                        [] c.rep = "strided" -> <<Len(c.base), c.off, c.step, c.len>>
                        [] c.rep = "chunked" -> <<c.cuts[1], c.cuts[2], c.n>>
                        [] OTHER -> <<Len(c.buf)>>,
              logical |-> Logical(c),
              sorted_desc |-> SortSeq(Logical(c), Desc),
              contiguous |-> ContiguousInOrder(c)])>>)
=============================================================================
