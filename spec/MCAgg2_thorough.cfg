SPECIFICATION Spec
CONSTANTS
  MaxLen = 4
  Pairs = TRUE
  ValSet = {0, 1, 3}
  ValSet2 = {0, 1}
  Elem <- ElemDef
  Elem2 <- Elem2Def
INVARIANTS FoldRefines Emit2
CHECK_DEADLOCK FALSE
