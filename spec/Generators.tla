------------------------------ MODULE Generators ------------------------------
(***************************************************************************)
(* Generators and collectors of tea-core: Vec1Create::range / linspace,      *)
(* Vec1::full / empty, the collect_* family, and the writer that fills a     *)
(* caller-supplied uninitialised buffer from a trusted iterator              *)
(* (UninitRefMut::write_trust_iter).                                         *)
(*                                                                         *)
(*  range(a, b, step)   the arithmetic progression a, a+step, ... strictly   *)
(*                      before b in the direction of the step                *)
(*  linspace(a, b, n)   n points from a with constant step (b-a)/(n-1)       *)
(*  collectors          order and content preserved; fallible collection     *)
(*                      returns the FIRST error                              *)
(*  writer              a machine: decide (element-wise | broadcast | error  *)
(*                      | nothing), then write slots one by one; every slot  *)
(*                      is written exactly once or none at all               *)
(***************************************************************************)
EXTENDS Values, TLC, RangeIdx

CONSTANTS RMin, RMax,      \* range / linspace endpoints RMin..RMax
          MaxN             \* lengths 0..MaxN

(* ---- range ------------------------------------------------------------------ *)

\* Before(x, b, step) - members of the progression strictly before b in the direction of the step -, CeilDiv
\* and RangeCount are RangeIdx.tla's: RangeProof.tla proves the count law for every integer a, b and step
RECURSIVE RangeFrom(_, _, _)
RangeFrom(x, b, step) == IF Before(x, b, step) THEN <<x>> \o RangeFrom(x + step, b, step) ELSE <<>>
DefRange(a, b, step) == RangeFrom(a, b, step)

\* the count law: ceil((b-a)/step) clamped at 0, by exact integer arithmetic (RangeIdx!RangeCount)

RangeExact ==
    \A a \in RMin..RMax, b \in RMin..RMax, step \in {-3, -2, -1, 1, 2, 3} :
        LET r == DefRange(a, b, step) IN
        /\ Len(r) = RangeCount(a, b, step)
        /\ \A k \in 1..Len(r) : r[k] = a + (k - 1) * step /\ Before(r[k], b, step)      \* none beyond
        /\ ~Before(a + Len(r) * step, b, step)                                          \* none missing

(* ---- linspace ---------------------------------------------------------------- *)

\* exact rational points
DefLinspace(a, b, n) ==
    [i \in 1..n |-> IF n = 1 THEN <<a, 1>> ELSE QAdd(QInt(a), QN((i - 1) * (b - a), n - 1))]
LinspaceEnds ==
    \A a \in RMin..RMax, b \in RMin..RMax, n \in 0..MaxN :
        LET p == DefLinspace(a, b, n) IN
        /\ Len(p) = n
        /\ n >= 1 => QEq(p[1], QInt(a))
        /\ n >= 2 => QEq(p[n], QInt(b))

(* ---- fallible collection -------------------------------------------------------- *)

\* items: a sequence over Nat \cup {-1}; -1 marks an error element
FirstError(items) ==
    IF \E i \in 1..Len(items) : items[i] = -1
    THEN CHOOSE i \in 1..Len(items) : items[i] = -1 /\ \A j \in 1..(i - 1) : items[j] # -1
    ELSE 0

\* The collectors are parametric in the element type - element types of size ZERO included (the `()` results
\* of a validation pass collected with a trusted collector): the length is then all there is to preserve.
ZeroSized(n) == [i \in 1..n |-> <<>>]
ZeroSizedOK == \A n \in 0..MaxN : Len(ZeroSized(n)) = n

(* ---- trusted collection ----------------------------------------------------------- *)

\* What a trusted source announces for n remaining items.  The crate's TrustedLen contract
\* (trusted.rs) fixes the UPPER bound only; adaptors such as std::iter::Scan, which the crate
\* marks trusted, announce a lower bound of 0.  A collector must size its allocation from the
\* bound the contract fixes.
\* "trust_of_filter": the crate's own wrapper (to_trust) around a filter that keeps every item - the
\* filter announces (0, n), the wrapper must announce (n, n): it is an ExactSizeIterator, and
\* "trust_enum_rev" stacks enumerate().rev() on it, which reads len() (lower = upper demanded).
Sources == {"exact", "scan", "scan_of_map", "rev_scan_free", "trust_of_filter", "trust_enum_rev"}
Hint(sk, n) == IF sk \in {"scan", "scan_of_map"} THEN <<0, n>> ELSE <<n, n>>
CollectorAlloc(sk, n) == Hint(sk, n)[2]
CollectAllocOK == \A sk \in Sources, n \in 0..MaxN : CollectorAlloc(sk, n) = n

(* ---- the writer machine ----------------------------------------------------------- *)

VARIABLES bl,        \* buffer length
          il,        \* iterator length
          mode,      \* "decide" | "elementwise" | "broadcast" | "error" | "nothing" | "done"
          written,   \* slots written
          src        \* src[i] = which iterator item slot i received
wvars == <<bl, il, mode, written, src>>

WInit == bl \in 0..MaxN /\ il \in 0..MaxN /\ mode = "decide" /\ written = {} /\ src = <<>>

Decide ==
    /\ mode = "decide"
    /\ mode' = IF bl = 0 THEN "nothing"
               ELSE IF bl = il THEN "elementwise"
               ELSE IF il = 1 THEN "broadcast"
               ELSE "error"
    /\ UNCHANGED <<bl, il, written, src>>

WriteNext ==
    /\ mode \in {"elementwise", "broadcast"}
    /\ Cardinality(written) < bl
    /\ LET i == Cardinality(written) IN        \* slots are filled in order
       /\ written' = written \cup {i}
       /\ src' = Append(src, IF mode = "broadcast" THEN 0 ELSE i)
    /\ UNCHANGED <<bl, il, mode>>

Finish ==
    /\ \/ mode \in {"elementwise", "broadcast"} /\ Cardinality(written) = bl
       \/ mode \in {"nothing", "error"}
    /\ mode' = "done"
    /\ UNCHANGED <<bl, il, written, src>>

WNext == Decide \/ WriteNext \/ Finish
WSpec == WInit /\ [][WNext]_wvars /\ WF_wvars(WNext)

\* C19: either every slot is written exactly once, or none (length mismatch / empty buffer)
WriterRule ==
    mode = "done" =>
        \/ written = 0..(bl - 1) /\ Len(src) = bl
        \/ written = {} /\ (bl = 0 \/ (bl # il /\ il # 1))
WriterTerminates == <>(mode = "done")
=============================================================================
