----------------------------- MODULE RangeProof -----------------------------
(***************************************************************************)
(* The count law of range(a, b, step) for EVERY integer start and end and    *)
(* EVERY non-zero step: with n = RangeCount(a, b, step) = max(0, ceil((b-a)  *)
(* / step)) the n members a + k*step (k < n) all lie strictly before b in    *)
(* the direction of the step - none beyond - and a + n*step does not - none  *)
(* missing.  (Generators.tla checks the same operators with TLC against the  *)
(* progression built element by element, within a bound.)                    *)
(* Proved with tlapm (SMT).                                                  *)
(***************************************************************************)
EXTENDS RangeIdx, TLAPS

LEMMA DivBounds == \A p \in Int, q \in Nat \ {0} : (p \div q) \in Int /\ q * (p \div q) <= p /\ p < q * (p \div q) + q
  OBVIOUS
LEMMA MulMono == \A k \in Int, m \in Int, q \in Nat : k <= m => k * q <= m * q
  OBVIOUS

\* ceil(p/q) for q > 0:  q*(c-1) < p <= q*c
LEMMA CeilPos == \A p \in Int, q \in Nat \ {0} :
                    LET c == -((-p) \div q) IN c \in Int /\ q * (c - 1) < p /\ p <= q * c
  <1> SUFFICES ASSUME NEW p \in Int, NEW q \in Nat \ {0} PROVE LET c == -((-p) \div q) IN c \in Int /\ q * (c - 1) < p /\ p <= q * c
    OBVIOUS
  <1> DEFINE m == (-p) \div q
  <1>1. m \in Int /\ q * m <= -p /\ -p < q * m + q
    BY DivBounds
  <1> HIDE DEF m
  <1>2. q * (-m - 1) = -(q * m) - q /\ q * (-m) = -(q * m)
    BY <1>1
  <1> QED BY <1>1, <1>2 DEF m

\* upward ranges
THEOREM RangeCountPos ==
    \A a \in Int, b \in Int, step \in Nat \ {0} :
        LET n == RangeCount(a, b, step) IN
        /\ n \in Nat
        /\ \A k \in 0..(n - 1) : Before(a + k * step, b, step)
        /\ ~Before(a + n * step, b, step)
  <1> SUFFICES ASSUME NEW a \in Int, NEW b \in Int, NEW step \in Nat \ {0}
               PROVE LET n == RangeCount(a, b, step) IN
                     n \in Nat /\ (\A k \in 0..(n - 1) : a + k * step < b) /\ ~(a + n * step < b)
    BY DEF Before
  <1> DEFINE c == -((-(b - a)) \div step)
  <1>1. c \in Int /\ step * (c - 1) < b - a /\ b - a <= step * c
    BY CeilPos
  <1>2. RangeCount(a, b, step) = MaxR(0, c)
    BY DEF RangeCount, CeilDiv
  <1> HIDE DEF c
  <1>3. CASE c <= 0
    <2>1. RangeCount(a, b, step) = 0
      BY <1>1, <1>2, <1>3 DEF MaxR
    <2>2. step * c <= 0
      BY <1>1, <1>3, MulMono
    <2> QED BY <2>1, <2>2, <1>1
  <1>4. CASE c > 0
    <2>1. RangeCount(a, b, step) = c /\ c \in Nat
      BY <1>1, <1>2, <1>4 DEF MaxR
    <2>2. \A k \in 0..(c - 1) : k * step <= (c - 1) * step
      BY <1>1, MulMono
    <2>3. (c - 1) * step = step * (c - 1) /\ c * step = step * c
      BY <1>1
    <2> QED BY <2>1, <2>2, <2>3, <1>1
  <1> QED BY <1>1, <1>3, <1>4

\* downward ranges: step = -s
THEOREM RangeCountNeg ==
    \A a \in Int, b \in Int, s \in Nat \ {0} :
        LET n == RangeCount(a, b, -s) IN
        /\ n \in Nat
        /\ \A k \in 0..(n - 1) : Before(a + k * (-s), b, -s)
        /\ ~Before(a + n * (-s), b, -s)
  <1> TAKE a \in Int, b \in Int, s \in Nat \ {0}
  <1>a. \A k \in Int : a + k * (-s) = a - k * s
    OBVIOUS
  <1>b. RangeCount(a, b, -s) \in Int
    BY DivBounds DEF RangeCount, CeilDiv, MaxR
  <1> SUFFICES LET n == RangeCount(a, b, -s) IN
               n \in Nat /\ (\A k \in 0..(n - 1) : a - k * s > b) /\ ~(a - n * s > b)
    BY <1>a, <1>b DEF Before
  <1> DEFINE c == -((-(a - b)) \div s)
  <1>1. c \in Int /\ s * (c - 1) < a - b /\ a - b <= s * c
    BY CeilPos
  <1>2. RangeCount(a, b, -s) = MaxR(0, c)
    <2>1. -(a - b) = b - a /\ -(-s) = s
      OBVIOUS
    <2> QED BY <2>1 DEF RangeCount, CeilDiv
  <1> HIDE DEF c
  <1>3. CASE c <= 0
    <2>1. RangeCount(a, b, -s) = 0
      BY <1>1, <1>2, <1>3 DEF MaxR
    <2>2. s * c <= 0
      BY <1>1, <1>3, MulMono
    <2> QED BY <2>1, <2>2, <1>1
  <1>4. CASE c > 0
    <2>1. RangeCount(a, b, -s) = c /\ c \in Nat
      BY <1>1, <1>2, <1>4 DEF MaxR
    <2>2. \A k \in 0..(c - 1) : k * s <= (c - 1) * s
      BY <1>1, MulMono
    <2>3. (c - 1) * s = s * (c - 1) /\ c * s = s * c
      BY <1>1
    <2> QED BY <2>1, <2>2, <2>3, <1>1
  <1> QED BY <1>1, <1>3, <1>4
=============================================================================
