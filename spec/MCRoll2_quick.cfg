SPECIFICATION Spec
CONSTANTS
  MaxLen = 3
  MaxW = 5
  ValA <- SignedA
  ValB = {0, 1, 2}
  WithNull = TRUE
  ElemA <- ElemADef
  ElemB <- ElemBDef
INVARIANTS NoDrift2 OutDef2 LenOK2 MaskLaw2 PerfectLineZeroResidual EmitRoll2
PROPERTY AppendOnly2
CHECK_DEADLOCK FALSE
