SPECIFICATION Spec
CONSTANTS
  MaxLen = 14
INVARIANTS NoUnderflow BracketInv InRange ResultLaw
PROPERTY Terminates
CHECK_DEADLOCK FALSE
