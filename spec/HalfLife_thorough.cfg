SPECIFICATION Spec
CONSTANTS
  MaxLen = 14
INVARIANTS PwIsPow NoUnderflow BracketInv InRange ResultLaw
PROPERTY Terminates
CHECK_DEADLOCK FALSE
