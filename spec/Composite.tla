------------------------------ MODULE Composite ------------------------------
(***************************************************************************)
(* Composite analytics of the tevec crate (tevec/src/map.rs, agg.rs):        *)
(* winsorize (quantile / median-absolute-deviation / sigma bounds, then      *)
(* clipping), Spearman correlation (Pearson of average ranks), and the       *)
(* `above` predicate that feeds the half-life search of HalfLife.tla:        *)
(* whether the lag-k autocorrelation of an integer series exceeds 1/2,       *)
(* decided exactly in integers.                                              *)
(***************************************************************************)
EXTENDS MapOps, SequencesExt

(* ---- autocorrelation above one half ---------------------------------------------- *)

\* pairwise-complete observations of s and s lagged by k
LagA(s, k) == PairSelA(s, DefShift(s, k, NULL))
LagB(s, k) == PairSelB(s, DefShift(s, k, NULL))
\* corr > 1/2  <=>  enough pairs, both variances positive, cov > 0 and 4 cov^2 > var_a var_b
AboveHalf(s, mp, k) ==
    LET a == LagA(s, k)  b == LagB(s, k) IN
    /\ N(a) >= Max2(mp, 2)
    /\ Vb(a) > 0 /\ Vb(b) > 0
    /\ Cab(a, b) > 0
    /\ 4 * Cab(a, b) * Cab(a, b) > Vb(a) * Vb(b)

\* a lag whose autocorrelation is exactly 1/2: the floating-point comparison may fall either way
TieAtHalf(s, mp, k) ==
    LET a == LagA(s, k)  b == LagB(s, k) IN
    /\ N(a) >= Max2(mp, 2) /\ Cab(a, b) > 0
    /\ 4 * Cab(a, b) * Cab(a, b) = Vb(a) * Vb(b)

(* ---- winsorize ---------------------------------------------------------------------- *)

V(s)  == Sel(s)
SV(s) == SortSeq(V(s), LAMBDA x, y : x < y)

\* linear quantile of the valid data at q = qn/qd, as a rational
QuantLin(s, qn, qd) ==
    LET n == Len(V(s))
        num == (n - 1) * qn
        lo == num \div qd
        hi == IF num % qd = 0 THEN lo ELSE lo + 1
    IN  QAdd(QInt(SV(s)[lo + 1]), QMul(QInt(SV(s)[hi + 1] - SV(s)[lo + 1]), QN(num - lo * qd, qd)))

\* clip a valid integer x into [lo, hi] (rationals): expectation of the result
\* (a value that sits exactly on a bound may move by one rounding error of the computed bound, so
\* unchanged values are compared up to rounding as well)
ClipQ(x, lo, hi) ==
    IF QLt(QInt(x), lo) THEN EQ(lo) ELSE IF QLt(hi, QInt(x)) THEN EQ(hi) ELSE EQ(QInt(x))

WinsorQuantile(s, qn, qd) ==
    IF Len(V(s)) = 0 THEN [i \in 1..Len(s) |-> ENull]
    ELSE LET lo == QuantLin(s, qn, qd)  hi == QuantLin(s, qd - qn, qd) IN
         [i \in 1..Len(s) |-> IF s[i] = NULL THEN ENull ELSE ClipQ(s[i], lo, hi)]

\* median and median absolute deviation (both linear medians), doubled to stay in integers
Median2(v) == LET n == Len(v) sv == SortSeq(v, LAMBDA x, y : x < y) IN
              IF n % 2 = 1 THEN 2 * sv[(n + 1) \div 2] ELSE sv[n \div 2] + sv[n \div 2 + 1]
WinsorMedian(s, k) ==
    IF Len(V(s)) = 0 THEN [i \in 1..Len(s) |-> ENull]
    ELSE LET m2 == Median2(V(s))                                             \* 2 * median
             dev == [j \in 1..Len(V(s)) |-> Abs(2 * V(s)[j] - m2)]           \* 2 * |x - median|
             mad4 == Median2(dev)                                            \* 4 * MAD
             lo == QN(2 * m2 - k * mad4, 4)
             hi == QN(2 * m2 + k * mad4, 4)
         IN  [i \in 1..Len(s) |-> IF s[i] = NULL THEN ENull ELSE ClipQ(s[i], lo, hi)]

\* mean +- k sigma (sample standard deviation); no clipping for fewer than two observations
\* or zero spread.  A clipped value is  mean +- k sqrt(var):  <<9, bn, bd, s, qn, qd>>
WinsorSigma(s, k) ==
    LET v == V(s)  n == Len(v) IN
    IF n < 2 \/ D(v, 2) = 0 THEN [i \in 1..Len(s) |-> IF s[i] = NULL THEN ENull ELSE EQ(QInt(s[i]))]
    ELSE LET mean == QN(S(v), n)
             var  == QVar(v)
             k2var == QMul(QInt(k * k), var)
             below(x) == LET d == QSub(mean, QInt(x)) IN d[1] > 0 /\ QLt(k2var, QMul(d, d))
             beyond(x) == LET d == QSub(QInt(x), mean) IN d[1] > 0 /\ QLt(k2var, QMul(d, d))
         IN  [i \in 1..Len(s) |->
                 IF s[i] = NULL THEN ENull
                 ELSE IF below(s[i]) THEN <<9, mean[1], mean[2], -1, k2var[1], k2var[2]>>
                 ELSE IF beyond(s[i]) THEN <<9, mean[1], mean[2], 1, k2var[1], k2var[2]>>
                 ELSE EQ(QInt(s[i]))]

(* ---- Spearman ------------------------------------------------------------------------ *)

\* twice the average rank of every element among the valid ones of its own series (null -> null)
Ranks2(s) == [i \in 1..Len(s) |-> IF s[i] = NULL THEN NULL ELSE Rank2(V(s), s[i], FALSE)]
DefSpearman(s, t, mp) ==
    LET a == PairSelA(Ranks2(s), Ranks2(t))  b == PairSelB(Ranks2(s), Ranks2(t)) IN
    IF N(a) < Max2(mp, 2) THEN ENull ELSE DefCorr(a, b)

\* strictly increasing maps of the alphabet leave the ranks, hence Spearman, unchanged
Inc1(x) == IF x = NULL THEN NULL ELSE 2 * x + 1
Inc3(x) == IF x = NULL THEN NULL ELSE x * x * x
SpearmanMonotoneInvariant(s, t) ==
    /\ Ranks2([i \in 1..Len(s) |-> Inc1(s[i])]) = Ranks2(s)
    /\ Ranks2([i \in 1..Len(s) |-> Inc3(s[i])]) = Ranks2(s)
=============================================================================
