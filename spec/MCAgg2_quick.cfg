SPECIFICATION Spec
CONSTANTS
  MaxLen = 3
  Pairs = TRUE
  TiesLen = 6
  ValSet <- SignedSet
  ValSet2 = {0, 1}
  Elem <- ElemDef
  Elem2 <- Elem2Def
INVARIANTS FoldRefines Emit2
CHECK_DEADLOCK FALSE
