------------------------------- MODULE RollWin -------------------------------
(***************************************************************************)
(* The history-free configuration of the rolling kernels ("MCWin" of         *)
(* DESIGN section 4).  RollKernels carries the whole history xs and all      *)
(* emitted outputs, so its state graph is a tree bounded by MaxLen.  Here    *)
(* the state is only what the NEXT step can depend on:                       *)
(*     p     the post-removal window (the last min(i+1, w-1) elements)       *)
(*     acc   the running accumulators                                        *)
(*     mn/mx the extrema caches, with indices RELATIVE to p                  *)
(*     w, mp                                                                *)
(* The graph is finite and cyclic; TLC explores it completely, so NoDriftW,  *)
(* MomentsAgreeW, CacheOKW and StepOK (the output emitted by the step equals *)
(* the definition on the window, for every kernel) hold after ANY number of  *)
(* additions and removals - for histories of every length over the alphabet  *)
(* and window bound, not only up to MaxLen.                                  *)
(* The step is assembled from RollKernels' own operators (AddAcc, RemAcc,    *)
(* StepCache, Emit, Def) applied to the window as if it were the history.    *)
(***************************************************************************)
EXTENDS RollKernels

VARIABLES p,      \* post-removal window
          ok      \* did the last step emit what the definitions require, for every kernel?
wvars == <<w, mp, p, acc, mn, mx, ok>>

WInit ==
    /\ w \in 1..MaxW /\ mp \in {-1} \cup 0..w
    /\ p = <<>> /\ acc = Acc0 /\ mn = <<NULL, NOIDX>> /\ mx = <<NULL, NOIDX>> /\ ok = TRUE
    /\ xs = <<>> /\ out = [k \in Kernels |-> <<>>] /\ dfn = [k \in Kernels |-> EAny]

Shift(c) == IF c[2] = NOIDX THEN c ELSE <<c[1], c[2] - 1>>      \* the window start moved by one

WStep(v) ==
    LET s    == Append(p, v)          \* the pre-removal window plays the part of the history
        i    == Len(s) - 1
        full == Len(s) = w
        a1   == AddAcc(acc, v)
        cmn  == StepCache(mn, s, i, FALSE)
        cmx  == StepCache(mx, s, i, TRUE)
        d    == [k \in Kernels |-> Def(k, s)]
        cnt  == Count(s)
    IN  /\ ok' = \A k \in Kernels :
                    SameExp(Emit(k, a1, cmn, cmx, s, i, d), IF cnt < EffMp(k) THEN ENull ELSE d[k])
        /\ IF full
           THEN /\ p' = Tail(s) /\ acc' = RemAcc(a1, Head(s))
                /\ mn' = Shift(cmn) /\ mx' = Shift(cmx)
           ELSE /\ p' = s /\ acc' = a1 /\ mn' = cmn /\ mx' = cmx
        /\ UNCHANGED <<w, mp, xs, out, dfn>>

WNext == \E v \in Elem : WStep(v)
WSpec == WInit /\ [][WNext]_<<vars, p, ok>>

StepOK == ok
NoDriftW ==
    LET v == Sel(p) IN
    /\ acc.n = Len(v) /\ acc.s1 = SumPow(v, 1) /\ acc.s2 = SumPow(v, 2) /\ acc.s3 = SumPow(v, 3) /\ acc.s4 = SumPow(v, 4)
    /\ acc.sxt = SumT(v)
    /\ QEq(acc.qx, QSumSeq([k \in 1..Len(v) |-> QMul(QInt(v[k]), QPow(Oma, Len(v) - k))]))
MomentsAgreeW == LET v == Sel(p) IN C2(acc) = D(v, 2) /\ C3(acc) = D(v, 3) /\ C4(acc) = D(v, 4)
\* a cache entry is absent, or points into the window at the element it claims, or at the element
\* that has just left (index -1: it expires at the next step)
CacheRelOK(c) == c[2] = NOIDX \/ c[2] = -1 \/ (c[2] >= 0 /\ c[2] < Len(p) /\ P0(p, c[2]) = c[1])
CacheOKW == CacheRelOK(mn) /\ CacheRelOK(mx)
WindowBounded == Len(p) <= w - 1 \/ (w = 1 /\ p = <<>>)
=============================================================================
