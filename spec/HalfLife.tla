------------------------------- MODULE HalfLife -------------------------------
(***************************************************************************)
(* The autocorrelation half-life search of tevec/src/agg.rs.                 *)
(*                                                                         *)
(* above[k] says whether the lag-k autocorrelation of the series exceeds     *)
(* 1/2 (lags >= len have no pairs: never above).  The search doubles the     *)
(* lag until it finds one that is not above (or runs past the series), caps  *)
(* it at len-1 and bisects between the last lag known to be above and the    *)
(* first known not to be.                                                    *)
(*                                                                         *)
(* State: the code's own variables  n, last_n, i  and the program counter    *)
(* (plus pw = 2^i as a value, which is what the proof module works with).    *)
(* The bracket update is the REQUIRED one (last_n := life keeps n); the      *)
(* pinned tree swapped the pair and underflowed n - last_n.                  *)
(***************************************************************************)
EXTENDS Values, TLC

CONSTANT MaxLen

VARIABLES len, above, pc, n, last_n, i,
          pw       \* the lag the doubling phase tries next: 2^i, carried as a value (PwIsPow)
vars == <<len, above, pc, n, last_n, i, pw>>

Above(k) == k >= 1 /\ k <= len - 1 /\ above[k]

Init ==
    /\ len \in 0..MaxLen
    /\ above \in [1..(len - 1) -> BOOLEAN]
    /\ pc = IF len = 0 THEN "done" ELSE "dbl"
    /\ n = 0 /\ last_n = 0 /\ i = 0 /\ pw = 1

\* while n < len { n = 2^i; if !above(n) break; last_n = n; i += 1 }
Dbl ==
    /\ pc = "dbl"
    /\ IF n < len
       THEN IF Above(pw) THEN n' = pw /\ last_n' = pw /\ i' = i + 1 /\ pw' = 2 * pw /\ pc' = "dbl"
            ELSE n' = pw /\ pc' = "cap" /\ UNCHANGED <<last_n, i, pw>>
       ELSE pc' = "cap" /\ UNCHANGED <<n, last_n, i, pw>>
    /\ UNCHANGED <<len, above>>

\* n = min(n, len - 1)
Cap ==
    /\ pc = "cap"
    /\ n' = Min2(n, len - 1) /\ pc' = "bis"
    /\ UNCHANGED <<len, above, last_n, i, pw>>

\* while n - last_n > 1 { life = (n + last_n) / 2; above(life) ? last_n = life : n = life }
Bis ==
    /\ pc = "bis"
    /\ IF n - last_n > 1
       THEN LET life == (n + last_n) \div 2 IN
            IF Above(life) THEN last_n' = life /\ UNCHANGED n
            ELSE n' = life /\ UNCHANGED last_n
       ELSE UNCHANGED <<n, last_n>>
    /\ pc' = IF n - last_n > 1 THEN "bis" ELSE "done"
    /\ UNCHANGED <<len, above, i, pw>>

Next == Dbl \/ Cap \/ Bis
Spec == Init /\ [][Next]_vars /\ WF_vars(Next)

(* ---- properties ---------------------------------------------------------------- *)

\* the doubling phase tries the lags 1, 2, 4, ...: pw is the code's 2^i.  (HalfLifeProof.tla carries the same three
\* actions - length and pattern as constants, pw in place of 2^i - and proves NoUnderflow, BracketInv, InRange and
\* the shrinking bracket for EVERY length and pattern with the TLA+ proof system.)
PwIsPow == pw = IPow(2, i)
\* the subtraction n - last_n is on unsigned integers
NoUnderflow == pc = "bis" => n >= last_n
\* the bracket: everything up to last_n is known above only at last_n itself; n is not above or is the cap
BracketInv == pc = "bis" => (last_n = 0 \/ Above(last_n)) /\ (~Above(n) \/ n = len - 1)
\* C20: a lag between 0 and len-1, 0 only for series shorter than two
InRange == pc = "done" => /\ n >= 0 /\ n <= Max2(0, len - 1)
                          /\ (n = 0 => len < 2)
\* C20: for a pattern that stays above exactly up to some lag, the first lag at which it is not
Monotone == \A a, b \in 1..(len - 1) : (a < b /\ above[b]) => above[a]
FirstNot == IF \E k \in 1..(len - 1) : ~above[k]
            THEN CHOOSE k \in 1..(len - 1) : ~above[k] /\ \A j \in 1..(k - 1) : above[j]
            ELSE len - 1
ResultLaw == (pc = "done" /\ len >= 2 /\ Monotone) => n = Min2(FirstNot, len - 1)

Terminates == <>(pc = "done")
=============================================================================
