SPECIFICATION Spec
CONSTANTS
  MaxLen = 5
  MaxW = 7
  VR = 1
  ValSet = {0, 1}
  WithNull = TRUE
  Elem <- ElemDef
INVARIANTS OutDef LenOK MaskLaw EmitRoll
CHECK_DEADLOCK FALSE
