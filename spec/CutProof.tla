------------------------------- MODULE CutProof -------------------------------
(***************************************************************************)
(* Binning against an ascending edge vector of ANY length:                   *)
(*   UniqueBin     at most one interval contains a value (either closedness) *)
(*   OutsideNoBin  a value beyond the outer edges lies in no interval - the  *)
(*                 only case in which an error may be reported               *)
(*   InsideHasBin  a value between the outer edges lies in some interval     *)
(* (MapOps.tla checks the same with TLC for every edge vector over a small   *)
(* alphabet).  Proved with tlapm: SMT plus induction on the index distance.  *)
(***************************************************************************)
EXTENDS CutIdx, NaturalsInduction, TLAPS

CONSTANTS m, b
ASSUME MNat == m \in Nat
ASSUME BType == b \in [1..m -> Int]
ASSUME Adjacent == \A i \in 1..(m - 1) : b[i] < b[i + 1]

LEMMA Pairwise == \A i \in 1..m, j \in 1..m : i < j => b[i] < b[j]
<1> DEFINE P(d) == \A i \in 1..m : (d >= 1 /\ i + d <= m) => b[i] < b[i + d]
<1>1. P(0)
  OBVIOUS
<1>2. \A d \in Nat : P(d) => P(d + 1)
  <2> TAKE d \in Nat
  <2> HAVE P(d)
  <2> TAKE i \in 1..m
  <2> HAVE d + 1 >= 1 /\ i + (d + 1) <= m
  <2>1. CASE d = 0
    BY <2>1, Adjacent, MNat
  <2>2. CASE d >= 1
    <3>1. b[i] < b[i + d]
      BY <2>2, MNat
    <3>2. b[i + d] < b[i + d + 1]
      BY Adjacent, MNat
    <3>3. b[i] \in Int /\ b[i + d] \in Int /\ b[i + d + 1] \in Int
      BY BType, MNat
    <3> QED BY <3>1, <3>2, <3>3
  <2> QED BY <2>1, <2>2
<1>3. \A d \in Nat : P(d)
  <2> HIDE DEF P
  <2> QED BY <1>1, <1>2, NatInduction, Isa
<1> TAKE i \in 1..m, j \in 1..m
<1> HAVE i < j
<1>4. j - i \in Nat /\ j - i >= 1 /\ i + (j - i) = j /\ i + (j - i) <= m
  BY MNat
<1> QED BY <1>3, <1>4

THEOREM UniqueBin ==
    \A x \in Int, right \in BOOLEAN, k \in 1..(m - 1), l \in 1..(m - 1) :
        (InBin(b, k, x, right) /\ InBin(b, l, x, right)) => k = l
<1> TAKE x \in Int, right \in BOOLEAN, k \in 1..(m - 1), l \in 1..(m - 1)
<1> HAVE InBin(b, k, x, right) /\ InBin(b, l, x, right)
<1>0. b[k] \in Int /\ b[k + 1] \in Int /\ b[l] \in Int /\ b[l + 1] \in Int
  BY BType, MNat
<1>1. k < l => b[k + 1] <= b[l]
  BY Pairwise, MNat, <1>0
<1>2. l < k => b[l + 1] <= b[k]
  BY Pairwise, MNat, <1>0
<1> QED BY <1>0, <1>1, <1>2, MNat DEF InBin

THEOREM OutsideNoBin ==
    \A x \in Int, right \in BOOLEAN, k \in 1..(m - 1) :
        InBin(b, k, x, right) => /\ (IF right THEN b[1] < x ELSE b[1] <= x)
                                 /\ (IF right THEN x <= b[m] ELSE x < b[m])
<1> TAKE x \in Int, right \in BOOLEAN, k \in 1..(m - 1)
<1> HAVE InBin(b, k, x, right)
<1>0. b[k] \in Int /\ b[k + 1] \in Int /\ b[1] \in Int /\ b[m] \in Int /\ m >= 2
  BY BType, MNat
<1>1. b[1] <= b[k] /\ b[k + 1] <= b[m]
  BY Pairwise, MNat, <1>0
<1> QED BY <1>0, <1>1 DEF InBin

THEOREM InsideHasBin ==
    \A x \in Int : (m >= 2 /\ b[1] < x /\ x <= b[m]) => \E k \in 1..(m - 1) : InBin(b, k, x, TRUE)
<1> TAKE x \in Int
<1> HAVE m >= 2 /\ b[1] < x /\ x <= b[m]
<1> DEFINE Q(j) == (j + 2 <= m /\ x <= b[j + 2]) => \E k \in 1..(j + 1) : InBin(b, k, x, TRUE)
<1>1. Q(0)
  BY MNat DEF InBin
<1>2. \A j \in Nat : Q(j) => Q(j + 1)
  <2> TAKE j \in Nat
  <2> HAVE Q(j)
  <2> HAVE (j + 1) + 2 <= m /\ x <= b[(j + 1) + 2]
  <2>0. b[j + 2] \in Int /\ b[j + 3] \in Int /\ j + 3 = (j + 1) + 2 /\ j + 2 \in 1..(m - 1)
    BY BType, MNat
  <2>1. CASE x <= b[j + 2]
    <3>1. \E k \in 1..(j + 1) : InBin(b, k, x, TRUE)
      BY <2>1, MNat
    <3> QED BY <3>1
  <2>2. CASE ~(x <= b[j + 2])
    <3>1. InBin(b, j + 2, x, TRUE)
      BY <2>2, <2>0 DEF InBin
    <3> QED BY <3>1, MNat
  <2> QED BY <2>1, <2>2
<1>3. \A j \in Nat : Q(j)
  <2> HIDE DEF Q
  <2> QED BY <1>1, <1>2, NatInduction, Isa
<1>4. m - 2 \in Nat /\ (m - 2) + 2 = m /\ (m - 2) + 1 = m - 1
  BY MNat
<1> QED BY <1>3, <1>4
=============================================================================
