------------------------------ MODULE Containers ------------------------------
(***************************************************************************)
(* Backends of tea-core (backends_impl/*.rs, vec_core/iter.rs) as            *)
(* REPRESENTATIONS of one logical sequence, with the refinement mapping       *)
(* Logical(c) and the accessors the adapter code offers on top of each        *)
(* representation: length, checked get, forward / backward iteration,         *)
(* sub-slicing and the optional contiguous-slice view.                        *)
(*                                                                         *)
(*   vec      a plain buffer                                   (Vec, [T; N])  *)
(*   ring     buf, head, len: element i lives at (head+i) mod cap (VecDeque)  *)
(*   strided  base, off, step, len: element i lives at off + i*step           *)
(*            (ndarray owned arrays and borrowed / strided / reversed views)  *)
(*   chunked  a list of chunks of (value, valid) pairs            (Polars)   *)
(*   arc / opt wrappers forward to the wrapped representation                 *)
(*                                                                         *)
(* AccessorsAgree: every accessor describes Logical(c).  The contiguous view  *)
(* is either absent or exactly Logical(c) - a reversed view is contiguous in  *)
(* MEMORY but not in logical order, so it must not be offered.                *)
(* A representation is also a place results are WRITTEN to: a caller may hand  *)
(* any ring (wrapped or not) or any strided / reversed view to a `*_to` twin   *)
(* as the uninitialised output buffer.  WriteCell(r, i) is the memory cell     *)
(* logical slot i must go to; WriteMapOK says the map is injective, stays      *)
(* inside the storage, and - read back through Logical - returns what was      *)
(* written, so that "every slot written exactly once, nothing outside" is a    *)
(* statement about cells.  The harness builds the real buffer for every        *)
(* ring / strided parameter and checks the cells.                              *)
(* BackendIndependent (the function-level half of C07) is bound by the        *)
(* harness: every function family gives bit-identical results on every        *)
(* representation of the same Logical(c).                                     *)
(***************************************************************************)
EXTENDS Values, TLC, SequencesExt, ContIdx

CONSTANTS MaxLen, MaxCap

VARIABLE c          \* the representation under inspection
vars == <<c>>

Data(n) == [i \in 1..n |-> 10 + i]          \* distinct payload, position-coded

(* ---- refinement mapping --------------------------------------------------------- *)

Logical(r) ==
    CASE r.rep = "vec"     -> r.buf
      [] r.rep = "ring"    -> [i \in 1..r.len |-> r.buf[RingCell(r.head, r.cap, i - 1)]]
      [] r.rep = "strided" -> [i \in 1..r.len |-> r.base[StridedCell(r.off, r.step, i - 1)]]
      [] r.rep = "chunked" -> r.flat

\* is the logical sequence one contiguous run of the underlying memory, in order?
ContiguousInOrder(r) ==
    CASE r.rep = "vec"     -> TRUE
      [] r.rep = "ring"    -> r.head + r.len <= r.cap
      [] r.rep = "strided" -> r.step = 1 \/ r.len <= 1
      [] r.rep = "chunked" -> FALSE

(* ---- accessors as the adapters compute them -------------------------------------- *)

ALen(r) == CASE r.rep = "vec" -> Len(r.buf) [] r.rep = "chunked" -> Len(r.flat) [] OTHER -> r.len
AGet(r, i) == IF i < ALen(r) THEN Logical(r)[i + 1] ELSE NULL            \* 0-based, checked
AIterFwd(r)  == Logical(r)
AIterBack(r) == [i \in 1..ALen(r) |-> Logical(r)[ALen(r) - i + 1]]
ASlice(r, a, b) == [i \in 1..(b - a) |-> Logical(r)[a + i]]             \* [a, b), 0-based
\* the contiguous view: <<>> = not offered, <<s>> = offered as s   (REQUIRED behaviour)
ATryAsSlice(r) == IF ContiguousInOrder(r) THEN <<Logical(r)>> ELSE <<>>

(* ---- the representation as an output buffer ------------------------------------- *)

\* 1-based cell of the underlying storage that logical slot i (0-based) lives in
WriteCell(r, i) ==
    CASE r.rep = "vec"     -> i + 1
      [] r.rep = "ring"    -> RingCell(r.head, r.cap, i)           \* ContIdx.tla: injective and in the storage for
      [] r.rep = "strided" -> StridedCell(r.off, r.step, i)        \* EVERY parameter (ContainersProof.tla)
Storage(r) == CASE r.rep = "vec" -> Len(r.buf) [] r.rep = "ring" -> r.cap [] r.rep = "strided" -> Len(r.base)
\* the storage after writing payload p (a sequence of ALen(r) values) slot by slot
Written(r, p) ==
    LET mem0 == CASE r.rep = "vec" -> r.buf [] r.rep = "ring" -> r.buf [] r.rep = "strided" -> r.base
        mem1 == [cell \in 1..Storage(r) |->
                    IF \E i \in 0..(ALen(r) - 1) : WriteCell(r, i) = cell
                    THEN p[(CHOOSE i \in 0..(ALen(r) - 1) : WriteCell(r, i) = cell) + 1]
                    ELSE mem0[cell]]
    IN  CASE r.rep = "vec" -> [r EXCEPT !.buf = mem1] [] r.rep = "ring" -> [r EXCEPT !.buf = mem1]
          [] r.rep = "strided" -> [r EXCEPT !.base = mem1]

(* ---- mutable accessors (Vec1Mut: get_mut, try_as_slice_mut, apply_mut_with) --------- *)

\* the representation after assigning x to logical slot i through get_mut(i)
SetOne(r, i, x) ==
    CASE r.rep = "vec"     -> [r EXCEPT !.buf[WriteCell(r, i)] = x]
      [] r.rep = "ring"    -> [r EXCEPT !.buf[WriteCell(r, i)] = x]
      [] r.rep = "strided" -> [r EXCEPT !.base[WriteCell(r, i)] = x]
\* checked mutable access: present exactly inside the sequence
AGetMutPresent(r, i) == i < ALen(r)
\* apply_mut_with(other, f): element-wise on equal lengths, an error (and no change) otherwise
ApplyMutWith(L, other, F(_, _)) == IF Len(L) = Len(other) THEN <<"ok", [i \in 1..Len(L) |-> F(L[i], other[i])]>> ELSE <<"err", L>>

\* sort_unstable_by(cmp) on an owned container: the logical sequence becomes its sorted permutation IN
\* PLACE - through the contiguous view where there is one, otherwise by sorting a copy and writing it
\* back slot by slot; layout (head, capacity, offset, stride) and every cell outside the sequence stay
Desc(x, y) == x > y
ASorted(r) == Written(r, SortSeq(Logical(r), Desc))
\* derived read accessors: the option view of an element / of the iteration, and the casting iterators,
\* are functions of the same logical sequence (NULL <-> absent)
OptOf(x) == IF x = NULL THEN <<>> ELSE <<x>>
AUvGet(r, i) == OptOf(Logical(r)[i + 1])
AToOptIter(r) == [i \in 1..ALen(r) |-> OptOf(Logical(r)[i])]

(* ---- the dynamic layer (tea-dyn, tea-rolling/src/dynamic) ---------------------------- *)

\* A dynamic vector is a container tagged with a name and a dtype.  A dynamic call forwards to the static kernel
\* of that dtype and wraps the result again: same values as the static call on the extracted column, the name and
\* the dtype kept; a dtype without kernels is an ERROR (never a panic).  A second operand of another dtype is first
\* converted to the dtype of the first (cast::<T>() converts to T - not to the vector's own dtype).
DynKernelDtypes == {"f64", "f32", "i64", "i32"}
DynDtypes == DynKernelDtypes \cup {"bool", "str"}
DynCall(v, F(_)) ==
    IF v.dtype \in DynKernelDtypes THEN <<"ok", [name |-> v.name, dtype |-> v.dtype, data |-> F(v.data)]>> ELSE <<"err">>
DynCast(x, dt) == [x EXCEPT !.dtype = dt]              \* values converted by the cast algebra of Casts.tla
DynCall2(v, x, F(_, _)) ==
    IF v.dtype \in DynKernelDtypes THEN <<"ok", [name |-> v.name, dtype |-> v.dtype, data |-> F(v.data, DynCast(x, v.dtype).data)]>>
    ELSE <<"err">>
DynForwards ==
    \A dt \in DynDtypes, dx \in DynDtypes :
        LET v == [name |-> "px", dtype |-> dt, data |-> Logical(c)]
            x == [name |-> "x", dtype |-> dx, data |-> Logical(c)]
            r == DynCall(v, LAMBDA d : d)
            r2 == DynCall2(v, x, LAMBDA d, e : e)
        IN  /\ (dt \in DynKernelDtypes) <=> (r[1] = "ok")
            /\ r[1] = "ok" => r[2].name = "px" /\ r[2].dtype = dt /\ r[2].data = Logical(c)
            /\ r2[1] = "ok" => r2[2].dtype = dt /\ DynCast(x, dt).dtype = dt     \* the operand arrives in v's dtype

(* ---- enumeration ------------------------------------------------------------------- *)

Rings == {[rep |-> "ring", cap |-> cap, head |-> h, len |-> n,
           buf |-> [j \in 1..cap |-> IF ((j - 1 - h) % cap) < n THEN 11 + ((j - 1 - h) % cap) ELSE 0]] :
          cap \in 1..MaxCap, h \in 0..(MaxCap - 1), n \in 0..MaxLen}
Strideds == {[rep |-> "strided", base |-> Data(bn), off |-> o, step |-> st, len |-> n] :
             bn \in 0..(2 * MaxLen + 2), o \in 0..(2 * MaxLen + 1), st \in {-2, -1, 1, 2, 3}, n \in 0..MaxLen}
ValidRing(r)    == r.head < r.cap /\ r.len <= r.cap
ValidStrided(r) == r.len = 0 \/ (/\ r.off + 1 >= 1 /\ r.off + 1 <= Len(r.base)
                                 /\ r.off + (r.len - 1) * r.step + 1 >= 1
                                 /\ r.off + (r.len - 1) * r.step + 1 <= Len(r.base))
\* chunkings of Data(n) with a validity pattern: cut points c1 <= c2
Chunkeds == {[rep |-> "chunked", cuts |-> <<c1, c2>>, flat |-> [i \in 1..n |-> IF i % 3 = m THEN NULL ELSE 10 + i], n |-> n] :
             n \in 0..MaxLen, c1 \in 0..MaxLen, c2 \in 0..MaxLen, m \in 0..3}
ValidChunked(r) == r.cuts[1] <= r.cuts[2] /\ r.cuts[2] <= r.n

Init == c \in {r \in Rings : ValidRing(r)} \cup {r \in Strideds : ValidStrided(r)}
             \cup {r \in Chunkeds : ValidChunked(r)}
             \cup {[rep |-> "vec", buf |-> Data(n)] : n \in 0..MaxLen}
Next == UNCHANGED vars
Spec == Init /\ [][Next]_vars

(* ---- C07: each accessor describes the same logical sequence ---------------------------- *)

AccessorsAgree ==
    LET L == Logical(c) n == Len(L) IN
    /\ ALen(c) = n
    /\ \A i \in 0..(n + 1) : AGet(c, i) = (IF i < n THEN L[i + 1] ELSE NULL)
    /\ AIterFwd(c) = L
    /\ \A i \in 1..n : AIterBack(c)[i] = L[n - i + 1]
    /\ \A a \in 0..n, b \in 0..n : a <= b => ASlice(c, a, b) = SubSeq(L, a + 1, b)
    /\ ATryAsSlice(c) \in {<<>>, <<L>>}

\* C07 / C10: as an output buffer, slot i goes to one cell of the storage, different slots to
\* different cells, and reading the buffer back yields what was written; no other cell changes
WriteMapOK ==
    c.rep \in {"vec", "ring", "strided"} =>
        LET n == ALen(c)  p == [i \in 1..n |-> 100 + i]  w == Written(c, p) IN
        /\ \A i \in 0..(n - 1) : WriteCell(c, i) \in 1..Storage(c)
        /\ \A i, j \in 0..(n - 1) : i # j => WriteCell(c, i) # WriteCell(c, j)
        /\ Logical(w) = p
        /\ \A cell \in 1..Storage(c) :
              (\A i \in 0..(n - 1) : WriteCell(c, i) # cell) =>
                 (CASE c.rep = "vec" -> w.buf[cell] = c.buf[cell] [] c.rep = "ring" -> w.buf[cell] = c.buf[cell]
                    [] c.rep = "strided" -> w.base[cell] = c.base[cell])

\* C07 / C19: assigning through the mutable accessor changes that logical slot and no other; the
\* mutable contiguous view obeys the same rule as the shared one
SetOneOK ==
    c.rep \in {"vec", "ring", "strided"} =>
        LET L == Logical(c)  n == Len(L) IN
        /\ \A i \in 0..(n - 1) : Logical(SetOne(c, i, 999)) = [L EXCEPT ![i + 1] = 999]
        /\ \A i \in 0..(n + 1) : AGetMutPresent(c, i) <=> i < n

\* C07 / C19: sorting in place leaves a sorted permutation of the same logical sequence in the same layout
SortOK ==
    c.rep \in {"vec", "ring", "strided"} =>
        LET L == Logical(c)  n == Len(L)  w == ASorted(c)  M == Logical(w) IN
        /\ Len(M) = n
        /\ \A i \in 1..(n - 1) : M[i] >= M[i + 1]
        /\ \A x \in {L[i] : i \in 1..n} : Cardinality({i \in 1..n : L[i] = x}) = Cardinality({i \in 1..n : M[i] = x})
        /\ (c.rep = "ring" => w.head = c.head /\ w.cap = c.cap)
        /\ (c.rep = "strided" => w.off = c.off /\ w.step = c.step)
DerivedAgree ==
    LET L == Logical(c) n == Len(L) IN
    /\ \A i \in 0..(n - 1) : AUvGet(c, i) = OptOf(L[i + 1])
    /\ Len(AToOptIter(c)) = n /\ \A i \in 1..n : (AToOptIter(c)[i] = <<>>) <=> (L[i] = NULL)

\* the ring buffer mapping is a bijection onto the live cells
RingLive == c.rep = "ring" => \A i, j \in 1..c.len : i # j => ((c.head + i - 1) % c.cap) # ((c.head + j - 1) % c.cap)
=============================================================================
