-------------------------------- MODULE MCGen --------------------------------
EXTENDS Generators, Json

NegFour == 0 - 4        \* cfg files cannot hold negative literals

\* constant-level laws, evaluated once
LawsOnce == (mode = "decide" /\ bl = 0 /\ il = 0) => RangeExact /\ LinspaceEnds /\ CollectAllocOK /\ ZeroSizedOK

Steps == {-3, -2, -1, 1, 2, 3}
EmitGen ==
    (mode = "decide" /\ bl = 0 /\ il = 0) =>
      /\ \A a \in RMin..RMax, b \in RMin..RMax, step \in Steps :
            PrintT(<<"REPLAY", ToJson([op |-> "range", a |-> a, b |-> b, step |-> step, want |-> DefRange(a, b, step)])>>)
      /\ \A a \in RMin..RMax, b \in RMin..RMax, n \in 0..MaxN :
            PrintT(<<"REPLAY", ToJson([op |-> "linspace", a |-> a, b |-> b, n |-> n,
                                       want |-> [i \in 1..n |-> EQ(DefLinspace(a, b, n)[i])]])>>)
      /\ \A n \in 0..MaxN, e \in 0..MaxN, sk \in Sources :   \* e = position of the first error (0 = none), a second one later
            (e <= n) =>
            PrintT(<<"REPLAY", ToJson([op |-> "collect", n |-> n, src |-> sk, hint |-> Hint(sk, n),
                      items |-> [i \in 1..n |-> IF i = e \/ (e > 0 /\ i = e + 2) THEN -1 ELSE 10 + i],
                      first_error |-> FirstError([i \in 1..n |-> IF i = e \/ (e > 0 /\ i = e + 2) THEN -1 ELSE 10 + i])])>>)

EmitWriter ==
    mode = "done" =>
      PrintT(<<"REPLAY", ToJson([op |-> "writer", bl |-> bl, il |-> il,
                                 outcome |-> IF written = {} /\ bl > 0 THEN "error" ELSE "ok", src |-> src])>>)
=============================================================================
