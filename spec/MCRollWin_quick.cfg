SPECIFICATION WSpec
CONSTANTS
  MaxLen = 1
  MaxW = 4
  VR = 2
  WithNull = TRUE
  Elem <- ElemDef
INVARIANTS StepOK NoDriftW MomentsAgreeW CacheOKW WindowBounded
CHECK_DEADLOCK FALSE
