SPECIFICATION Spec
CONSTANTS
  MaxLen = 6
  Alphabet <- TermAlphabet
INVARIANTS StartLeI Sound EmitWF
PROPERTY Total
CHECK_DEADLOCK FALSE
