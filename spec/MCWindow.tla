------------------------------ MODULE MCWindow ------------------------------
(* Bounded-exhaustive configuration of Window plus the emitter that turns   *)
(* every (form, len, len2, w) into one conformance case for the harness.    *)
EXTENDS Window, Json

\* The REQUIRED invocation list (not the machine's): one triple per position.
ReqCalls == [i \in 1..len |-> Req(i - 1)]

Emit ==
    (pc \in {"done", "panic"} /\ body = "iter") =>
        PrintT(<<"REPLAY", ToJson([op |-> "window", form |-> form, len |-> len,
                                   len2 |-> len2, w |-> w,
                                   outcome |-> IF Degenerate /\ len + len2 > 0 THEN "panic"
                                               ELSE IF Degenerate THEN "either" ELSE "ok",
                                   calls |-> ReqCalls])>>)
=============================================================================
