SPECIFICATION InfSpec
CONSTANTS
  MaxLen = 4
  Pairs = FALSE
  TiesLen = 6
  ValSet <- SignedSet
  ValSet2 = {0, 1}
  Elem <- ElemDef
  Elem2 <- Elem2Def
INVARIANTS InfLawsInv EmitInf
CHECK_DEADLOCK FALSE
