SPECIFICATION Spec
CONSTANTS
  MaxLen = 3
  MaxW = 3
  VR = 2
  WithNull = TRUE
  Elem <- ElemDef
  Units = {2, 3}
INVARIANTS Homogeneous MaskUnitFree TransLaw EmitLaws
CHECK_DEADLOCK FALSE
