SPECIFICATION TraceSpec
INVARIANTS HintNonNegative
POSTCONDITION TraceAccepted
CHECK_DEADLOCK FALSE
