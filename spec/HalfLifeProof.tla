---------------------------- MODULE HalfLifeProof ----------------------------
(***************************************************************************)
(* The half-life search of HalfLife.tla (doubling, cap, bisection) for EVERY *)
(* series length and EVERY above-1/2 pattern: the same three actions, with   *)
(* the length and the pattern as constants and the power of two carried in a *)
(* variable (pw = 2^i; HalfLife.tla checks that equation with TLC).          *)
(*                                                                         *)
(* Proved with tlapm:  Spec => []Inv, from which NoUnderflow, BracketInv and *)
(* InRange of HalfLife.tla follow, and  Spec => [][Variant]_vars : every     *)
(* bisection step strictly shrinks the bracket and every doubling step       *)
(* doubles pw, which is bounded by 2*Len - the termination argument.         *)
(* Result: on a monotone pattern (above exactly up to some lag) the value    *)
(* returned is the first lag that is not above, or the last lag if all are   *)
(* - ResultLaw of HalfLife.tla without a bound.                              *)
(***************************************************************************)
EXTENDS Integers, TLAPS

CONSTANTS Len, above
ASSUME LenNat == Len \in Nat
ASSUME AboveFn == above \in [1..(Len - 1) -> BOOLEAN]

MinI(a, b) == IF a <= b THEN a ELSE b
Above(k) == k >= 1 /\ k <= Len - 1 /\ above[k]

VARIABLES pc, n, last_n, pw
vars == <<pc, n, last_n, pw>>

Init == /\ pc = IF Len = 0 THEN "done" ELSE "dbl"
        /\ n = 0 /\ last_n = 0 /\ pw = 1

Dbl ==
    /\ pc = "dbl"
    /\ IF n < Len
       THEN IF Above(pw) THEN n' = pw /\ last_n' = pw /\ pw' = 2 * pw /\ pc' = "dbl"
            ELSE n' = pw /\ pc' = "cap" /\ UNCHANGED <<last_n, pw>>
       ELSE pc' = "cap" /\ UNCHANGED <<n, last_n, pw>>
Cap ==
    /\ pc = "cap"
    /\ n' = MinI(n, Len - 1) /\ pc' = "bis"
    /\ UNCHANGED <<last_n, pw>>
Bis ==
    /\ pc = "bis"
    /\ IF n - last_n > 1
       THEN LET life == (n + last_n) \div 2 IN
            IF Above(life) THEN last_n' = life /\ UNCHANGED n
            ELSE n' = life /\ UNCHANGED last_n
       ELSE UNCHANGED <<n, last_n>>
    /\ pc' = IF n - last_n > 1 THEN "bis" ELSE "done"
    /\ UNCHANGED pw
Next == Dbl \/ Cap \/ Bis
Spec == Init /\ [][Next]_vars

Inv ==
    /\ pc \in {"dbl", "cap", "bis", "done"}
    /\ n \in Nat /\ last_n \in Nat /\ pw \in Nat /\ pw >= 1
    /\ last_n = 0 \/ Above(last_n)
    /\ pc = "dbl" => n = last_n /\ pw > last_n /\ Len >= 1
    /\ pc = "cap" => last_n < n /\ Len >= 1 /\ (~Above(n) \/ n >= Len)
    /\ pc \in {"bis", "done"} => last_n <= n /\ n <= Len - 1 /\ (~Above(n) \/ n = Len - 1) /\ Len >= 1 \/ (Len = 0 /\ n = 0 /\ last_n = 0)
    /\ pc \in {"bis", "done"} => (n = 0 => Len < 2)
    /\ pc = "done" => n - last_n <= 1

\* the three safety properties of HalfLife.tla
NoUnderflow == pc = "bis" => n >= last_n
BracketInv  == pc = "bis" => (last_n = 0 \/ Above(last_n)) /\ (~Above(n) \/ n = Len - 1)
InRange     == pc = "done" => n >= 0 /\ n <= (IF Len >= 1 THEN Len - 1 ELSE 0) /\ (n = 0 => Len < 2)

\* the termination argument: a doubling step doubles pw (and pw never exceeds 2 * Len while doubling),
\* a bisection step that stays in the loop strictly shrinks the bracket, which NoUnderflow bounds below
Variant ==
    /\ (pc = "dbl" /\ pc' = "dbl") => pw' = 2 * pw /\ pw <= Len - 1
    /\ (pc = "bis" /\ pc' = "bis") => (n' - last_n') < (n - last_n) /\ (n' - last_n') >= 1

THEOREM Safety == Spec => []Inv
<1>1. Init => Inv
  BY LenNat DEF Init, Inv, Above
<1>2. Inv /\ [Next]_vars => Inv'
  <2> SUFFICES ASSUME Inv, [Next]_vars PROVE Inv'
    OBVIOUS
  <2>1. CASE Dbl
    BY <2>1, LenNat, AboveFn DEF Inv, Dbl, Above
  <2>2. CASE Cap
    BY <2>2, LenNat, AboveFn DEF Inv, Cap, Above, MinI
  <2>3. CASE Bis
    <3>1. CASE n - last_n > 1
      <4> DEFINE life == (n + last_n) \div 2
      <4>1. life \in Nat /\ last_n < life /\ life < n
        BY <3>1, <2>3 DEF Inv, Bis
      <4> HIDE DEF life
      <4>2. CASE Above(life)
        BY <4>1, <4>2, <3>1, <2>3, LenNat, AboveFn DEF Inv, Bis, Above, life
      <4>3. CASE ~Above(life)
        BY <4>1, <4>3, <3>1, <2>3, LenNat, AboveFn DEF Inv, Bis, Above, life
      <4> QED BY <4>2, <4>3
    <3>2. CASE ~(n - last_n > 1)
      BY <3>2, <2>3, LenNat DEF Inv, Bis, Above
    <3> QED BY <3>1, <3>2
  <2>4. CASE UNCHANGED vars
    BY <2>4 DEF Inv, vars, Above
  <2> QED BY <2>1, <2>2, <2>3, <2>4 DEF Next
<1>3. QED BY <1>1, <1>2, PTL DEF Spec

THEOREM Props == Spec => [](NoUnderflow /\ BracketInv /\ InRange)
<1>1. Inv => NoUnderflow /\ BracketInv /\ InRange
  BY LenNat DEF Inv, NoUnderflow, BracketInv, InRange, Above
<1>2. QED BY <1>1, Safety, PTL

THEOREM Progress == Spec => [][Variant]_vars
<1>1. Inv /\ [Next]_vars => [Variant]_vars
  <2> SUFFICES ASSUME Inv, [Next]_vars PROVE [Variant]_vars
    OBVIOUS
  <2>1. CASE Dbl
    BY <2>1, LenNat, AboveFn DEF Inv, Dbl, Above, Variant
  <2>2. CASE Cap
    BY <2>2 DEF Cap, Variant
  <2>3. CASE Bis
    <3>1. CASE n - last_n > 1
      <4> DEFINE life == (n + last_n) \div 2
      <4>1. life \in Nat /\ last_n < life /\ life < n
        BY <3>1, <2>3 DEF Inv, Bis
      <4> HIDE DEF life
      <4> QED BY <4>1, <3>1, <2>3 DEF Inv, Bis, Variant, life
    <3>2. CASE ~(n - last_n > 1)
      BY <3>2, <2>3 DEF Bis, Variant
    <3> QED BY <3>1, <3>2
  <2>4. CASE UNCHANGED vars
    BY <2>4 DEF vars, Variant
  <2> QED BY <2>1, <2>2, <2>3, <2>4 DEF Next
<1>2. QED BY <1>1, Safety, PTL DEF Spec

\* C20: on a pattern that stays above exactly up to some lag the search returns the first lag that is not above,
\* or the last lag of the series if every lag is above (ResultLaw of HalfLife.tla, for EVERY length)
Monotone == \A p \in 1..(Len - 1), q \in 1..(Len - 1) : (p < q /\ above[q]) => above[p]
ResultChar == (pc = "done" /\ Len >= 2 /\ Monotone) =>
                 /\ n \in 1..(Len - 1)
                 /\ \A k \in 1..(n - 1) : above[k]
                 /\ ~above[n] \/ n = Len - 1

THEOREM Result == Spec => []ResultChar
<1>1. Inv => ResultChar
  <2> SUFFICES ASSUME Inv, pc = "done", Len >= 2, Monotone PROVE
                      n \in 1..(Len - 1) /\ (\A k \in 1..(n - 1) : above[k]) /\ (~above[n] \/ n = Len - 1)
    BY DEF ResultChar
  <2>1. n \in Nat /\ last_n \in Nat /\ last_n <= n /\ n <= Len - 1 /\ n - last_n <= 1 /\ n # 0
        /\ (last_n = 0 \/ Above(last_n)) /\ (~Above(n) \/ n = Len - 1)
    BY LenNat DEF Inv
  <2>2. n \in 1..(Len - 1)
    BY <2>1, LenNat
  <2>3. \A k \in 1..(n - 1) : above[k]
    <3> TAKE k \in 1..(n - 1)
    <3>1. last_n >= 1 /\ k <= last_n /\ above[last_n] /\ last_n \in 1..(Len - 1)
      BY <2>1, LenNat DEF Above
    <3> QED BY <3>1, <2>1, LenNat DEF Monotone
  <2>4. ~above[n] \/ n = Len - 1
    BY <2>1, <2>2, LenNat DEF Above
  <2> QED BY <2>2, <2>3, <2>4
<1>2. QED BY <1>1, Safety, PTL
=============================================================================
