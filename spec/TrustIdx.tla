------------------------------- MODULE TrustIdx -------------------------------
(* Closed forms of what the library's lowered adaptors YIELD and DECLARE, as       *)
(* functions of the source length and the parameter: TrustedIter.tla checks with   *)
(* TLC that they agree with Yield / Decl of the combinator trees (ClosedFormsAgree, *)
(* every parameter in the band) and TrustProof.tla proves with the TLA+ proof       *)
(* system that declared = yielded = the required length for EVERY source length,    *)
(* lag, window and k.                                                               *)
EXTENDS Integers

MinT(a, b) == IF a <= b THEN a ELSE b
MaxT(a, b) == IF a >= b THEN a ELSE b
AbsT(n) == IF n < 0 THEN -n ELSE n
INFT == 1000000      \* std::iter::repeat

\* shift / vshift:  n > 0: chain(rep(na), take(src, L-na));  n < 0: chain(skip(src, na), rep(na))
YShift(L, n) == LET na == AbsT(n) IN
                IF L <= na THEN L
                ELSE IF n > 0 THEN na + MinT(L - na, L)
                ELSE IF n < 0 THEN MaxT(0, L - na) + na
                ELSE L
\* vdiff:  n > 0: chain(rep(na), zip(src, skip(src, na)));  n < 0: chain(zip(skip(src, na), src), rep(na))
YDiff(L, n) == LET na == AbsT(n) IN
               IF L <= na THEN L
               ELSE IF n > 0 THEN na + MinT(L, MaxT(0, L - na))
               ELSE IF n < 0 THEN MinT(MaxT(0, L - na), L) + na
               ELSE L
\* vpct_change:  n > 0: zip(chain(rep(na), take(src, L-na)), src);  n < 0 as vdiff
YPct(L, n) == LET na == AbsT(n) IN
              IF L <= na THEN L
              ELSE IF n > 0 THEN MinT(na + MinT(L - na, L), L)
              ELSE IF n < 0 THEN MinT(MaxT(0, L - na), L) + na
              ELSE L
\* vpartition / varg_partition with v valid elements: take(chain(filter(src -> v) | src, repeat), k+1) or take(src, k+1)
YPartition(L, v, k, sort) ==
    IF v <= k + 1
    THEN IF ~sort THEN MinT(k + 1, MinT(INFT, v + INFT)) ELSE MinT(k + 1, MinT(INFT, L + INFT))
    ELSE MinT(k + 1, L)
\* rolling_custom_iter:  zip(src, chain(rep(w-1), src))
YRolling(L, w) == MinT(L, (w - 1) + L)
\* the subtraction len - n_abs of the lowering is on unsigned integers: it is only evaluated behind the guard
ShiftSubtractionGuarded(L, n) == (~(L <= AbsT(n))) => L - AbsT(n) >= 0
=============================================================================
