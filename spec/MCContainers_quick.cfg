SPECIFICATION Spec
CONSTANTS
  MaxLen = 4
  MaxCap = 5
INVARIANTS AccessorsAgree RingLive WriteMapOK SetOneOK EmitCont
CHECK_DEADLOCK FALSE
