SPECIFICATION Spec
CONSTANTS
  MaxLen = 4
  MaxCap = 5
INVARIANTS AccessorsAgree RingLive WriteMapOK SetOneOK SortOK DerivedAgree EmitCont
CHECK_DEADLOCK FALSE
