SPECIFICATION Spec
CONSTANTS
  MaxLen = 4
  MaxCap = 5
INVARIANTS AccessorsAgree RingLive WriteMapOK SetOneOK SortOK DerivedAgree DynForwards EmitCont
CHECK_DEADLOCK FALSE
