SPECIFICATION Spec
CONSTANTS
  MaxLen = 4
  MaxCap = 5
INVARIANTS AccessorsAgree RingLive EmitCont
CHECK_DEADLOCK FALSE
