SPECIFICATION Spec
CONSTANTS
  Kinds = {"unit"}
INVARIANTS Laws EmitTime
CHECK_DEADLOCK FALSE
