SPECIFICATION Spec
CONSTANTS
  Kinds = {"unit", "nat"}
INVARIANTS Laws EmitTime
CHECK_DEADLOCK FALSE
