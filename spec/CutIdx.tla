-------------------------------- MODULE CutIdx --------------------------------
(* Membership of a value in the k-th interval of an edge vector, shared by        *)
(* MapOps.tla (CutOne / UniqueBin, TLC over every edge vector within a bound) and *)
(* CutProof.tla (every edge vector of every length, TLA+ proof system).           *)
EXTENDS Integers
InBin(b, k, x, right) == IF right THEN b[k] < x /\ x <= b[k + 1] ELSE b[k] <= x /\ x < b[k + 1]
=============================================================================
