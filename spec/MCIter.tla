------------------------------- MODULE MCIter -------------------------------
EXTENDS TrustedIter, Json
CONSTANT ValSet
ElemDef == ValSet \cup {NULL}

SrcSeq == [i \in 1..L |-> 10 + i - 1]
Items ==
    CASE kind \in {"titer", "fill", "clip", "to_trust", "to_trust_f"} -> SrcSeq
      [] kind = "map" -> [i \in 1..L |-> SrcSeq[i] + 100]
      [] kind \in {"shift", "vshift"} -> DefShift(SrcSeq, p, NULL)
      [] kind \in {"pipe2", "pipe3"} -> DefShift(DefShift(SrcSeq, p, NULL), q, NULL)
      [] OTHER -> <<>>                    \* only the count is compared

\* a constant-level law: evaluate it once
ConstructionOnce == (kind = "titer" /\ L = 0) => ConstructionTruthful /\ ClosedFormsAgree

EmitIter ==
    Exhausted =>
      PrintT(<<"REPLAY", ToJson([op |-> "iter", kind |-> kind, len |-> L, p |-> p, q |-> q, total |-> total,
                                 sched |-> sched, items |-> Items])>>)
=============================================================================
