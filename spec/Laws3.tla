-------------------------------- MODULE Laws3 --------------------------------
(***************************************************************************)
(* Units of measurement for the aggregations (see Laws1): AggOf / Agg2Of of  *)
(* Agg.tla are homogeneous in the unit the series is measured in.  Checked   *)
(* by TLC on every series (pair) of the bounded model at the initial states; *)
(* the degree table is emitted once for the harness.                         *)
(***************************************************************************)
EXTENDS Agg, Json

CONSTANT Units

Deg(k) == CASE k \in {"vsum", "vmean", "vmean_var_mean", "vstd", "vmin", "vmax", "vfirst", "vlast"} -> 1
            [] k = "vvar" -> 2
            [] OTHER -> 0                        \* vskew, vkurt
DegA(k) == CASE k = "vcov" -> 1 [] OTHER -> 0
DegB(k) == CASE k = "vcov" -> 1 [] OTHER -> 0

InUnit(x, u) == [j \in 1..Len(x) |-> IF x[j] = NULL THEN NULL ELSE u * x[j]]

NormE(e) == CASE e[1] = 7 -> LET q == ProdFrom(e, 3) IN ESq(IF QZero(q) THEN 0 ELSE e[2], q)
              [] e[1] = 8 -> EQ(AffValue(e))
              [] e[1] = 3 -> EQ(<<e[2], 1>>)
              [] e[1] = 6 -> EQ(<<e[2], e[3]>>)
              [] OTHER    -> e
TimesE(e, c) == LET n == NormE(e) IN
                CASE n[1] = 1 -> EQ(QMul(<<n[2], n[3]>>, <<c, 1>>))
                  [] n[1] = 2 -> ESq(n[2], QMul(<<n[3], n[4]>>, <<c * c, 1>>))
                  [] OTHER    -> n
SameE(a, b) ==
    \/ a = b
    \/ a[1] = 1 /\ b[1] = 1 /\ QEq(<<a[2], a[3]>>, <<b[2], b[3]>>)
    \/ a[1] = 2 /\ b[1] = 2 /\ QEq(<<a[3], a[4]>>, <<b[3], b[4]>>) /\ (a[2] = b[2] \/ a[3] = 0)

Homogeneous3 ==
    (i = 0 /\ ~Pairs) =>
        \A k \in AggKeys, u \in Units :
            SameE(NormE(AggOf(k, InUnit(s, u), mp)), TimesE(AggOf(k, s, mp), IPow(u, Deg(k))))
Homogeneous3P ==
    (i = 0 /\ Pairs) =>
        \A k \in Agg2Keys, ua \in Units, ub \in Units :
            SameE(NormE(Agg2Of(k, InUnit(s, ua), InUnit(t, ub), mp)),
                  TimesE(Agg2Of(k, s, t, mp), IPow(ua, DegA(k)) * IPow(ub, DegB(k))))

EmitLaws3 ==
    (s = <<>> /\ mp = 0 /\ i = 0) =>
        PrintT(<<"REPLAY", ToJson([op |-> "laws3",
                                   deg  |-> [k \in AggKeys |-> Deg(k)],
                                   dega |-> [k \in Agg2Keys |-> DegA(k)],
                                   degb |-> [k \in Agg2Keys |-> DegB(k)]])>>)
=============================================================================
