SPECIFICATION Spec
CONSTANTS
  MaxLen = 5
  Alphabet <- TermAlphabet
INVARIANTS StartLeI Sound EmitWF
PROPERTY Total
CHECK_DEADLOCK FALSE
