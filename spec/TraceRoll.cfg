SPECIFICATION TraceSpec
CONSTANTS
  MaxLen = 1000000
  MaxW = 1000
  Elem = {0}
INVARIANTS NoDrift MomentsAgree OutDef LenOK MaskLaw CacheInWindow
POSTCONDITION TraceAccepted
CHECK_DEADLOCK FALSE
