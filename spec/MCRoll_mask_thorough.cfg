SPECIFICATION Spec
CONSTANTS
  MaxLen = 7
  MaxW = 9
  VR = 1
  ValSet = {0, 1}
  WithNull = TRUE
  Elem <- ElemDef
INVARIANTS OutDef LenOK MaskLaw EmitRoll
CHECK_DEADLOCK FALSE
