SPECIFICATION Spec
CONSTANTS
  MaxLen = 4
  MaxW = 6
  ValA <- SignedA
  ValB = {0, 1, 2}
  WithNull = TRUE
  ElemA <- ElemADef
  ElemB <- ElemBDef
INVARIANTS NoDrift2 OutDef2 LenOK2 MaskLaw2 PerfectLineZeroResidual EmitRoll2
PROPERTY AppendOnly2
CHECK_DEADLOCK FALSE
