SPECIFICATION Spec
CONSTANTS
  MaxLen = 4
  MaxWExtra = 3
INVARIANTS TypeOK OncePerPosition RightWindow LenOK ReadsInBounds WriteOnce InitAtDone DegenerateIsClean Emit
PROPERTY Terminates
CHECK_DEADLOCK FALSE
