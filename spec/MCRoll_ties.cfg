SPECIFICATION Spec
CONSTANTS
  MaxLen = 14
  MaxW = 5
  VR = 1
  ValSet = {0, 1, 2}
  WithNull = TRUE
  Elem <- ElemDef
INVARIANTS NoDrift MomentsAgree OutDef LenOK MaskLaw CacheInWindow EmitFull
CHECK_DEADLOCK FALSE
