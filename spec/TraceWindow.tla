----------------------------- MODULE TraceWindow -----------------------------
(***************************************************************************)
(* Trace validation for Window: events recorded from the real rolling       *)
(* drivers (instrumented input container, instrumented output buffer,       *)
(* recording callback) are replayed through the protocol of Window.tla.     *)
(* One ndjson file holds many runs; a "begin" event starts the next one.    *)
(*                                                                         *)
(*   begin  form len len2 w          parameters of the run                  *)
(*   uget   s i        unchecked element read of series s                   *)
(*   uslice s a b      unchecked slice read [a, b) of series s              *)
(*   call   k start end start2 end2 lo hi lo2 hi2 r                         *)
(*                     k-th callback invocation with the decoded arguments  *)
(*                     and the value r it returned                          *)
(*   uset   i          unchecked write of output slot i                     *)
(*   init   unwritten  the buffer is exposed as initialised                 *)
(*   out    vals       the output the caller finally sees                   *)
(*   panic  oob        the call panicked                                    *)
(*                                                                         *)
(* Reads are constrained by the safety envelope only (in bounds); which     *)
(* elements a driver chooses to read is its own business.  Invocations,     *)
(* writes and the final output are constrained by the required protocol.    *)
(***************************************************************************)
EXTENDS Window, Json, IOUtils

Rec == ndJsonDeserialize(IOEnv.TRACE)

VARIABLES l,      \* next event
          res     \* results returned by the invocations of the current run
tvars == <<vars, l, res>>

Ev == Rec[l]
IsEv(e) == l <= Len(Rec) /\ Ev.e = e /\ l' = l + 1

TInit ==
    /\ l = 1 /\ res = <<>>
    /\ len = 0 /\ len2 = 0 /\ w = 1 /\ form = "apply" /\ body = "iter"
    /\ pc = "done" /\ pos = 0 /\ calls = <<>> /\ written = {} /\ reads = {} /\ err = {}

TBegin ==
    /\ IsEv("begin")
    /\ pc \in {"done", "panic"}                 \* the previous run ended properly
    /\ len' = Ev.len /\ len2' = Ev.len2 /\ w' = Ev.w /\ form' = Ev.form
    /\ body' = "iter"                           \* not observable, not used by the required protocol
    /\ pc' = "run" /\ pos' = 0 /\ calls' = <<>> /\ written' = {} /\ reads' = {} /\ err' = {}
    /\ res' = <<>>

TUget ==
    /\ IsEv("uget") /\ pc = "run"
    /\ reads' = {<<Ev.s, Ev.i>>}
    /\ UNCHANGED <<len, len2, w, form, body, pc, pos, calls, written, err, res>>

TUslice ==
    /\ IsEv("uslice") /\ pc = "run"
    /\ reads' = {<<Ev.s, Ev.a, Ev.b>>}
    /\ UNCHANGED <<len, len2, w, form, body, pc, pos, calls, written, err, res>>

\* The k-th invocation must be the one for position k = pos and carry the required arguments.
CallArgsOK ==
    LET i == pos IN
    IF form \in Slicing
    THEN /\ Ev.lo = ReqLo(i) /\ Ev.hi = ReqHi(i)
         /\ form = "custom2" => (Ev.lo2 = ReqLo(i) /\ Ev.hi2 = ReqHi(i))
    ELSE /\ Ev["end"] = i
         /\ (form \in {"idx", "apply2", "idx2"}) => Ev.end2 = i
         /\ \/ ReqStart(i) = ANY
            \/ /\ Ev.start = ReqStart(i)
               /\ (form \in {"idx", "apply2", "idx2"}) => Ev.start2 = ReqStart(i)

TCall ==
    /\ IsEv("call") /\ pc = "run"
    /\ Ev.k = pos
    /\ \/ Degenerate                \* only the safety envelope is required of a degenerate run
       \/ (pos < len /\ CallArgsOK)
    /\ calls' = Append(calls, IF Degenerate THEN <<NONE, 0, 0>>
                              ELSE <<IF form \in Slicing THEN NONE ELSE ReqStart(pos), ReqLo(pos), ReqHi(pos)>>)
    /\ pos' = pos + 1
    /\ res' = Append(res, Ev.r)
    /\ reads' = {}
    /\ UNCHANGED <<len, len2, w, form, body, pc, written, err>>

TUset ==
    /\ IsEv("uset") /\ pc = "run"
    /\ err' = err \cup (IF Ev.i \in written THEN {"double_write"} ELSE {})
                  \cup (IF Ev.i >= len THEN {"write_out_of_bounds"} ELSE {})
    /\ written' = written \cup {Ev.i}
    /\ reads' = {}
    /\ UNCHANGED <<len, len2, w, form, body, pc, pos, calls, res>>

\* exposure of the buffer: every slot must have been written (InitAtDone judges it)
TExpose ==
    /\ IsEv("init") /\ pc = "run"
    /\ err' = err \cup (IF written = 0..(len - 1) THEN {} ELSE {"exposed_uninitialised"})
    /\ reads' = {}
    /\ UNCHANGED <<len, len2, w, form, body, pc, pos, calls, written, res>>

\* the caller-visible output: position i holds the result of invocation i, one per input
TOut ==
    /\ IsEv("out") /\ pc = "run"
    /\ \/ Degenerate /\ \A j \in 1..Len(Ev.vals) : \E k \in 1..Len(res) : res[k] = Ev.vals[j]
       \/ ~Degenerate /\ pos = len /\ Ev.vals = res
    /\ pc' = "done" /\ reads' = {}
    /\ UNCHANGED <<len, len2, w, form, body, pos, calls, written, err, res>>

\* a panic is acceptable only for a degenerate request, and never one provoked by an
\* out-of-bounds access that the instrumented container intercepted
TPanic ==
    /\ IsEv("panic") /\ pc = "run"
    /\ Degenerate
    /\ pc' = "panic" /\ reads' = {}
    /\ UNCHANGED <<len, len2, w, form, body, pos, calls, written, err, res>>

TNext == TBegin \/ TUget \/ TUslice \/ TCall \/ TUset \/ TExpose \/ TOut \/ TPanic

TraceSpec == TInit /\ [][TNext]_tvars

\* the invariants of Window that make sense on a trace
TOncePerPosition == (pc = "run" /\ ~Degenerate) => OncePerPosition
TRightWindow     == (pc = "run" /\ ~Degenerate) => RightWindow

TraceAccepted ==
    LET d == TLCGet("stats").diameter IN
    IF d - 1 = Len(Rec) THEN TRUE
    ELSE Print(<<"TRACE-REJECTED", d, Rec[d]>>, FALSE)
=============================================================================
