------------------------------- MODULE MCRoll2 -------------------------------
EXTENDS RollKernels2, Json
CONSTANTS ValA, ValB, WithNull
SignedA == {0 - 1, 0, 2}
ElemADef == ValA \cup (IF WithNull THEN {NULL} ELSE {})
ElemBDef == ValB \cup (IF WithNull THEN {NULL} ELSE {})
EmitRoll2 ==
    TRUE =>
        PrintT(<<"REPLAY", ToJson([op |-> "roll2", w |-> w, mp |-> mp, xs |-> as, ys |-> bs, exp |-> out])>>)
SignedB == {0 - 2, 0, 1, 3}
\* simulation runs emit the complete history only
EmitFull2 ==
    Len(as) = MaxLen =>
        PrintT(<<"REPLAY", ToJson([op |-> "roll2", w |-> w, mp |-> mp, xs |-> as, ys |-> bs, exp |-> out])>>)
=============================================================================
