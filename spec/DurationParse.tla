---------------------------- MODULE DurationParse ----------------------------
(***************************************************************************)
(* TimeDelta::parse of tea-time/src/timedelta.rs: the duration scanner.      *)
(*                                                                         *)
(* A string is a sequence of SYMBOLS (each stands for one character, two     *)
(* stand for long digit runs):                                               *)
(*   "1" "2"            digits                                               *)
(*   "+" "-"            signs                                                *)
(*   n s u m h d w o y  the letters units are made of                        *)
(*   "x"                a letter that occurs in no unit                      *)
(*   "." " "            other ASCII                                          *)
(*   "E"                a two-byte character (not ASCII: neither digit nor   *)
(*                      letter for the scanner)                              *)
(*   "B"                a 20-digit literal: too big for a 64-bit integer     *)
(*   "M"                the literal 9223372036854775807: the largest one     *)
(*   "T"                the digit run 1500: sub-second terms that reach whole *)
(*                      seconds ("1500ms" is 1 s + 500 ms)                    *)
(*   "K"                the digit run 1000: sub-second terms that are EXACTLY *)
(*                      whole seconds ("-1000ms" is -1 s, no fraction left)   *)
(*   "Z"                the digit run 0000000000000000000007 (22 characters):  *)
(*                      a small number written with more digits than any      *)
(*                      64-bit integer has - leading zeros carry no value     *)
(*                                                                         *)
(* The scanner walks the characters; at every non-digit that is not the      *)
(* first character it parses the text since `start` as a signed integer,     *)
(* then collects the maximal run of letters as the unit.  The machine below  *)
(* is the REQUIRED scanner: wherever the text is not an integer, the unit    *)
(* is missing or unknown, or a product overflows, it ends in "err" - it      *)
(* never panics (Total).  WellFormed / Meaning are the grammar and its       *)
(* semantics, defined independently of the machine; Sound says that the      *)
(* machine computes the meaning of every well-formed string.                 *)
(***************************************************************************)
EXTENDS Integers, Sequences, TLC

CONSTANT MaxLen
CONSTANT Alphabet          \* the symbols strings are built from

Digits  == {"1", "2", "T", "K", "Z"}
BigNums == {"B", "M"}
Signs   == {"+", "-"}
Letters == {"n", "s", "u", "m", "h", "d", "w", "o", "y", "x"}
IsDigitSym(ch) == ch \in Digits \cup BigNums       \* made of ASCII digits only
IsLetter(ch)   == ch \in Letters

UnitsSecs == [u \in {<<"s">>, <<"m">>, <<"h">>, <<"d">>, <<"w">>} |->
                CASE u = <<"s">> -> 1 [] u = <<"m">> -> 60 [] u = <<"h">> -> 3600 [] u = <<"d">> -> 86400 [] u = <<"w">> -> 604800]
UnitsNs == [u \in {<<"n", "s">>, <<"u", "s">>, <<"m", "s">>} |->
                CASE u = <<"n", "s">> -> 1 [] u = <<"u", "s">> -> 1000 [] u = <<"m", "s">> -> 1000000]
UnitsMonths == [u \in {<<"m", "o">>, <<"y">>} |-> IF u = <<"y">> THEN 12 ELSE 1]
KnownUnit(u) == u \in DOMAIN UnitsSecs \cup DOMAIN UnitsNs \cup DOMAIN UnitsMonths

\* sentinels far outside the numbers a short digit run can denote (TLC cannot compare a string
\* with an integer)
INVALID == 0 - 2000000000
HUGE    == 2000000000
\* the integer a text denotes: optional sign, then one or more digits
\* a fine integer that the model's arithmetic does not follow (terms beyond ModelMax would
\* overflow TLC's integers once multiplied by a unit): such strings end in the state "beyond",
\* for which the property fixes totality only
BEYOND   == 1999999999
ModelMax == 22222
RECURSIVE DigitsVal(_, _)
DigitsVal(t, acc) == IF t = <<>> THEN acc
                     ELSE IF acc > ModelMax THEN acc            \* saturate: already beyond
                     ELSE DigitsVal(Tail(t), IF Head(t) = "Z" THEN (IF acc = 0 THEN 7 ELSE ModelMax + 1)
                                             ELSE IF Head(t) = "T" THEN acc * 10000 + 1500
                                             ELSE IF Head(t) = "K" THEN acc * 10000 + 1000
                                             ELSE acc * 10 + (IF Head(t) = "1" THEN 1 ELSE 2))
NumOf(t) ==
    LET body == IF t # <<>> /\ Head(t) \in Signs THEN Tail(t) ELSE t
        neg == t # <<>> /\ Head(t) = "-"
    IN  IF body = <<>> \/ \E k \in 1..Len(body) : ~IsDigitSym(body[k]) THEN INVALID
        ELSE IF \E k \in 1..Len(body) : body[k] \in BigNums
             THEN (IF Len(body) = 1 /\ body[1] = "M" THEN HUGE ELSE INVALID)      \* out of range
        ELSE IF DigitsVal(body, 0) > ModelMax THEN BEYOND
        ELSE IF neg THEN 0 - DigitsVal(body, 0) ELSE DigitsVal(body, 0)

(* ---- the scanner machine ---------------------------------------------------------- *)

VARIABLES s,        \* the string
          pos,      \* 1-based index of the character the outer loop examines next
          start,    \* where the text of the current number begins
          acc,      \* <<months, secs, ns>> accumulated so far
          st        \* "scan" | "ok" | "err" | "beyond"
vars == <<s, pos, start, acc, st>>

Seqs(A, n) == UNION {[1..k -> A] : k \in 0..n}

Init == s \in Seqs(Alphabet, MaxLen) /\ pos = 1 /\ start = 1 /\ acc = <<0, 0, 0>> /\ st = "scan"

\* index of the first non-letter at or after k (Len(s)+1 if the letters run to the end)
RECURSIVE RunEnd(_)
RunEnd(k) == IF k > Len(s) \/ ~IsLetter(s[k]) THEN k ELSE RunEnd(k + 1)

\* add n units of `unit` nanoseconds to <<months, secs, ns>>, carrying whole seconds (0 <= ns < 10^9
\* is kept, so that no intermediate leaves TLC's integers)
NSPS == 1000000000
AddNs(a, n, unit) ==
    LET per == NSPS \div unit                        \* units per second
        ns1 == a[3] + (n % per) * unit               \* < 2 * 10^9
    IN  <<a[1], a[2] + (n \div per) + (ns1 \div NSPS), ns1 % NSPS>>

Step ==
    /\ st = "scan"
    /\ IF pos > Len(s)
       THEN st' = "ok" /\ UNCHANGED <<pos, start, acc>>
       ELSE LET ch == s[pos] IN
            IF IsDigitSym(ch) \/ pos = 1
            THEN pos' = pos + 1 /\ UNCHANGED <<start, acc, st>>
            ELSE LET n == NumOf(SubSeq(s, start, pos - 1))
                     j == RunEnd(pos)
                     unit == SubSeq(s, pos, j - 1)
                 IN  IF n = BEYOND /\ unit # <<>> /\ KnownUnit(unit)
                     THEN st' = "beyond" /\ UNCHANGED <<pos, start, acc>>
                     ELSE IF n \in {INVALID, HUGE, BEYOND} \/ unit = <<>> \/ ~KnownUnit(unit)
                     THEN st' = "err" /\ UNCHANGED <<pos, start, acc>>
                     ELSE /\ acc' = CASE unit \in DOMAIN UnitsSecs   -> <<acc[1], acc[2] + n * UnitsSecs[unit], acc[3]>>
                                      [] unit \in DOMAIN UnitsNs     -> AddNs(acc, n, UnitsNs[unit])
                                      [] unit \in DOMAIN UnitsMonths -> <<acc[1] + n * UnitsMonths[unit], acc[2], acc[3]>>
                          \* the character that ended the unit starts the next number's text and is
                          \* not examined by the outer loop
                          /\ start' = j /\ pos' = j + 1 /\ st' = "scan"
    /\ UNCHANGED s

Next == Step
Spec == Init /\ [][Next]_vars /\ WF_vars(Next)

(* ---- the grammar, independently ------------------------------------------------------ *)

\* split off one term  [sign] digit+ letter+  from the front; <<>> if there is none
TermEnd(t) ==
    LET a == IF t # <<>> /\ t[1] \in Signs THEN 2 ELSE 1
        RECURSIVE dEnd(_)
        dEnd(k) == IF k <= Len(t) /\ t[k] \in Digits THEN dEnd(k + 1) ELSE k
        RECURSIVE lEnd(_)
        lEnd(k) == IF k <= Len(t) /\ IsLetter(t[k]) THEN lEnd(k + 1) ELSE k
        b == dEnd(a)
        e == lEnd(b)
    IN  IF b > a /\ e > b /\ KnownUnit(SubSeq(t, b, e - 1)) /\ NumOf(SubSeq(t, 1, b - 1)) # BEYOND
        THEN <<b, e>> ELSE <<>>

RECURSIVE WellFormed(_)
WellFormed(t) == IF t = <<>> THEN TRUE
                 ELSE LET te == TermEnd(t) IN te # <<>> /\ WellFormed(SubSeq(t, te[2], Len(t)))
RECURSIVE Meaning(_)
Meaning(t) ==
    IF t = <<>> THEN <<0, 0, 0>>
    ELSE LET te == TermEnd(t)
             n == NumOf(SubSeq(t, 1, te[1] - 1))
             u == SubSeq(t, te[1], te[2] - 1)
             r == Meaning(SubSeq(t, te[2], Len(t)))
         IN  CASE u \in DOMAIN UnitsSecs   -> <<r[1], r[2] + n * UnitsSecs[u], r[3]>>
               [] u \in DOMAIN UnitsNs     -> AddNs(r, n, UnitsNs[u])
               [] u \in DOMAIN UnitsMonths -> <<r[1] + n * UnitsMonths[u], r[2], r[3]>>

(* ---- properties -------------------------------------------------------------------------- *)

\* C18: any string whatsoever yields a value or an error
Total == <>(st \in {"ok", "err", "beyond"})
\* the text handed to the integer parser is a slice of the string
StartLeI == st = "scan" => (start >= 1 /\ start <= pos /\ pos <= Len(s) + 2)
\* C18: every well-formed duration string parses to the sum of its terms
Sound == (st \in {"ok", "err", "beyond"} /\ WellFormed(s)) => (st = "ok" /\ acc = Meaning(s))
\* the sub-second digit stays a proper digit
NsDigit == acc[3] >= 0 /\ acc[3] < NSPS
=============================================================================
