------------------------------- MODULE MCRoll -------------------------------
(* Bounded configuration of RollKernels with the history carried (MCHist of   *)
(* DESIGN section 4): every series over the alphabet up to MaxLen, every      *)
(* window 1..MaxW, every min_periods.  A behaviour is emitted when the        *)
(* history is complete; all its prefixes are states of the same run.          *)
(* (and are emitted as cases of their own: empty and short inputs included).  *)
EXTENDS RollKernels, Json

CONSTANTS ValSet, WithNull, VR
ElemDef == ValSet \cup (IF WithNull THEN {NULL} ELSE {})
\* signed alphabet -VR..VR (cfg files cannot hold negative literals)
Signed == (0 - VR)..VR
\* a spread-out alphabet with a negative member
Spread == {0 - 2, 0, 1, 3}

\* every state is emitted: every series of every length 0..MaxLen is a conformance case
EmitRoll ==
    TRUE =>
        PrintT(<<"REPLAY", ToJson([op |-> "roll1", w |-> w, mp |-> mp, xs |-> xs, exp |-> out])>>)
\* simulation runs emit the complete history only
EmitFull ==
    Len(xs) = MaxLen =>
        PrintT(<<"REPLAY", ToJson([op |-> "roll1", w |-> w, mp |-> mp, xs |-> xs, exp |-> out])>>)
=============================================================================
