SPECIFICATION Spec
CONSTANTS
  MaxLen = 5
  MaxW = 7
  ValSet = {0, 1, 2}
  WithNull = TRUE
  VR = 1
  Elem <- ElemDef
INVARIANTS NoDrift MomentsAgree OutDef LenOK MaskLaw CacheInWindow EmitRoll
PROPERTY AppendOnly
CHECK_DEADLOCK FALSE
