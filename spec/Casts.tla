-------------------------------- MODULE Casts --------------------------------
(***************************************************************************)
(* The null and cast algebra of tea-dtype (isnone.rs, cast.rs, number.rs).    *)
(*                                                                         *)
(* Element types are tags; Opt(t) is Option<t>.  A value is a member of a     *)
(* small universe of VALUE CLASSES that exercise every branch of a cast:      *)
(* NULL, the integers -1 0 1 2 200 300 (300 does not fit u8, -1 no unsigned   *)
(* type), 1.5 (truncation), +inf, -inf.                                       *)
(*                                                                         *)
(* CastExp(v, from, to) is what the property requires of Cast<to> for from:   *)
(*   <<"null">>          the target's null                                    *)
(*   <<"val", n, d>>     the number n/d                                       *)
(*   <<"lang">>          whatever the language's `as` gives (wrap / saturate: *)
(*                       outside what TLC's integers can express)             *)
(*   <<"panic">>         a clean panic is the defined outcome                 *)
(*   <<"any">>           not fixed by the property                            *)
(* Laws checked by TLC on the definition: NullPreserved, OptionComposes,      *)
(* PredicatesCoherent, and the comparator axioms (total preorder, nulls last  *)
(* in both directions).                                                       *)
(***************************************************************************)
EXTENDS Integers, Sequences, FiniteSets, TLC

NULL == 0 - 99999
HALF == 777001          \* 1.5
PINF == 777002
NINF == 777003
\* a 64-bit integer that no float holds exactly and that sits just above a midpoint of two
\* neighbouring f32 values (2^53 + 2^29 + 1): converting it to f32 directly and via f64 differ.
\* TLC cannot hold it; like the infinities it is a value class whose image is the language's own.
BIG53 == 777004
\* a NaN whose sign bit is set (what -NaN, 0.0/0.0 or inf-inf give at run time on x86): for the
\* library any NaN is THE null of a float type, so this class must behave exactly like NULL
\* everywhere - casts, predicates and, above all, the sort comparators (IEEE total order would put
\* it before -inf).  Only bare float types hold it (Some(NaN) is the excluded non-canonical null).
NEGNAN == 777005
Canon(v) == IF v = NEGNAN THEN NULL ELSE v

Floats   == {"f32", "f64"}
SInts    == {"i32", "i64", "isize"}
UInts    == {"u8", "u64", "usize"}
Base     == Floats \cup SInts \cup UInts \cup {"bool"}
\* Option<t> is the tag "opt_t" (TLC cannot mix strings and tuples in one set)
Opt(t)   == "opt_" \o t
OptTags  == {Opt(t) : t \in Base}
IsOpt(t) == t \in OptTags
Inner(t) == IF IsOpt(t) THEN CHOOSE b \in Base : Opt(b) = t ELSE t
Types    == Base \cup OptTags
TimeTypes == {"datetime", "timedelta", "time"}

CanNull(t) == IsOpt(t) \/ t \in Floats \/ t = "string" \/ t \in TimeTypes

Ints == {0 - 1, 0, 1, 2, 200, 300}
\* the value classes a type can hold
RECURSIVE HasVal(_, _)
HasVal(t, v) ==
    IF IsOpt(t) THEN v = NULL \/ HasVal(Inner(t), v)
    ELSE CASE t \in Floats -> v \in Ints \cup {NULL, NEGNAN, HALF, PINF, NINF}
           [] t = "i32"    -> v \in Ints
           [] t \in SInts  -> v \in Ints \cup {BIG53}
           [] t = "u8"     -> v \in {0, 1, 2, 200}
           [] t \in UInts  -> v \in {0, 1, 2, 200, 300, BIG53}
           [] t = "bool"   -> v \in {0, 1}
Universe == Ints \cup {NULL, NEGNAN, HALF, PINF, NINF, BIG53}

InRange(v, t) ==       \* integer v representable in the integer type t
    CASE t \in SInts -> TRUE
      [] t = "u8"    -> v >= 0 /\ v <= 255
      [] t \in UInts -> v >= 0

\* cast of a NON-NULL value class between base types
CastVal(v, to) ==
    CASE to \in Floats -> IF v = HALF THEN <<"val", 3, 2>> ELSE IF v \in {PINF, NINF, BIG53} THEN <<"lang">> ELSE <<"val", v, 1>>
      [] to \in SInts \cup UInts ->
            IF v = HALF THEN <<"val", 1, 1>>                           \* truncation toward zero
            ELSE IF v \in {PINF, NINF, BIG53} THEN <<"lang">>          \* saturation / wrap / identity
            ELSE IF InRange(v, to) THEN <<"val", v, 1>> ELSE <<"lang">> \* wrap
      [] to = "bool" -> IF v \in {0, 1} THEN <<"val", v, 1>> ELSE <<"panic">>

CastExp(v0, from, to) ==
    LET v == Canon(v0) IN
    IF v = NULL
    THEN IF CanNull(to) THEN <<"null">>
         ELSE IF IsOpt(from) THEN <<"panic">>       \* None has no image in a type without a null
         ELSE <<"any">>                             \* NaN -> integer / bool: the language's conversion
    ELSE IF IsOpt(to) THEN CastVal(v, Inner(to))
    ELSE CastVal(v, to)

(* ---- String / &str as a SOURCE -------------------------------------------------------- *)

\* A string source carries the TEXT of a value class: "None" (the string null), the decimal text of an
\* integer, "1.5", "inf" / "-inf", and MID32 - a decimal text that lies just above the midpoint of two
\* neighbouring f32 values, closer to it than f64 can tell ("1.0000000596046448": reading it as f64
\* first lands ON the midpoint, and narrowing then rounds to even - the other neighbour).  Casting
\* text to a number is the language's own parse of that text INTO THE TARGET TYPE (one rounding);
\* text that is not a literal of the target type has no image (a clean panic).
MID32 == 777006
\* the text " None": the null text with a leading blank - NOT the string null (a cast that normalises
\* whitespace turns a non-null into a null), and not a literal of any numeric type
PADNONE == 777007
StrVals == Ints \cup {NULL, HALF, PINF, NINF, MID32, PADNONE}
StrCastExp(v, to) ==
    IF v = NULL THEN (IF CanNull(to) THEN <<"null">> ELSE <<"any">>)
    ELSE IF v = PADNONE THEN <<"panic">>
    ELSE LET tb == Inner(to) IN
         CASE tb \in Floats -> IF v \in Ints THEN <<"val", v, 1>> ELSE IF v = HALF THEN <<"val", 3, 2>> ELSE <<"lang">>
           [] tb \in SInts \cup UInts -> IF v \in Ints /\ InRange(v, tb) THEN <<"val", v, 1>> ELSE <<"panic">>
           [] OTHER -> <<"any">>
\* C15: the text of an integer casts like the integer itself wherever it fits the target, the string
\* null follows the null rule, and Option targets compose
StrCoherent ==
    \A to \in Types, v \in StrVals :
        /\ (CanNull(to) /\ Inner(to) # "bool") => (v = NULL <=> StrCastExp(v, to) = <<"null">>)
        /\ (v \in Ints /\ Inner(to) \in SInts \cup UInts \cup Floats /\ (Inner(to) \in Floats \/ InRange(v, Inner(to))))
              => StrCastExp(v, to) = CastExp(v, "i64", to)
        /\ (v # NULL /\ to \in Base) => StrCastExp(v, Opt(to)) = StrCastExp(v, to)

\* C15: a cast never turns a null into a non-null or vice versa when the target has a null
NullPreserved ==
    \A from \in Types, to \in Types, v \in Universe :
        (HasVal(from, v) /\ CanNull(to)) =>
            (Canon(v) = NULL <=> CastExp(v, from, to) = <<"null">>)
\* C15: casting composes through Option on either side
OptionComposes ==
    \A a \in Base, b \in Base, v \in Universe :
        (HasVal(a, v) /\ Canon(v) # NULL) =>
            /\ CastExp(v, Opt(a), Opt(b)) = CastExp(v, a, b)
            /\ CastExp(v, a, Opt(b)) = CastExp(v, a, b)
            /\ CastExp(v, Opt(a), b) = CastExp(v, a, b)

(* ---- null predicates ------------------------------------------------------------- *)

IsNoneV(v)  == Canon(v) = NULL
ToOptV(v)   == IF Canon(v) = NULL THEN <<>> ELSE <<v>>
\* into_cast::<T>() / T::inner_cast(x) re-wrap a value in T's KIND of container, element type kept: an
\* Option kind absorbs the null, a bare kind hands the value through (<<>> = None)
IntoKind(v, optKind) == IF optKind THEN ToOptV(v) ELSE <<Canon(v)>>
IntoKindCoherent ==
    \A v \in Universe : /\ (IntoKind(v, TRUE) = <<>>) <=> IsNoneV(v)
                         /\ IntoKind(v, FALSE) = <<Canon(v)>>
                         /\ ~IsNoneV(v) => IntoKind(v, TRUE) = IntoKind(v, FALSE)
PredicatesCoherent ==
    \A v \in Universe :
        /\ IsNoneV(v) <=> (ToOptV(v) = <<>>)
        /\ ~IsNoneV(v) => ToOptV(v)[1] = v             \* wrapping and unwrapping is the identity
        /\ IsNoneV(NULL)

(* ---- sort comparators ------------------------------------------------------------- *)

Num(v) == CASE v = HALF -> 15 [] v = PINF -> 100000 [] v = NINF -> 0 - 100000 [] v = BIG53 -> 90000 [] OTHER -> 10 * v
Sgn(x) == IF x < 0 THEN 0 - 1 ELSE IF x > 0 THEN 1 ELSE 0
\* ascending by value, nulls last
Cmp(a0, b0) == LET a == Canon(a0)  b == Canon(b0) IN
             IF a = NULL /\ b = NULL THEN 0 ELSE IF a = NULL THEN 1 ELSE IF b = NULL THEN 0 - 1
             ELSE Sgn(Num(a) - Num(b))
\* descending by value, nulls last
CmpRev(a0, b0) == LET a == Canon(a0)  b == Canon(b0) IN
                IF a = NULL /\ b = NULL THEN 0 ELSE IF a = NULL THEN 1 ELSE IF b = NULL THEN 0 - 1
                ELSE Sgn(Num(b) - Num(a))
TotalPreorder(C(_, _)) ==
    \A a \in Universe, b \in Universe, c \in Universe :
        /\ C(a, a) = 0
        /\ C(a, b) = 0 - C(b, a)                                  \* total and antisymmetric up to equivalence
        /\ (C(a, b) <= 0 /\ C(b, c) <= 0) => C(a, c) <= 0         \* transitive
        /\ (C(a, b) = 0 /\ Canon(a) # NULL /\ Canon(b) # NULL) => Num(a) = Num(b)
NullsLast(C(_, _)) == \A a \in Universe, z \in {NULL, NEGNAN} : Canon(a) # NULL => C(a, z) < 0 /\ C(z, a) > 0
ComparatorAxioms == TotalPreorder(Cmp) /\ TotalPreorder(CmpRev) /\ NullsLast(Cmp) /\ NullsLast(CmpRev)
                    /\ \A a \in Universe, b \in Universe : (Canon(a) # NULL /\ Canon(b) # NULL) => CmpRev(a, b) = Cmp(b, a)

(* ---- durations: a compound value under the same comparators --------------------------- *)

\* a duration is <<months, exact part>>; <<NULL, 0>> is NaT.  "By value" is the lexicographic order
\* (calendar part first): two durations compare Equal only if they ARE equal.
TDNat == <<NULL, 0>>
TDUniverse == {<<m, x>> : m \in {0 - 1, 0, 1}, x \in {0 - 1, 0, 1}} \cup {TDNat}
TDCmp(a, b) == IF a = TDNat /\ b = TDNat THEN 0 ELSE IF a = TDNat THEN 1 ELSE IF b = TDNat THEN 0 - 1
               ELSE IF a[1] # b[1] THEN Sgn(a[1] - b[1]) ELSE Sgn(a[2] - b[2])
TDCmpRev(a, b) == IF a = TDNat /\ b = TDNat THEN 0 ELSE IF a = TDNat THEN 1 ELSE IF b = TDNat THEN 0 - 1
                  ELSE TDCmp(b, a)
TDAxioms ==
    \A a \in TDUniverse, b \in TDUniverse, d \in TDUniverse :
        /\ TDCmp(a, a) = 0 /\ TDCmp(a, b) = 0 - TDCmp(b, a)
        /\ (TDCmp(a, b) <= 0 /\ TDCmp(b, d) <= 0) => TDCmp(a, d) <= 0
        /\ TDCmp(a, b) = 0 => a = b                                  \* Equal only for equal durations
        /\ (a # TDNat) => TDCmp(a, TDNat) < 0 /\ TDCmpRev(a, TDNat) < 0

(* ---- enumeration ------------------------------------------------------------------- *)

VARIABLE c
vars == <<c>>
Init == c \in {[from |-> f, to |-> t, v |-> v] : f \in Types, t \in Types, v \in Universe}
             \cup {[from |-> f, to |-> t, v |-> v] : f \in Types, t \in {"string"} \cup TimeTypes, v \in {NULL, 1}}
             \cup {[from |-> f, to |-> t, v |-> v] : f \in TimeTypes, t \in Types, v \in {NULL, 1}}
             \cup {[from |-> "string", to |-> t, v |-> v] : t \in Types, v \in StrVals}
             \* text to text (&str -> String): the text itself, so nullness is kept - also for text NEAR the null text
             \cup {[from |-> "string", to |-> "string", v |-> v] : v \in {NULL, 1, PADNONE}}
Next == UNCHANGED vars
Spec == Init /\ [][Next]_vars
=============================================================================
