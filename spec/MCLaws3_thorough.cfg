SPECIFICATION Spec
CONSTANTS
  MaxLen = 5
  Pairs = FALSE
  ValSet <- SignedSet3
  ValSet2 = {0, 1}
  Elem <- ElemDef
  Elem2 <- Elem2Def
  Units = {2, 3, 5}
INVARIANTS Homogeneous3 EmitLaws3
CHECK_DEADLOCK FALSE
