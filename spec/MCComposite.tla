----------------------------- MODULE MCComposite -----------------------------
(* Half-life: the search machine of HalfLife.tla started from the `above`      *)
(* pattern of a concrete series; winsorize / Spearman: enumeration.            *)
EXTENDS Composite, Json

CONSTANTS HLMaxLen, SpLen, ValSet, Kinds, RampLens, ShiftHalves
ElemDef == ValSet \cup {NULL}

VARIABLES kind, s, t, mp, len, above, pc, n, last_n, i, pw
hl == INSTANCE HalfLife WITH MaxLen <- HLMaxLen
vars == <<kind, s, t, mp, len, above, pc, n, last_n, i, pw>>
HLKinds == {"half_life", "half_life_ramp", "half_life_shift"}

Init ==
    /\ kind \in Kinds
    /\ \/ /\ kind = "half_life"
          /\ s \in Seqs(ElemDef, HLMaxLen) /\ t = <<>>
          /\ mp \in {-1} \cup 1..Len(s)
       \* a persistent series (a ramp) of a length beyond the enumeration bound, under EVERY null
       \* mask: gaps inside the series make lags beyond the number of valid observations meaningful
       \/ /\ kind = "half_life_ramp"
          /\ \E L \in RampLens : s \in {[j \in 1..L |-> IF j \in M THEN NULL ELSE j] : M \in SUBSET (1..L)}
          /\ t = <<>> /\ mp \in {1, 2}
       \* a level shift: m values at one level, then m at another - the lag-k autocorrelation is
       \* exactly 1 - k/m, so it meets 1/2 EXACTLY at k = m/2 (a tie the bisection has to decide)
       \/ /\ kind = "half_life_shift"
          /\ \E m \in ShiftHalves, lv \in {<<0, 1>>, <<1, 0>>, <<0 - 1, 1>>} :
                 s = [j \in 1..(2 * m) |-> IF j <= m THEN lv[1] ELSE lv[2]]
          /\ t = <<>> /\ mp \in {1, 2}
       \/ /\ kind = "winsor"
          /\ s \in Seqs(ElemDef, MaxLen) /\ t = <<>> /\ mp = 0
       \/ /\ kind = "spearman"
          /\ s \in Seqs(ElemDef, SpLen) /\ t \in [1..Len(s) -> ElemDef]
          /\ mp \in {-1, 0, 3}
    /\ len = Len(s)
    \* where the autocorrelation is EXACTLY 1/2 the floating-point value may come out on either side:
    \* both resolutions are behaviours; the replay follows the one the library's own autocorrelation
    \* (vcorr_pearson of the series and its lag) takes
    /\ above \in IF kind \in HLKinds
                 THEN LET m0 == IF mp = -1 THEN Len(s) \div 2 ELSE mp
                          tieset == {k \in 1..(Len(s) - 1) : TieAtHalf(s, m0, k)}
                      IN  {[k \in 1..(Len(s) - 1) |-> IF k \in tieset THEN k \in up ELSE AboveHalf(s, m0, k)] :
                              up \in SUBSET tieset}
                 ELSE {[k \in 1..(Len(s) - 1) |-> FALSE]}
    /\ pc = IF kind \in HLKinds /\ Len(s) > 0 THEN "dbl" ELSE "done"
    /\ n = 0 /\ last_n = 0 /\ i = 0 /\ pw = 1

Next == hl!Next /\ UNCHANGED <<kind, s, t, mp>>
Spec == Init /\ [][Next]_vars /\ WF_vars(Next)

NoUnderflow == hl!NoUnderflow
PwIsPow     == hl!PwIsPow
InRange     == kind \in HLKinds => hl!InRange
ResultLaw   == kind \in HLKinds => hl!ResultLaw
Terminates  == hl!Terminates

SpearmanLaw == (kind = "spearman" /\ mp = -1) => SpearmanMonotoneInvariant(s, t) /\ SpearmanMonotoneInvariant(t, s)

Qs == {<<0, 1>>, <<1, 10>>, <<1, 4>>, <<1, 2>>}
Ks == {0, 1, 3}
EmitComposite ==
    pc = "done" =>
      PrintT(<<"REPLAY", ToJson(
        CASE kind \in HLKinds ->
               [op |-> "half_life", s |-> s, mp |-> mp,
                \* the exact lag is required of monotone patterns only; otherwise the range 0..len-1
                want |-> IF Len(s) >= 2 /\ hl!Monotone THEN n ELSE -1,
                \* lags whose autocorrelation is exactly 1/2, and how THIS behaviour resolves them
                ties |-> SetToSeq({k \in 1..(Len(s) - 1) : TieAtHalf(s, IF mp = -1 THEN Len(s) \div 2 ELSE mp, k)}),
                above |-> [k \in 1..(Len(s) - 1) |-> IF above[k] THEN 1 ELSE 0],
                machine |-> n]
          [] kind = "winsor" ->
               [op |-> "winsor", s |-> s,
                quantile |-> SetToSeq({[q |-> q, e |-> WinsorQuantile(s, q[1], q[2])] : q \in Qs}),
                median |-> SetToSeq({[k |-> k, e |-> WinsorMedian(s, k)] : k \in Ks}),
                sigma |-> SetToSeq({[k |-> k, e |-> WinsorSigma(s, k)] : k \in Ks})]
          [] kind = "spearman" ->
               [op |-> "spearman", s |-> s, t |-> t, mp |-> mp,
                e |-> DefSpearman(s, t, IF mp = -1 THEN Len(s) \div 2 ELSE mp)])>>)
=============================================================================
