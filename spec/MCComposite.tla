----------------------------- MODULE MCComposite -----------------------------
(* Half-life: the search machine of HalfLife.tla started from the `above`      *)
(* pattern of a concrete series; winsorize / Spearman: enumeration.            *)
EXTENDS Composite, Json

CONSTANTS HLMaxLen, SpLen, ValSet, Kinds, RampLens
ElemDef == ValSet \cup {NULL}

VARIABLES kind, s, t, mp, len, above, pc, n, last_n, i
hl == INSTANCE HalfLife WITH MaxLen <- HLMaxLen
vars == <<kind, s, t, mp, len, above, pc, n, last_n, i>>

Init ==
    /\ kind \in Kinds
    /\ \/ /\ kind = "half_life"
          /\ s \in Seqs(ElemDef, HLMaxLen) /\ t = <<>>
          /\ mp \in {-1} \cup 1..Len(s)
       \* a persistent series (a ramp) of a length beyond the enumeration bound, under EVERY null
       \* mask: gaps inside the series make lags beyond the number of valid observations meaningful
       \/ /\ kind = "half_life_ramp"
          /\ \E L \in RampLens : s \in {[j \in 1..L |-> IF j \in M THEN NULL ELSE j] : M \in SUBSET (1..L)}
          /\ t = <<>> /\ mp \in {1, 2}
       \/ /\ kind = "winsor"
          /\ s \in Seqs(ElemDef, MaxLen) /\ t = <<>> /\ mp = 0
       \/ /\ kind = "spearman"
          /\ s \in Seqs(ElemDef, SpLen) /\ t \in [1..Len(s) -> ElemDef]
          /\ mp \in {-1, 0, 3}
    /\ len = Len(s)
    /\ above = IF kind \in {"half_life", "half_life_ramp"}
               THEN [k \in 1..(Len(s) - 1) |-> AboveHalf(s, IF mp = -1 THEN Len(s) \div 2 ELSE mp, k)]
               ELSE [k \in 1..(Len(s) - 1) |-> FALSE]
    /\ pc = IF kind \in {"half_life", "half_life_ramp"} /\ Len(s) > 0 THEN "dbl" ELSE "done"
    /\ n = 0 /\ last_n = 0 /\ i = 0

Next == hl!Next /\ UNCHANGED <<kind, s, t, mp>>
Spec == Init /\ [][Next]_vars /\ WF_vars(Next)

NoUnderflow == hl!NoUnderflow
InRange     == kind \in {"half_life", "half_life_ramp"} => hl!InRange
ResultLaw   == kind \in {"half_life", "half_life_ramp"} => hl!ResultLaw
Terminates  == hl!Terminates

SpearmanLaw == (kind = "spearman" /\ mp = -1) => SpearmanMonotoneInvariant(s, t) /\ SpearmanMonotoneInvariant(t, s)

Qs == {<<0, 1>>, <<1, 10>>, <<1, 4>>, <<1, 2>>}
Ks == {0, 1, 3}
EmitComposite ==
    pc = "done" =>
      PrintT(<<"REPLAY", ToJson(
        CASE kind \in {"half_life", "half_life_ramp"} ->
               [op |-> "half_life", s |-> s, mp |-> mp,
                \* the exact lag is required of monotone patterns only; otherwise the range 0..len-1
                want |-> IF Len(s) >= 2 /\ hl!Monotone
                            /\ ~\E k \in 1..(Len(s) - 1) : TieAtHalf(s, IF mp = -1 THEN Len(s) \div 2 ELSE mp, k)
                         THEN n ELSE -1,
                machine |-> n]
          [] kind = "winsor" ->
               [op |-> "winsor", s |-> s,
                quantile |-> SetToSeq({[q |-> q, e |-> WinsorQuantile(s, q[1], q[2])] : q \in Qs}),
                median |-> SetToSeq({[k |-> k, e |-> WinsorMedian(s, k)] : k \in Ks}),
                sigma |-> SetToSeq({[k |-> k, e |-> WinsorSigma(s, k)] : k \in Ks})]
          [] kind = "spearman" ->
               [op |-> "spearman", s |-> s, t |-> t, mp |-> mp,
                e |-> DefSpearman(s, t, IF mp = -1 THEN Len(s) \div 2 ELSE mp)])>>)
=============================================================================
