------------------------------- MODULE MCLaws3 -------------------------------
EXTENDS Laws3
CONSTANTS ValSet, ValSet2
SignedSet == {0 - 1, 0, 2}
SignedSet3 == {0 - 2, 0, 1, 3}
ElemDef  == ValSet \cup {NULL}
Elem2Def == ValSet2 \cup {NULL}
=============================================================================
