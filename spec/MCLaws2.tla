------------------------------- MODULE MCLaws2 -------------------------------
EXTENDS Laws2
CONSTANTS VRA, VRB, WithNull
ElemADef == ((0 - VRA)..VRA) \cup (IF WithNull THEN {NULL} ELSE {})
ElemBDef == ((0 - VRB)..VRB) \cup (IF WithNull THEN {NULL} ELSE {})
=============================================================================
