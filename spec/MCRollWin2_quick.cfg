SPECIFICATION W2Spec
CONSTANTS
  MaxLen = 1
  MaxW = 3
  VRA = 1
  VRB = 1
  WithNull = TRUE
  ElemA <- ElemADef
  ElemB <- ElemBDef
INVARIANTS Step2OK NoDrift2W Window2Bounded
CHECK_DEADLOCK FALSE
