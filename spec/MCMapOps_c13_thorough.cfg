SPECIFICATION Spec
CONSTANTS
  MaxLen = 5
  ValSet = {0, 1, 2}
  Kinds = {"lag", "fill", "clip"}
  CutLen = 6
  Elem <- ElemDef
INVARIANTS Laws ZeroSignFree EmitMap
CHECK_DEADLOCK FALSE
