------------------------------ MODULE WindowIdx ------------------------------
(***************************************************************************)
(* The index arithmetic of the rolling drivers, in one place: Window.tla     *)
(* (the driver machine TLC explores for every form, body and length within   *)
(* the bound) and WindowProof.tla (the same arithmetic proved in-bounds for  *)
(* EVERY length and window with the TLA+ proof system) both use these        *)
(* operators, so the proof is about the machine that is model-checked and    *)
(* trace-validated against the real drivers.                                 *)
(***************************************************************************)
EXTENDS Integers

MinI(a, b) == IF a <= b THEN a ELSE b
MaxI(a, b) == IF a >= b THEN a ELSE b

\* the window a body works with: the *_to bodies clamp it to the length first
EffWOf(toBody, w, len) == IF toBody THEN MinI(w, len) ELSE w
\* is there an element leaving the window at position i, and which one
HasStart(i, effw) == i >= effw - 1
StartOf(i, effw)  == i - effw + 1
\* half-open range [lo, hi) handed to a slice callback at position i
LoOf(i, effw) == MaxI(0, i - effw + 1)
HiOf(i)       == i + 1
=============================================================================
