SPECIFICATION Spec
CONSTANTS
  MaxLen = 6
  MaxW = 8
  VR = 1
  ValSet <- Spread
  WithNull = TRUE
  Elem <- ElemDef
INVARIANTS NoDrift MomentsAgree OutDef LenOK MaskLaw CacheInWindow EmitRoll
PROPERTY AppendOnly
CHECK_DEADLOCK FALSE
