------------------------------ MODULE MCRollWin ------------------------------
EXTENDS RollWin
CONSTANTS VR, WithNull
Signed == (0 - VR)..VR
ElemDef == Signed \cup (IF WithNull THEN {NULL} ELSE {})
=============================================================================
