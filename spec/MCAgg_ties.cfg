SPECIFICATION TiesSpec
CONSTANTS
  MaxLen = 8
  Pairs = FALSE
  TiesLen = 7
  ValSet <- SignedSet
  ValSet2 = {0, 1}
  Elem <- ElemDef
  Elem2 <- Elem2Def
INVARIANTS FoldRefines FoldPrefix NullTransparent Emit1
PROPERTY Terminates
CHECK_DEADLOCK FALSE
