SPECIFICATION Spec
CONSTANTS
  MaxLen = 2
  MaxW = 3
  VRA = 1
  VRB = 1
  WithNull = TRUE
  ElemA <- ElemADef
  ElemB <- ElemBDef
  Units = {1, 2, 3}
INVARIANTS Homogeneous2 EmitLaws2
CHECK_DEADLOCK FALSE
