------------------------------- MODULE MCLaws1 -------------------------------
EXTENDS Laws1
CONSTANTS VR, WithNull
Signed == (0 - VR)..VR
ElemDef == Signed \cup (IF WithNull THEN {NULL} ELSE {})
=============================================================================
