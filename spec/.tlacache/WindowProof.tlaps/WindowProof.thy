(* automatically generated -- do not edit manually *)
theory WindowProof imports Constant Zenon begin
ML_command \<open> writeln ("*** TLAPS PARSED\n"); \<close>
consts
  "isReal" :: c
  "isa_slas_a" :: "[c,c] => c"
  "isa_bksl_diva" :: "[c,c] => c"
  "isa_perc_a" :: "[c,c] => c"
  "isa_peri_peri_a" :: "[c,c] => c"
  "isInfinity" :: c
  "isa_lbrk_rbrk_a" :: "[c] => c"
  "isa_less_more_a" :: "[c] => c"

end
