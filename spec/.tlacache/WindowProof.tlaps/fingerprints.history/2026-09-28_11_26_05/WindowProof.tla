----------------------------- MODULE WindowProof -----------------------------
(***************************************************************************)
(* The rolling-driver index protocol for EVERY series length and EVERY       *)
(* window (TLC explores Window.tla up to a bound; this module removes the    *)
(* bound for the index arithmetic, which is where out-of-bounds reads and    *)
(* missed / doubled output slots would come from).                           *)
(*                                                                         *)
(* State: pos (next position), written (output slots written so far) and    *)
(* the unchecked accesses of the last step - the element read at the         *)
(* position itself, the element leaving the window (apply forms) and the     *)
(* half-open slice [lo, hi) (custom forms).  One step per position, exactly  *)
(* as Step of Window.tla with the operators of WindowIdx.tla.                *)
(*                                                                         *)
(* Proved (tlapm, SMT + PTL):  Spec => []Inv  and  Spec => [][NoDouble]_vars *)
(*   Inv: pos in 0..Len, written = 0..pos-1 (so: every slot once, all of     *)
(*        them at the end), every index read lies in 0..Len-1, and           *)
(*        0 <= lo <= hi <= Len.                                              *)
(***************************************************************************)
EXTENDS WindowIdx, TLAPS

CONSTANTS Len,      \* series length
          W,        \* requested window
          ToBody    \* TRUE: a buffer-writing body (clamps the window first)
ASSUME LenNat == Len \in Nat
ASSUME WPos   == W \in Nat /\ W >= 1           \* a zero window is rejected before the run phase
ASSUME ToBool == ToBody \in BOOLEAN

EffW == EffWOf(ToBody, W, Len)

VARIABLES pos, written, rd, lo, hi
vars == <<pos, written, rd, lo, hi>>

Init == pos = 0 /\ written = {} /\ rd = {} /\ lo = 0 /\ hi = 0

Step ==
    /\ pos < Len
    /\ rd' = {pos} \cup (IF HasStart(pos, EffW) THEN {StartOf(pos, EffW)} ELSE {})
    /\ lo' = LoOf(pos, EffW) /\ hi' = HiOf(pos)
    /\ written' = written \cup {pos}
    /\ pos' = pos + 1
Next == Step
Spec == Init /\ [][Next]_vars

Inv ==
    /\ pos \in 0..Len
    /\ written = 0..(pos - 1)
    /\ rd \subseteq 0..(Len - 1)
    /\ lo \in 0..Len /\ hi \in 0..Len /\ lo <= hi
\* no output slot is written twice
NoDouble == pos \notin written
\* at the end every slot has been written
Complete == pos = Len => written = 0..(Len - 1)

LEMMA EffWPos == pos \in 0..Len /\ pos < Len => EffW \in Nat /\ EffW >= 1
  BY LenNat, WPos, ToBool DEF EffW, EffWOf, MinI

THEOREM Safety == Spec => []Inv
<1>1. Init => Inv
  BY LenNat DEF Init, Inv
<1>2. Inv /\ [Next]_vars => Inv'
  <2> SUFFICES ASSUME Inv, [Next]_vars PROVE Inv'
    OBVIOUS
  <2>1. CASE Step
    <3>1. EffW \in Nat /\ EffW >= 1
      BY <2>1, EffWPos DEF Inv, Step
    <3>2. pos \in 0..Len /\ pos < Len
      BY <2>1 DEF Inv, Step
    <3>3. pos' \in 0..Len
      BY <2>1, <3>2, LenNat DEF Step
    <3>4. written' = 0..(pos' - 1)
      BY <2>1, <3>2, LenNat DEF Inv, Step
    <3>5. rd' \subseteq 0..(Len - 1)
      BY <2>1, <3>1, <3>2, LenNat DEF Step, HasStart, StartOf
    <3>6. lo' \in 0..Len /\ hi' \in 0..Len /\ lo' <= hi'
      BY <2>1, <3>1, <3>2, LenNat DEF Step, LoOf, HiOf, MaxI
    <3> QED
      BY <3>3, <3>4, <3>5, <3>6 DEF Inv
  <2>2. CASE UNCHANGED vars
    BY <2>2 DEF Inv, vars
  <2> QED
    BY <2>1, <2>2 DEF Next
<1>3. QED
  BY <1>1, <1>2, PTL DEF Spec

THEOREM WriteOnce == Spec => [][NoDouble]_vars
<1>1. Inv => NoDouble
  BY LenNat DEF Inv, NoDouble
<1>2. QED
  BY <1>1, Safety, PTL

THEOREM AllWritten == Spec => []Complete
<1>1. Inv => Complete
  BY DEF Inv, Complete
<1>2. QED
  BY <1>1, Safety, PTL
=============================================================================
