SPECIFICATION Spec
CONSTANTS
  MaxLen = 4
  ValSet = {0, 1, 2}
  Kinds = {"lag"}
  CutLen = 6
  Elem <- ElemDef
INVARIANTS Laws EmitMap
CHECK_DEADLOCK FALSE
