SPECIFICATION Spec
CONSTANTS
  MaxLen = 5
  ValSet = {0, 1, 2}
  Kinds = {"uniq", "cut", "cutseq"}
  CutLen = 6
  Elem <- ElemDef
INVARIANTS Laws EmitMap
CHECK_DEADLOCK FALSE
