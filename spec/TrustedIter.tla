----------------------------- MODULE TrustedIter -----------------------------
(***************************************************************************)
(* The trusted-length contract of tea-core (trusted.rs, linspace.rs) and of  *)
(* the adaptors tea-map / tevec build on it.                                 *)
(*                                                                         *)
(* An iterator that claims TrustedLen must, from ANY point of its            *)
(* consumption onwards, yield exactly as many items as the upper bound of    *)
(* its current size hint.  Collectors rely on it to size and fill an         *)
(* uninitialised allocation without bounds checks.                           *)
(*                                                                         *)
(* Two layers are specified.                                                 *)
(*  (1) Construction: every library adaptor is lowered (Lower) to the std    *)
(*      combinators it is built from - chain / take / skip / zip / repeat_n  *)
(*      / filter - wrapped in the library's TrustIter with a DECLARED        *)
(*      length.  Yield(t) is the number of items the combinator tree really  *)
(*      produces, Decl(t) what the wrapper announces.  Truthful: they agree  *)
(*      for every parameter (lags beyond the series, k >= len, empty input). *)
(*  (2) Consumption: the library's own iterator state machines - TrustIter   *)
(*      (declared length, items handed out so far) and Linspace (index, len) *)
(*      - under any interleaving of next / next_back.  HintExact: announced  *)
(*      = remaining, in every reachable state.                               *)
(* A consumption state is (kind, parameters, kf, kb): kf items taken from    *)
(* the front, kb from the back; `sched` remembers the order for replay.      *)
(* Steps: next, next_back (double-ended kinds), and nth(k) incl. the         *)
(* overshooting ones that drain the iterator.                                *)
(***************************************************************************)
EXTENDS MapOps, TLC, TrustIdx

CONSTANT MaxSrc          \* source lengths 0..MaxSrc

(* ---- (1) combinator terms --------------------------------------------------------- *)

\* terms are records: leaf [op |-> "src", n |-> len] / [op |-> "rep", n |-> k]
Src(n)        == [op |-> "src", n |-> n]
Rep(n)        == [op |-> "rep", n |-> n]
Chain(a, b)   == [op |-> "chain", a |-> a, b |-> b]
Take(a, k)    == [op |-> "take", a |-> a, k |-> k]
Skip(a, k)    == [op |-> "skip", a |-> a, k |-> k]
Zip(a, b)     == [op |-> "zip", a |-> a, b |-> b]
Filter(a, k)  == [op |-> "filter", a |-> a, k |-> k]          \* keeps k of a's items
Inf           == [op |-> "inf"]                               \* std::iter::repeat
Trust(a, len) == [op |-> "trust", a |-> a, len |-> len]       \* TrustIter::new(a, len)

INFTY == 1000000
RECURSIVE Yield(_)
Yield(t) ==
    CASE t.op = "src"    -> t.n
      [] t.op = "rep"    -> t.n
      [] t.op = "inf"    -> INFTY
      [] t.op = "chain"  -> Min2(INFTY, Yield(t.a) + Yield(t.b))
      [] t.op = "take"   -> Min2(t.k, Yield(t.a))
      [] t.op = "skip"   -> Max2(0, Yield(t.a) - t.k)
      [] t.op = "zip"    -> Min2(Yield(t.a), Yield(t.b))
      [] t.op = "filter" -> t.k
      [] t.op = "trust"  -> Yield(t.a)
\* what the outermost iterator announces before consumption
RECURSIVE Decl(_)
Decl(t) ==
    CASE t.op = "trust" -> t.len
      [] t.op = "chain" -> Min2(INFTY, Decl(t.a) + Decl(t.b))
      [] t.op = "take"  -> Min2(t.k, Decl(t.a))
      [] t.op = "skip"  -> Max2(0, Decl(t.a) - t.k)
      [] t.op = "zip"   -> Min2(Decl(t.a), Decl(t.b))
      [] OTHER          -> Yield(t)
\* subtraction underflow anywhere in the construction (usize arithmetic) is a panic
NoUnderflow(L, nabs) == L >= nabs

\* the library adaptors as they are built (L = source length, v = number of valid elements)
LowerVShift(L, n) ==                      \* shift and vshift
    LET na == Abs(n) IN
    IF L <= na THEN Rep(L)
    ELSE IF n > 0 THEN Trust(Chain(Rep(na), Take(Src(L), L - na)), L)
    ELSE IF n < 0 THEN Trust(Chain(Skip(Src(L), na), Rep(na)), L)
    ELSE Src(L)
LowerVDiff(L, n) ==
    LET na == Abs(n) IN
    IF L <= na THEN Rep(L)
    ELSE IF n > 0 THEN Trust(Chain(Rep(na), Zip(Src(L), Skip(Src(L), na))), L)
    ELSE IF n < 0 THEN Trust(Chain(Zip(Skip(Src(L), na), Src(L)), Rep(na)), L)
    ELSE Src(L)
LowerVPct(L, n) ==
    LET na == Abs(n) IN
    IF L <= na THEN Rep(L)
    ELSE IF n > 0 THEN Trust(Zip(Chain(Rep(na), Take(Src(L), L - na)), Src(L)), L)
    ELSE IF n < 0 THEN Trust(Chain(Zip(Skip(Src(L), na), Src(L)), Rep(na)), L)
    ELSE Src(L)
LowerPartition(L, v, k, sort) ==           \* vpartition and varg_partition
    IF v <= k + 1
    THEN IF ~sort THEN Trust(Take(Chain(Filter(Src(L), v), Inf), k + 1), k + 1)
         ELSE Trust(Take(Chain(Src(L), Inf), k + 1), k + 1)
    ELSE Trust(Take(Src(L), k + 1), k + 1)                   \* truncate(k + 1) of the selection
LowerRollingIter(L, w) ==
    Trust(Zip(Src(L), Chain(Rep(w - 1), Src(L))), L)

Truthful(t) == Decl(t) = Yield(t)
\* the closed forms of TrustIdx.tla (which TrustProof.tla proves equal to the required length for EVERY source
\* length and parameter) are what the combinator trees yield - checked here over the whole band
ClosedFormsAgree ==
    \A LL \in 0..MaxSrc :
      /\ \A n \in -(LL + 3)..(LL + 3) :
            /\ Yield(LowerVShift(LL, n)) = YShift(LL, n)
            /\ Yield(LowerVDiff(LL, n))  = YDiff(LL, n)
            /\ Yield(LowerVPct(LL, n))   = YPct(LL, n)
            /\ ShiftSubtractionGuarded(LL, n)
      /\ \A v \in 0..LL, k \in 0..(LL + 2), sort \in BOOLEAN :
            Yield(LowerPartition(LL, v, k, sort)) = YPartition(LL, v, k, sort)
      /\ \A w \in 1..(LL + 2) : Yield(LowerRollingIter(LL, w)) = YRolling(LL, w)
\* the LOWER bound of the size hint a term announces: a filter promises nothing, the std combinators
\* propagate the bounds of their parts, the library's wrapper announces its declared length as both bounds
RECURSIVE HintLo(_)
HintLo(t) ==
    CASE t.op = "trust"  -> t.len
      [] t.op = "filter" -> 0
      [] t.op = "chain"  -> Min2(INFTY, HintLo(t.a) + HintLo(t.b))
      [] t.op = "take"   -> Min2(t.k, HintLo(t.a))
      [] t.op = "skip"   -> Max2(0, HintLo(t.a) - t.k)
      [] t.op = "zip"    -> Min2(HintLo(t.a), HintLo(t.b))
      [] OTHER           -> Yield(t)
\* an exact-size iterator announces lower = upper = what it yields
ExactHint(t) == HintLo(t) = Decl(t) /\ Truthful(t)

\* C09: every adaptor announces what it yields, for every parameter in the band
ConstructionTruthful ==
    \A LL \in 0..MaxSrc :
      /\ \A n \in -(LL + 3)..(LL + 3) :
            /\ Truthful(LowerVShift(LL, n)) /\ Yield(LowerVShift(LL, n)) = LL     \* length preserved
            /\ Truthful(LowerVDiff(LL, n))  /\ Yield(LowerVDiff(LL, n)) = LL
            /\ Truthful(LowerVPct(LL, n))   /\ Yield(LowerVPct(LL, n)) = LL
      /\ \A v \in 0..LL, k \in 0..(LL + 2), sort \in BOOLEAN :
            Truthful(LowerPartition(LL, v, k, sort)) /\ Yield(LowerPartition(LL, v, k, sort)) = k + 1
      /\ \A w \in 1..(LL + 2) : Truthful(LowerRollingIter(LL, w)) /\ Yield(LowerRollingIter(LL, w)) = LL
      \* the partition adaptors wrap a FILTER: only the wrapper makes their hint exact
      /\ \A v \in 0..LL, k \in 0..(LL + 2), sort \in BOOLEAN : ExactHint(LowerPartition(LL, v, k, sort))
      /\ ExactHint(Trust(Filter(Src(LL), LL), LL)) /\ HintLo(Filter(Src(LL), LL)) = 0

(* ---- (2) consumption machines -------------------------------------------------------- *)

Kinds == {"titer", "map", "shift", "vshift", "vdiff", "vpct", "fill", "clip", "partition", "argpartition",
          "rolling_iter", "linspace", "range", "pipe2", "pipe3", "to_trust", "to_trust_f"}
\* kinds whose real type is double-ended (the boxed dyn TrustedLen results are forward-only)
DoubleEnded == {"titer", "map", "linspace", "range", "to_trust", "to_trust_f"}

VARIABLES kind, L, p, q,     \* adaptor, source length, two integer parameters
          total,             \* items the iterator yields in all (Yield of its lowering)
          decl,              \* length it declared at construction
          kf, kb,            \* consumed from front / back
          sched              \* "F" / "B" steps so far
vars == <<kind, L, p, q, total, decl, kf, kb, sched>>

Term ==
    CASE kind \in {"titer", "map", "fill", "clip"} -> Src(L)
      [] kind = "to_trust" -> Trust(Src(L), L)               \* the wrapper itself, on its concrete type
      \* ... around a source whose OWN size hint promises nothing (a filter keeping every item announces
      \* (0, Some(L))): the wrapper still announces exactly what was declared, lower bound included -
      \* std adaptors stacked on it (enumerate / zip / skip driven from the back) call len(), which
      \* demands lower = upper
      [] kind = "to_trust_f" -> Trust(Filter(Src(L), L), L)
      [] kind \in {"shift", "vshift"} -> LowerVShift(L, p)
      [] kind = "vdiff" -> LowerVDiff(L, p)
      [] kind = "vpct"  -> LowerVPct(L, p)
      [] kind \in {"partition", "argpartition"} -> LowerPartition(L, q, p, FALSE)
      [] kind = "rolling_iter" -> LowerRollingIter(L, p)
      [] kind \in {"linspace", "range"} -> Src(L)
      [] kind = "pipe2" -> \* vshift(q) of vshift(p): the inner one has length L
                           LowerVShift(L, q)
      [] kind = "pipe3" -> LowerVShift(L, q)

Init ==
    /\ kind \in Kinds
    /\ L \in 0..MaxSrc
    /\ p \in CASE kind \in {"shift", "vshift", "vdiff", "vpct", "pipe2", "pipe3"} -> -(L + 3)..(L + 3)
              [] kind \in {"partition", "argpartition"} -> 0..(L + 2)            \* kth
              [] kind = "rolling_iter" -> 1..(L + 2)                             \* window
              [] OTHER -> {0}
    /\ q \in CASE kind \in {"partition", "argpartition"} -> 0..L                  \* valid count
              [] kind \in {"pipe2", "pipe3"} -> -(L + 3)..(L + 3)
              [] OTHER -> {0}
    /\ total = Yield(Term) /\ decl = Decl(Term)
    /\ kf = 0 /\ kb = 0 /\ sched = <<>>

Remaining == total - kf - kb
\* what the iterator announces now: the library's TrustIter counts down the items it has
\* handed out; Linspace announces len - index with next_back shrinking len
Announced == decl - kf - kb

NextF ==
    /\ Remaining > 0
    /\ kf' = kf + 1 /\ sched' = Append(sched, "F")
    /\ UNCHANGED <<kind, L, p, q, total, decl, kb>>
NextB ==
    /\ kind \in DoubleEnded /\ Remaining > 0
    /\ kb' = kb + 1 /\ sched' = Append(sched, "B")
    /\ UNCHANGED <<kind, L, p, q, total, decl, kf>>

\* nth(k): skip k items and take the next one - Iterator::nth, also the first step of skip(k).
\* When fewer than k+1 items remain the iterator is drained and nothing is returned; whatever an
\* adaptor does to make nth fast, it has consumed min(k+1, Remaining) items afterwards.
NthStr(k) == CASE k = 0 -> "N0" [] k = 1 -> "N1" [] k = 2 -> "N2" [] k = 3 -> "N3" [] k = 4 -> "N4"
               [] k = 5 -> "N5" [] k = 6 -> "N6" [] k = 7 -> "N7" [] OTHER -> "N8"
NextNth(k) ==
    /\ Remaining > 0
    /\ kf' = kf + Min2(k + 1, Remaining) /\ sched' = Append(sched, NthStr(k))
    /\ UNCHANGED <<kind, L, p, q, total, decl, kb>>

\* nth_back(k) on the double-ended kinds
NthBackStr(k) == CASE k = 0 -> "M0" [] k = 1 -> "M1" [] k = 2 -> "M2" [] k = 3 -> "M3" [] k = 4 -> "M4"
                   [] k = 5 -> "M5" [] k = 6 -> "M6" [] k = 7 -> "M7" [] OTHER -> "M8"
NextNthBack(k) ==
    /\ kind \in DoubleEnded /\ Remaining > 0
    /\ kb' = kb + Min2(k + 1, Remaining) /\ sched' = Append(sched, NthBackStr(k))
    /\ UNCHANGED <<kind, L, p, q, total, decl, kf>>
\* terminal operations: count (C), last (L), fold (S) consume everything that is left, in order
Drain(op) ==
    /\ Remaining > 0
    /\ kf' = kf + Remaining /\ sched' = Append(sched, op)
    /\ UNCHANGED <<kind, L, p, q, total, decl, kb>>

Next == \/ NextF \/ NextB
        \/ \E k \in 0..Min2(MaxSrc + 1, 8) : NextNth(k) \/ NextNthBack(k)
        \/ \E op \in {"C", "L", "S"} : Drain(op)
Spec == Init /\ [][Next]_vars /\ WF_vars(Next)

Exhausted == Remaining = 0

\* C09: from any point of the consumption onwards the announced length is what remains
HintExact == Announced = Remaining
\* C09 / C13: shift-like adaptors preserve the length of their input
LenPreservedInv ==
    kind \in {"titer", "map", "shift", "vshift", "vdiff", "vpct", "fill", "clip", "rolling_iter", "pipe2", "pipe3",
              "linspace", "range", "to_trust", "to_trust_f"} => total = L
PartitionLen == kind \in {"partition", "argpartition"} => total = p + 1
\* a trusted collector allocates Announced slots and writes Remaining items
CollectSafe == (kf = 0 /\ kb = 0) => decl = total

Terminates == <>Exhausted
=============================================================================
