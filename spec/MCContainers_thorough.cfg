SPECIFICATION Spec
CONSTANTS
  MaxLen = 6
  MaxCap = 7
INVARIANTS AccessorsAgree RingLive WriteMapOK SetOneOK SortOK DerivedAgree DynForwards EmitCont
CHECK_DEADLOCK FALSE
