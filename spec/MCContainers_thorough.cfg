SPECIFICATION Spec
CONSTANTS
  MaxLen = 6
  MaxCap = 7
INVARIANTS AccessorsAgree RingLive WriteMapOK EmitCont
CHECK_DEADLOCK FALSE
