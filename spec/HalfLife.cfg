SPECIFICATION Spec
CONSTANTS
  MaxLen = 10
INVARIANTS NoUnderflow BracketInv InRange ResultLaw
PROPERTY Terminates
CHECK_DEADLOCK FALSE
