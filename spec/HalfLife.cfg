SPECIFICATION Spec
CONSTANTS
  MaxLen = 10
INVARIANTS PwIsPow NoUnderflow BracketInv InRange ResultLaw
PROPERTY Terminates
CHECK_DEADLOCK FALSE
