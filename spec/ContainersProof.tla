--------------------------- MODULE ContainersProof ---------------------------
(***************************************************************************)
(* The slot -> cell maps of the ring buffer and of strided / reversed views   *)
(* for EVERY capacity, head, offset and non-zero stride: a ring slot lies in  *)
(* the storage and two different slots of the same ring (at most `cap` of     *)
(* them) never share a cell; two different slots of a strided view never      *)
(* share a cell.  This is what "every output slot is written exactly once,    *)
(* nothing outside" rests on when a caller hands a wrapped VecDeque or a      *)
(* stepped / reversed ndarray view to a `*_to` function (Containers.tla:      *)
(* WriteMapOK, RingLive - checked by TLC within a bound with the same         *)
(* operators, ContIdx.tla).  Proved with tlapm (SMT).                         *)
(***************************************************************************)
EXTENDS ContIdx, TLAPS

LEMMA ModFacts == \A x \in Int, c \in Nat \ {0} : (x % c) \in 0..(c - 1) /\ x = c * (x \div c) + (x % c) /\ (x \div c) \in Int
  OBVIOUS

LEMMA MulMonoC == \A c \in Nat, q \in Int, r \in Int : q <= r => c * q <= c * r
  OBVIOUS

THEOREM RingInStorage == \A cap \in Nat \ {0} : \A head \in 0..(cap - 1), i \in Nat : RingCell(head, cap, i) \in 1..cap
  BY ModFacts DEF RingCell

THEOREM RingInjective ==
    \A cap \in Nat \ {0} : \A head \in 0..(cap - 1), i \in 0..(cap - 1), j \in 0..(cap - 1) :
        i # j => RingCell(head, cap, i) # RingCell(head, cap, j)
  <1> TAKE cap \in Nat \ {0}
  <1> TAKE head \in 0..(cap - 1), i \in 0..(cap - 1), j \in 0..(cap - 1)
  <1> DEFINE qi == (head + i) \div cap  qj == (head + j) \div cap
             ri == (head + i) % cap  rj == (head + j) % cap
  <1>1. ri \in 0..(cap - 1) /\ rj \in 0..(cap - 1) /\ qi \in Int /\ qj \in Int
        /\ head + i = cap * qi + ri /\ head + j = cap * qj + rj
    BY ModFacts
  <1>2. qi \in {0, 1} /\ qj \in {0, 1}
    <2>1. head + i \in 0..(2 * cap - 2) /\ head + j \in 0..(2 * cap - 2)
      OBVIOUS
    <2> HIDE DEF qi, qj, ri, rj
    <2>2. cap * qi <= head + i /\ head + i < cap * qi + cap /\ cap * qj <= head + j /\ head + j < cap * qj + cap
      BY <1>1
    <2>3. \A q \in Int : (cap * q <= 2 * cap - 2 /\ 0 < cap * q + cap) => q \in {0, 1}
      <3> TAKE q \in Int
      <3> DEFINE x == cap * q
      <3>1. q >= 2 => 2 * cap <= x
        <4>1. q >= 2 => cap * 2 <= cap * q
          BY MulMonoC
        <4>2. cap * 2 = 2 * cap
          OBVIOUS
        <4> QED BY <4>1, <4>2
      <3>2. q <= -1 => x <= -cap
        <4>1. q <= -1 => cap * q <= cap * (-1)
          BY MulMonoC
        <4>2. cap * (-1) = -cap
          OBVIOUS
        <4> QED BY <4>1, <4>2
      <3>3. x \in Int
        OBVIOUS
      <3> HIDE DEF x
      <3>4. (x <= 2 * cap - 2 /\ 0 < x + cap) => q \in {0, 1}
        BY <3>1, <3>2, <3>3
      <3> QED BY <3>4 DEF x
    <2> QED BY <2>1, <2>2, <2>3, <1>1
  <1> HIDE DEF qi, qj, ri, rj
  <1>3. ASSUME ri = rj PROVE i = j
    <2> DEFINE pi == cap * qi  pj == cap * qj
    <2>1. pi \in {0, cap} /\ pj \in {0, cap}
      <3>1. cap * 0 = 0 /\ cap * 1 = cap
        OBVIOUS
      <3> QED BY <1>2, <3>1
    <2>2. i - j = pi - pj
      BY <1>1, <1>3
    <2>3. i - j \in -(cap - 1)..(cap - 1)
      OBVIOUS
    <2> HIDE DEF pi, pj
    <2> QED BY <2>1, <2>2, <2>3
  <1> QED BY <1>3 DEF RingCell, ri, rj

LEMMA ZeroProduct == \A a \in Int, s \in Int \ {0} : a * s = 0 => a = 0
  <1> TAKE a \in Int, s \in Int \ {0}
  <1>1. CASE s > 0
    <2>1. s \in Nat
      BY <1>1
    <2>2. a >= 1 => s * 1 <= s * a
      BY <2>1, MulMonoC
    <2>3. a <= -1 => s * a <= s * (-1)
      BY <2>1, MulMonoC
    <2>4. s * 1 = s /\ s * (-1) = -s /\ s * a = a * s
      OBVIOUS
    <2> DEFINE x == a * s
    <2>5. (a >= 1 => x >= s) /\ (a <= -1 => x <= -s) /\ x \in Int
      BY <2>2, <2>3, <2>4
    <2> HIDE DEF x
    <2>6. x = 0 => a = 0
      BY <2>5, <1>1
    <2> QED BY <2>6 DEF x
  <1>2. CASE s < 0
    <2> DEFINE t == -s
    <2>1. t \in Nat /\ t > 0
      BY <1>2
    <2>2. a >= 1 => t * 1 <= t * a
      BY <2>1, MulMonoC
    <2>3. a <= -1 => t * a <= t * (-1)
      BY <2>1, MulMonoC
    <2>4. t * 1 = t /\ t * (-1) = -t /\ t * a = -(a * s)
      OBVIOUS
    <2> DEFINE x == a * s
    <2>5. (a >= 1 => -x >= t) /\ (a <= -1 => -x <= -t) /\ x \in Int
      BY <2>2, <2>3, <2>4
    <2> HIDE DEF x
    <2>6. x = 0 => a = 0
      BY <2>5, <2>1
    <2> QED BY <2>6 DEF x
  <1> QED BY <1>1, <1>2

THEOREM StridedInjective ==
    \A off \in Int, step \in Int \ {0}, i \in Int, j \in Int :
        i # j => StridedCell(off, step, i) # StridedCell(off, step, j)
  <1> TAKE off \in Int, step \in Int \ {0}, i \in Int, j \in Int
  <1>1. ASSUME i * step = j * step PROVE i = j
    <2>1. (i - j) * step = i * step - j * step
      OBVIOUS
    <2>2. (i - j) * step = 0
      BY <1>1, <2>1
    <2> QED BY <2>2, ZeroProduct
  <1> QED BY <1>1 DEF StridedCell
=============================================================================
