SPECIFICATION LongSpec
CONSTANTS
  MaxLen = 5
  ValSet <- SignedSet
  Elem <- ElemDef
  LongLens = {17, 18, 19, 20, 21, 22, 23, 24, 26, 29, 31, 33, 37, 40, 47, 55, 64}
  PerLen = 40
INVARIANTS MirrorOK EmitOrder
CHECK_DEADLOCK FALSE
