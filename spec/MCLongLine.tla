----------------------------- MODULE MCLongLine -----------------------------
(***************************************************************************)
(* Long windows.  The bounded configurations explore windows of at most a    *)
(* dozen elements; a production window holds hundreds (250 trading days).    *)
(* What changes there is not the protocol (RollSumProof.tla: exact for every *)
(* window) but the size of the integers formed from the observation count n  *)
(* - n(n+1)/2, n(n+1)(2n+1)/6 and their products in the trend family.        *)
(*                                                                         *)
(* On a window that is an arithmetic progression f, f+b, ..., f+(n-1)b every *)
(* definition of Stats.tla has a closed form (LineDef).  TLC checks          *)
(* LineLawOK - the closed form equals the definition evaluated on the        *)
(* window contents - for every f, b and n within a bound, and then emits     *)
(* ordinary roll1 cases for lines of several hundred elements with windows   *)
(* of 215 .. 300 and every min_periods class, whose expectations are the     *)
(* closed forms (a perfect line has slope b, zero residual, ...).            *)
(***************************************************************************)
EXTENDS RollKernels, Json

CONSTANTS LineLens, LineWs, LawN

LineKernels == {"sum", "mean", "wma", "var", "std", "min", "max", "argmin", "argmax", "rank", "rank_rev",
                "minmaxnorm", "reg", "tsf", "slope", "intercept", "mse"}

\* Def(k, win) for the all-valid window  win[j] = f + b*(j-1), j = 1..n
LineDef(k, f, b, n) ==
    LET last == f + b * (n - 1) IN
    CASE k = "sum"  -> EQ(QInt((n * (f + last)) \div 2))
      [] k = "mean" -> EQ(QN(f + last, 2))
      [] k = "wma"  -> EQ(QN(3 * f + 2 * b * (n - 1), 3))
      [] k = "var"  -> IF n < 2 THEN ENull ELSE EQ(QN(b * b * n * (n + 1), 12))
      [] k = "std"  -> IF n < 2 THEN ENull ELSE ESq(1, QN(b * b * n * (n + 1), 12))
      [] k = "min"  -> EInt(IF b >= 0 THEN f ELSE last)
      [] k = "max"  -> EInt(IF b >= 0 THEN last ELSE f)
      [] k = "argmin" -> EInt(IF b > 0 THEN 1 ELSE n)            \* ties (b = 0): the most recent position
      [] k = "argmax" -> EInt(IF b < 0 THEN 1 ELSE n)
      [] k = "rank"     -> EExact(QN(IF b > 0 THEN 2 * n ELSE IF b < 0 THEN 2 ELSE n + 1, 2))
      [] k = "rank_rev" -> EExact(QN(IF b < 0 THEN 2 * n ELSE IF b > 0 THEN 2 ELSE n + 1, 2))
      [] k = "minmaxnorm" -> IF b = 0 \/ n = 1 THEN ENull ELSE EQ(QInt(IF b > 0 THEN 1 ELSE 0))
      \* least squares on t = 1..n of a perfect line: the line itself
      [] k = "reg"       -> IF n < 2 THEN EAny ELSE EQ(QInt(last))
      [] k = "tsf"       -> IF n < 2 THEN EAny ELSE EQ(QInt(last + b))
      [] k = "slope"     -> IF n < 2 THEN EAny ELSE EQ(QInt(b))
      [] k = "intercept" -> IF n < 2 THEN EAny ELSE EQ(QInt(f - b))
      [] k = "mse"       -> IF n < 2 THEN EAny ELSE EQ(QInt(0))
LineWin(f, b, n) == [j \in 1..n |-> f + b * (j - 1)]

\* the closed forms ARE the definitions (mse is defined up to 8 elements only: the rational residuals outgrow TLC)
LineLawOK ==
    \A f \in (0 - 2)..2, b \in (0 - 2)..2, n \in 1..LawN, k \in LineKernels :
        (k = "mse" /\ n > 8) \/ LineDef(k, f, b, n) = Def(k, LineWin(f, b, n))

\* ---- long cases -----------------------------------------------------------
VARIABLES lf, lb, ll       \* first value, step, length of the emitted line
lvars == <<w, mp, xs, acc, mn, mx, out, dfn, lf, lb, ll>>
LInit ==
    /\ ll \in LineLens /\ w \in LineWs /\ w <= ll
    /\ mp \in {0 - 1, 0, 1, 2, w}
    /\ lf \in {0 - 3, 1} /\ lb \in {0 - 2, 0, 1, 3}
    /\ xs = <<>> /\ acc = Acc0 /\ mn = <<NULL, NOIDX>> /\ mx = <<NULL, NOIDX>>
    /\ out = [k \in Kernels |-> <<>>] /\ dfn = [k \in Kernels |-> EAny]
LSpec == LInit /\ [][UNCHANGED lvars]_lvars

\* what the property requires at position p (1-based) of the line: the window holds n = min(p, w) valid elements
LineExpAt(k, p) ==
    LET n == Min2(p, w)
        f == lf + lb * (p - n)
    IN  IF k \notin LineKernels THEN EAny
        ELSE IF n < EffMp(k) THEN ENull
        ELSE LineDef(k, f, lb, n)
\* one VERY long window (tens of thousands of observations: tick data): the trend family only, where the integers
\* formed from the observation count grow like n^4
HInit ==
    /\ ll \in LineLens /\ w = ll /\ mp = 2 /\ lf = 1 /\ lb = 1
    /\ xs = <<>> /\ acc = Acc0 /\ mn = <<NULL, NOIDX>> /\ mx = <<NULL, NOIDX>>
    /\ out = [k \in Kernels |-> <<>>] /\ dfn = [k \in Kernels |-> EAny]
HSpec == HInit /\ [][UNCHANGED lvars]_lvars
EmitTrend ==
    PrintT(<<"REPLAY", ToJson([op |-> "roll1", w |-> w, mp |-> mp, xs |-> LineWin(lf, lb, ll),
                               exp |-> [k \in RegKernels |-> [p \in 1..ll |-> LineExpAt(k, p)]]])>>)

EmitLine ==
    PrintT(<<"REPLAY", ToJson([op |-> "roll1", w |-> w, mp |-> mp, xs |-> LineWin(lf, lb, ll),
                               exp |-> [k \in Kernels |-> [p \in 1..ll |-> LineExpAt(k, p)]]])>>)
=============================================================================
