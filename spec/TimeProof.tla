------------------------------- MODULE TimeProof -------------------------------
(***************************************************************************)
(* The month-free arithmetic of instants and durations for EVERY instant and  *)
(* EVERY duration (TimeArith.tla checks the same operators, TimeIdx.tla, with *)
(* TLC on a grid): the mixed-radix representation <<day, second, nanosecond>> *)
(* is canonical (NormalForm, Canonical: one normal form per total count of    *)
(* nanoseconds), so                                                           *)
(*   AddSubInverse   (t + a) - a = t  and  (t - a) + a = t                     *)
(*   DiffAddsBack    b + (a - b) = a, and a - b is a month-free duration       *)
(*   GroupAxioms     durations form a commutative group (months add apart)     *)
(*   TruncTowardPast / CoarserIsFloor   unit changes truncate toward the past  *)
(*                   by less than one unit, and two changes in a row denote    *)
(*                   the coarser unit (so finer-and-back is the identity)      *)
(*   TruncSecsGreatest  truncation to q seconds is the greatest multiple       *)
(*                   not after t                                               *)
(* hold without any bound on days, seconds or nanoseconds.  Calendar months    *)
(* (end-of-month clamping, Hinnant's day <-> civil maps) stay with TLC.        *)
(* Proved with tlapm (SMT), 217 obligations.                                   *)
(***************************************************************************)
EXTENDS TimeIdx, TLAPS

Instants == {t \in Int \X Int \X Int : t[2] \in 0..(SECS_PER_DAY - 1) /\ t[3] \in 0..(NS - 1)}
\* month-free durations in normal form
FixedDurs == {a \in Int \X Int \X Int \X Int : a[1] = 0 /\ a[3] \in 0..(SECS_PER_DAY - 1) /\ a[4] \in 0..(NS - 1)}
Durs == {a \in Int \X Int \X Int \X Int : a[3] \in 0..(SECS_PER_DAY - 1) /\ a[4] \in 0..(NS - 1)}

Add(t, a)  == NormInst(t[1] + a[2], t[2] + a[3], t[3] + a[4])
Sub(t, a)  == NormInst(t[1] - a[2], t[2] - a[3], t[3] - a[4])
Diff(a, b) == NormDur(0, a[1] - b[1], a[2] - b[2], a[3] - b[3])
DAddP(a, b) == NormDur(a[1] + b[1], a[2] + b[2], a[3] + b[3], a[4] + b[4])
DNegP(a)    == NormDur(-a[1], -a[2], -a[3], -a[4])
DZero == <<0, 0, 0, 0>>
Before(a, b) == \/ a[1] < b[1] \/ (a[1] = b[1] /\ a[2] < b[2]) \/ (a[1] = b[1] /\ a[2] = b[2] /\ a[3] <= b[3])

Total(d, s, n) == (d * SECS_PER_DAY + s) * NS + n
TotalI(t) == Total(t[1], t[2], t[3])
TotalD(a) == Total(a[2], a[3], a[4])

THEOREM NormalForm == \A d \in Int, s \in Int, n \in Int :
                         NormInst(d, s, n) \in Instants /\ TotalI(NormInst(d, s, n)) = Total(d, s, n)
  BY DEF NormInst, Instants, NS, SECS_PER_DAY, Total, TotalI
THEOREM NormalDur == \A mo \in Int, d \in Int, s \in Int, n \in Int :
                         NormDur(mo, d, s, n) \in Durs /\ TotalD(NormDur(mo, d, s, n)) = Total(d, s, n)
                         /\ NormDur(mo, d, s, n)[1] = mo
  BY DEF NormDur, Durs, NS, SECS_PER_DAY, Total, TotalD
THEOREM NormalIsFixed == \A t \in Instants : NormInst(t[1], t[2], t[3]) = t
  BY DEF NormInst, Instants, NS, SECS_PER_DAY
\* the representation is canonical: equal totals, equal instants
THEOREM Canonical == \A t \in Instants, u \in Instants : TotalI(t) = TotalI(u) => t = u
  <1> TAKE t \in Instants, u \in Instants
  <1> HAVE TotalI(t) = TotalI(u)
  <1>1. t = <<t[1], t[2], t[3]>> /\ u = <<u[1], u[2], u[3]>>
        /\ t[1] \in Int /\ u[1] \in Int /\ t[2] \in 0..86399 /\ u[2] \in 0..86399 /\ t[3] \in 0..999999999 /\ u[3] \in 0..999999999
    BY DEF Instants, NS, SECS_PER_DAY
  <1>2. (t[1] * 86400 + t[2]) * 1000000000 + t[3] = (u[1] * 86400 + u[2]) * 1000000000 + u[3]
    BY DEF TotalI, Total, NS, SECS_PER_DAY
  <1>3. t[3] = u[3] /\ t[1] * 86400 + t[2] = u[1] * 86400 + u[2]
    BY <1>1, <1>2
  <1>4. t[2] = u[2] /\ t[1] = u[1]
    BY <1>1, <1>3
  <1> QED BY <1>1, <1>3, <1>4
THEOREM CanonicalDur == \A a \in Durs, b \in Durs : (a[1] = b[1] /\ TotalD(a) = TotalD(b)) => a = b
  <1> TAKE a \in Durs, b \in Durs
  <1> HAVE a[1] = b[1] /\ TotalD(a) = TotalD(b)
  <1>1. a = <<a[1], a[2], a[3], a[4]>> /\ b = <<b[1], b[2], b[3], b[4]>>
        /\ a[2] \in Int /\ b[2] \in Int /\ a[3] \in 0..86399 /\ b[3] \in 0..86399 /\ a[4] \in 0..999999999 /\ b[4] \in 0..999999999
    BY DEF Durs, NS, SECS_PER_DAY
  <1>2. (a[2] * 86400 + a[3]) * 1000000000 + a[4] = (b[2] * 86400 + b[3]) * 1000000000 + b[4]
    BY DEF TotalD, Total, NS, SECS_PER_DAY
  <1>3. a[4] = b[4] /\ a[2] * 86400 + a[3] = b[2] * 86400 + b[3]
    BY <1>1, <1>2
  <1>4. a[3] = b[3] /\ a[2] = b[2]
    BY <1>1, <1>3
  <1> QED BY <1>1, <1>3, <1>4

LEMMA TotalLinear == \A d \in Int, s \in Int, n \in Int, e \in Int, r \in Int, m \in Int :
                        Total(d + e, s + r, n + m) = Total(d, s, n) + Total(e, r, m)
                        /\ Total(d - e, s - r, n - m) = Total(d, s, n) - Total(e, r, m)
                        /\ Total(d, s, n) \in Int
  BY DEF Total, NS, SECS_PER_DAY

LEMMA InstTypes == \A t \in Instants : t[1] \in Int /\ t[2] \in Int /\ t[3] \in Int
  BY DEF Instants
LEMMA DurTypes == \A a \in Durs : a[1] \in Int /\ a[2] \in Int /\ a[3] \in Int /\ a[4] \in Int
  BY DEF Durs
LEMMA FixedAreDurs == FixedDurs \subseteq Durs
  BY DEF FixedDurs, Durs

\* C17: adding a month-free duration and subtracting it again is the identity, in either order
THEOREM AddSubInverse == \A t \in Instants, a \in FixedDurs : Sub(Add(t, a), a) = t /\ Add(Sub(t, a), a) = t
  <1> TAKE t \in Instants, a \in FixedDurs
  <1>0. a \in Durs /\ t[1] \in Int /\ t[2] \in Int /\ t[3] \in Int /\ a[2] \in Int /\ a[3] \in Int /\ a[4] \in Int
    BY InstTypes, DurTypes, FixedAreDurs
  <1> DEFINE x == Add(t, a)  y == Sub(t, a)
  <1>1. x \in Instants /\ TotalI(x) = TotalI(t) + TotalD(a)
    BY <1>0, NormalForm, TotalLinear DEF Add, TotalI, TotalD
  <1>2. y \in Instants /\ TotalI(y) = TotalI(t) - TotalD(a)
    BY <1>0, NormalForm, TotalLinear DEF Sub, TotalI, TotalD
  <1>3. x[1] \in Int /\ x[2] \in Int /\ x[3] \in Int /\ y[1] \in Int /\ y[2] \in Int /\ y[3] \in Int
    BY <1>1, <1>2, InstTypes
  <1> HIDE DEF x, y
  <1>4. Sub(x, a) \in Instants /\ TotalI(Sub(x, a)) = TotalI(x) - TotalD(a)
    BY <1>0, <1>3, NormalForm, TotalLinear DEF Sub, TotalI, TotalD
  <1>5. Add(y, a) \in Instants /\ TotalI(Add(y, a)) = TotalI(y) + TotalD(a)
    BY <1>0, <1>3, NormalForm, TotalLinear DEF Add, TotalI, TotalD
  <1>6. TotalI(t) \in Int /\ TotalD(a) \in Int
    BY <1>0, TotalLinear DEF TotalI, TotalD
  <1>7. Sub(x, a) = t
    BY <1>1, <1>4, <1>6, Canonical
  <1>8. Add(y, a) = t
    BY <1>2, <1>5, <1>6, Canonical
  <1> QED BY <1>7, <1>8 DEF x, y

\* C17: the difference of two instants, added back to the second, gives the first
THEOREM DiffAddsBack == \A a \in Instants, b \in Instants : Diff(a, b) \in FixedDurs /\ Add(b, Diff(a, b)) = a
  <1> TAKE a \in Instants, b \in Instants
  <1>0. a[1] \in Int /\ a[2] \in Int /\ a[3] \in Int /\ b[1] \in Int /\ b[2] \in Int /\ b[3] \in Int
    BY InstTypes
  <1> DEFINE dd == Diff(a, b)
  <1>1. dd \in Durs /\ dd[1] = 0 /\ TotalD(dd) = TotalI(a) - TotalI(b)
    BY <1>0, NormalDur, TotalLinear DEF Diff, TotalI
  <1>2. dd \in FixedDurs
    BY <1>1 DEF Durs, FixedDurs
  <1>3. dd[2] \in Int /\ dd[3] \in Int /\ dd[4] \in Int
    BY <1>1, DurTypes
  <1> HIDE DEF dd
  <1>4. Add(b, dd) \in Instants /\ TotalI(Add(b, dd)) = TotalI(b) + TotalD(dd)
    BY <1>0, <1>3, NormalForm, TotalLinear DEF Add, TotalI, TotalD
  <1>5. TotalI(a) \in Int /\ TotalI(b) \in Int
    BY <1>0, TotalLinear DEF TotalI
  <1>6. Add(b, dd) = a
    BY <1>1, <1>4, <1>5, Canonical
  <1> QED BY <1>2, <1>6 DEF dd

\* C17: month-free arithmetic of durations is a commutative group (the month count adds separately)
THEOREM GroupAxioms ==
    \A a \in Durs, b \in Durs, c \in Durs :
        /\ DAddP(a, b) \in Durs /\ DNegP(a) \in Durs
        /\ DAddP(DAddP(a, b), c) = DAddP(a, DAddP(b, c))
        /\ DAddP(a, b) = DAddP(b, a)
        /\ DAddP(a, DZero) = a
        /\ DAddP(a, DNegP(a)) = DZero
  <1> TAKE a \in Durs, b \in Durs, c \in Durs
  <1>0. /\ a[1] \in Int /\ a[2] \in Int /\ a[3] \in Int /\ a[4] \in Int
        /\ b[1] \in Int /\ b[2] \in Int /\ b[3] \in Int /\ b[4] \in Int
        /\ c[1] \in Int /\ c[2] \in Int /\ c[3] \in Int /\ c[4] \in Int
    BY DurTypes
  <1> DEFINE ab == DAddP(a, b)  bc == DAddP(b, c)  ba == DAddP(b, a)  na == DNegP(a)
  <1>1. ab \in Durs /\ ab[1] = a[1] + b[1] /\ TotalD(ab) = TotalD(a) + TotalD(b)
    BY <1>0, NormalDur, TotalLinear DEF DAddP, TotalD
  <1>2. bc \in Durs /\ bc[1] = b[1] + c[1] /\ TotalD(bc) = TotalD(b) + TotalD(c)
    BY <1>0, NormalDur, TotalLinear DEF DAddP, TotalD
  <1>3. ba \in Durs /\ ba[1] = b[1] + a[1] /\ TotalD(ba) = TotalD(b) + TotalD(a)
    BY <1>0, NormalDur, TotalLinear DEF DAddP, TotalD
  <1>4. na \in Durs /\ na[1] = -a[1] /\ TotalD(na) = -TotalD(a)
    <2>1. Total(-a[2], -a[3], -a[4]) = -Total(a[2], a[3], a[4])
      BY <1>0 DEF Total, NS, SECS_PER_DAY
    <2>2. -a[1] \in Int /\ -a[2] \in Int /\ -a[3] \in Int /\ -a[4] \in Int
      BY <1>0
    <2> QED BY <2>1, <2>2, NormalDur DEF DNegP, TotalD
  <1>5. TotalD(a) \in Int /\ TotalD(b) \in Int /\ TotalD(c) \in Int
    BY <1>0, TotalLinear DEF TotalD
  <1>6. /\ ab[1] \in Int /\ ab[2] \in Int /\ ab[3] \in Int /\ ab[4] \in Int
        /\ bc[1] \in Int /\ bc[2] \in Int /\ bc[3] \in Int /\ bc[4] \in Int
        /\ na[1] \in Int /\ na[2] \in Int /\ na[3] \in Int /\ na[4] \in Int
    BY <1>1, <1>2, <1>4, DurTypes
  <1> HIDE DEF ab, bc, ba, na
  <1>7. DAddP(ab, c) \in Durs /\ DAddP(ab, c)[1] = ab[1] + c[1] /\ TotalD(DAddP(ab, c)) = TotalD(ab) + TotalD(c)
    BY <1>0, <1>6, NormalDur, TotalLinear DEF DAddP, TotalD
  <1>8. DAddP(a, bc) \in Durs /\ DAddP(a, bc)[1] = a[1] + bc[1] /\ TotalD(DAddP(a, bc)) = TotalD(a) + TotalD(bc)
    BY <1>0, <1>6, NormalDur, TotalLinear DEF DAddP, TotalD
  <1>9. DAddP(ab, c) = DAddP(a, bc)
    BY <1>0, <1>1, <1>2, <1>5, <1>7, <1>8, CanonicalDur
  <1>10. ab = ba
    BY <1>0, <1>1, <1>3, <1>5, CanonicalDur
  <1>11. DAddP(a, DZero) = a
    <2>1. DZero[1] = 0 /\ DZero[2] = 0 /\ DZero[3] = 0 /\ DZero[4] = 0
      BY DEF DZero
    <2>2. DAddP(a, DZero) \in Durs /\ DAddP(a, DZero)[1] = a[1] /\ TotalD(DAddP(a, DZero)) = Total(a[2], a[3], a[4])
      BY <1>0, <2>1, NormalDur DEF DAddP
    <2> QED BY <2>2, CanonicalDur DEF TotalD
  <1>12. DAddP(a, na) = DZero
    <2>1. DAddP(a, na) \in Durs /\ DAddP(a, na)[1] = a[1] + na[1] /\ TotalD(DAddP(a, na)) = TotalD(a) + TotalD(na)
      BY <1>0, <1>6, NormalDur, TotalLinear DEF DAddP, TotalD
    <2>2. DZero \in Durs /\ DZero[1] = 0 /\ TotalD(DZero) = 0
      BY DEF DZero, Durs, TotalD, Total, NS, SECS_PER_DAY
    <2> QED BY <1>0, <1>4, <1>5, <2>1, <2>2, CanonicalDur
  <1> QED BY <1>1, <1>4, <1>9, <1>10, <1>11, <1>12 DEF ab, bc, ba, na

(* ---- C16: unit conversions ---------------------------------------------------------------- *)

Units == {"s", "ms", "us", "ns"}
Rank(u) == CASE u = "s" -> 3 [] u = "ms" -> 2 [] u = "us" -> 1 [] u = "ns" -> 0
Coarser(u, v) == IF Rank(u) >= Rank(v) THEN u ELSE v

\* truncation to a unit never moves an instant forward, by less than one unit, onto a multiple of the unit
THEOREM TruncTowardPast ==
    \A t \in Instants, u \in Units :
        LET r == TruncToUnit(t, u) IN
        /\ r \in Instants /\ Before(r, t) /\ t[3] - r[3] < UnitNs(u) /\ r[3] % UnitNs(u) = 0
  <1> TAKE t \in Instants, u \in Units
  <1>1. t[1] \in Int /\ t[2] \in 0..86399 /\ t[3] \in 0..999999999
    BY DEF Instants, NS, SECS_PER_DAY
  <1>2. UnitNs(u) \in {1, 1000, 1000000, 1000000000}
    BY DEF Units, UnitNs, NS
  <1> QED BY <1>1, <1>2 DEF TruncToUnit, Instants, Before, NS, SECS_PER_DAY
\* converting through two units denotes the instant at the coarser of the two; to a finer unit and back is the identity
THEOREM CoarserIsFloor ==
    \A t \in Instants, u \in Units, v \in Units :
        TruncToUnit(TruncToUnit(t, u), v) = TruncToUnit(t, Coarser(u, v))
  <1> TAKE t \in Instants, u \in Units, v \in Units
  <1>1. t[1] \in Int /\ t[2] \in 0..86399 /\ t[3] \in 0..999999999
    BY DEF Instants, NS, SECS_PER_DAY
  <1> DEFINE n == t[3]
  <1>2. \A p \in {1, 1000, 1000000, 1000000000}, q \in {1, 1000, 1000000, 1000000000} :
           (((n \div p) * p) \div q) * q = (n \div (IF p >= q THEN p ELSE q)) * (IF p >= q THEN p ELSE q)
    BY <1>1
  <1>3. UnitNs(u) \in {1, 1000, 1000000, 1000000000} /\ UnitNs(v) \in {1, 1000, 1000000, 1000000000}
        /\ UnitNs(Coarser(u, v)) = (IF UnitNs(u) >= UnitNs(v) THEN UnitNs(u) ELSE UnitNs(v))
    BY DEF Units, UnitNs, NS, Coarser, Rank
  <1> QED BY <1>2, <1>3 DEF TruncToUnit
\* C17: truncation to q seconds (q dividing the day): the greatest multiple not after t
THEOREM TruncSecsGreatest ==
    \A t \in Instants, q \in {1, 15, 60, 3600, 21600, 86400} :
        LET r == TruncSecs(t, q) IN
        /\ r \in Instants /\ Before(r, t) /\ r[2] % q = 0 /\ r[3] = 0 /\ t[2] - r[2] < q
  <1> TAKE t \in Instants, q \in {1, 15, 60, 3600, 21600, 86400}
  <1>1. t[1] \in Int /\ t[2] \in 0..86399 /\ t[3] \in 0..999999999
    BY DEF Instants, NS, SECS_PER_DAY
  <1> QED BY <1>1 DEF TruncSecs, Instants, Before, NS, SECS_PER_DAY
=============================================================================
