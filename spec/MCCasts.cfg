SPECIFICATION Spec
INVARIANTS LawsOnce EmitCast EmitCmp EmitTDCmp
CHECK_DEADLOCK FALSE
