SPECIFICATION Spec
INVARIANTS LawsOnce EmitCast EmitCmp
CHECK_DEADLOCK FALSE
