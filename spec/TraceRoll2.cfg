SPECIFICATION TraceSpec
CONSTANTS
  MaxLen = 1000000
  MaxW = 1000
  ElemA = {0}
  ElemB = {0}
INVARIANTS NoDrift2 OutDef2 LenOK2 MaskLaw2 PerfectLineZeroResidual
POSTCONDITION TraceAccepted
CHECK_DEADLOCK FALSE
