------------------------------ MODULE TraceRoll2 ------------------------------
(* Trace validation for RollKernels2 (two-series kernels); see TraceRoll.tla. *)
(*   begin  w mp            next run                                          *)
(*   step   a b o           one position: both inputs, projected outputs      *)
EXTENDS RollKernels2, Json, IOUtils

Rec == ndJsonDeserialize(IOEnv.TRACE)
VARIABLE l
tvars == <<vars, l>>
Ev == Rec[l]
IsEv(e) == l <= Len(Rec) /\ Ev.e = e /\ l' = l + 1

TInit ==
    /\ l = 1 /\ w = 1 /\ mp = -1 /\ as = <<>> /\ bs = <<>> /\ acc = Acc0
    /\ out = [k \in Kernels2 |-> <<>>] /\ dfn = [k \in Kernels2 |-> EAny]

TBegin ==
    /\ IsEv("begin")
    /\ w' = Ev.w /\ mp' = Ev.mp /\ as' = <<>> /\ bs' = <<>> /\ acc' = Acc0
    /\ out' = [k \in Kernels2 |-> <<>>] /\ dfn' = [k \in Kernels2 |-> EAny]

TStep ==
    /\ IsEv("step")
    /\ Step(Ev.a, Ev.b)
    /\ \A k \in DOMAIN Ev.o : SameExp(out'[k][Len(out'[k])], Ev.o[k])

TNext == TBegin \/ TStep
TraceSpec == TInit /\ [][TNext]_tvars

TraceAccepted ==
    LET d == TLCGet("stats").diameter IN
    IF d - 1 = Len(Rec) THEN TRUE
    ELSE Print(<<"TRACE-REJECTED", d, Rec[d]>>, FALSE)
=============================================================================
