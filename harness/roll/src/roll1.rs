//! Spec -> impl replay of RollKernels.tla behaviours (`op = roll1`) into the real one-series
//! rolling entry points, over the element-type star and the backend/path star.
use std::collections::{BTreeMap, VecDeque};
use std::sync::Arc;

use serde_json::Value;
use tevec::export::ndarray::{Array1, s};
use tevec::prelude::*;
use tvh_common::*;

use crate::kern::*;

pub struct Beh {
    pub w: usize,
    pub mp: Option<usize>,
    pub mp_raw: i64,
    pub xs: Vec<i64>,
    pub exp: BTreeMap<String, Vec<Exp>>,
    pub raw: Value,
}

impl Beh {
    pub fn parse(v: &Value) -> Beh {
        let mp_raw = get_i64(v, "mp");
        let exp = v["exp"]
            .as_object()
            .unwrap_or_else(|| tool_error("roll1 behaviour without exp"))
            .iter()
            .map(|(k, e)| (k.clone(), Exp::parse_seq(e)))
            .collect();
        Beh {
            w: get_i64(v, "w") as usize,
            mp: if mp_raw < 0 { None } else { Some(mp_raw as usize) },
            mp_raw,
            xs: get_ints(v, "xs"),
            exp,
            raw: v.clone(),
        }
    }
    pub fn key(&self, fname: &str, extra: &str) -> String {
        format!("{fname}{extra}|w={},mp={}|xs={:?}", self.w, self.mp_raw, self.xs)
    }
}

#[derive(Clone, Copy, PartialEq)]
pub enum Mode {
    Full,
    /// C05: only the null pattern is compared
    Mask,
}

/// reduce an expectation to its null pattern
fn mask_of(e: &Exp) -> Exp {
    match e {
        Exp::Null => Exp::Null,
        Exp::Any => Exp::Any,
        _ => Exp::Int(i64::MIN), // marker: "must be non-null"
    }
}

pub struct Judge<'a> {
    pub rep: &'a mut Report,
    pub mode: Mode,
    /// set while a cell is replayed in another unit of measurement (Laws1.tla / Laws2.tla)
    pub unit: Option<Unit>,
}

/// The degree table TLC emits from Laws1.tla (`op = laws1`).
pub struct Laws1 {
    pub deg: BTreeMap<String, i32>,
    pub safe: BTreeMap<String, String>,
    /// translation of the origin (Laws1.tla TransLaw / TransReplay): "plus", "same" or "no"
    pub trans: BTreeMap<String, String>,
}
impl Laws1 {
    pub fn load(path: &str) -> Laws1 {
        for v in read_ndjson(path) {
            if get_str(&v, "op") == "laws1" {
                let deg = v["deg"].as_object().unwrap_or_else(|| tool_error("laws1 without deg"));
                let safe = v["safe"].as_object().unwrap_or_else(|| tool_error("laws1 without safe"));
                return Laws1 {
                    deg: deg.iter().map(|(k, d)| (k.clone(), d.as_i64().unwrap() as i32)).collect(),
                    safe: safe.iter().map(|(k, d)| (k.clone(), d.as_str().unwrap_or("all").to_string())).collect(),
                    trans: v["trans"].as_object().map(|t| t.iter().map(|(k, d)| (k.clone(), d.as_str().unwrap_or("no").to_string())).collect()).unwrap_or_default(),
                };
            }
        }
        tool_error(&format!("no laws1 record in {path}"))
    }
    /// the unit change for kernel k of a series whose largest magnitude is `maxabs`, or None if
    /// the kernel is not replayed in other units
    pub fn unit(&self, k: &str, u: f64, maxabs: i64) -> Option<Unit> {
        match self.safe.get(k)?.as_str() {
            "all" => {},
            "small" if u.abs() < 1.0 => {},
            _ => return None,
        }
        let d = *self.deg.get(k)?;
        let factor = u.powi(d);
        Some(Unit { factor, floor: factor * (maxabs.max(1) as f64).powi(d) })
    }
}

/// units the one-series kernels are replayed in, per input element type
pub const U_F64_BIG: f64 = 123467.8;
pub const U_F64_SMALL: f64 = 1.3e-4;
pub const U_F32_BIG: f64 = 1234.5;
pub const U_F32_SMALL: f64 = 3.0 / 1024.0;
/// 2^24/3: every product with |v| <= 3 is exact in f32 (24 bits), but a sum of two is not - an
/// accumulator kept in f32 loses what the f64 accumulators of the kernels keep
pub const U_F32_EDGE: f64 = 5_592_405.0;
pub const U_I32_BIG: f64 = 400_000_000.0;
pub const U_I64_BIG: f64 = 1_500_000_000_000_000_000.0;

impl Judge<'_> {
    /// compare one output vector with its expectations
    pub fn compare<U: OutElem>(
        &mut self,
        fname: &str,
        key: &str,
        cell: &str,
        got: &Result<Vec<U>, String>,
        exps: &[Exp],
        case: &Value,
    ) {
        self.rep.cells += 1;
        let got = match got {
            Ok(g) => g,
            Err(msg) => {
                self.rep.panics_as_data += 1;
                let what = if msg.contains(SPY_OOB) { "out-of-bounds access".to_string() } else { format!("panicked: {msg}") };
                self.rep.mismatch(fname, fname, key, cell, &what, case);
                return;
            },
        };
        if got.len() != exps.len() {
            self.rep.mismatch(fname, fname, key, cell, &format!("{} outputs for {} inputs", got.len(), exps.len()), case);
            return;
        }
        for (i, (g, e)) in got.iter().zip(exps).enumerate() {
            if e.is_any() {
                self.rep.skipped();
                continue;
            }
            let res = if self.mode == Mode::Mask {
                match (mask_of(e), g.obs()) {
                    (Exp::Null, Obs::Null) => Ok(0.0),
                    (Exp::Null, Obs::I(0)) if U::NULL_AS_ZERO => Ok(0.0),
                    (Exp::Null, o) => Err(format!("got {o}, want null")),
                    (_, Obs::Null) => Err(format!("got null, want a value ({e:?})")),
                    _ => Ok(0.0),
                }
            } else if let Some(un) = self.unit {
                satisfies_unit(e, g.obs(), un, U::NULL_AS_ZERO)
            } else {
                check_elem(e, g)
            };
            match res {
                Ok(d) => self.rep.ok(fname, d),
                Err(d) => {
                    self.rep.mismatch(fname, fname, key, cell, &format!("position {i}: {d}"), case);
                    return;
                },
            }
        }
    }
}

fn spy_faults(fname: &str, key: &str, cell: &str, j: &mut Judge, case: &Value) {
    let faults = safety_faults(&take_log());
    if !faults.is_empty() {
        j.rep.mismatch(fname, fname, key, cell, &format!("memory-safety envelope broken: {}", faults.join("; ")), case);
    }
}

/// Everything one behaviour is replayed into.
pub fn replay_beh(b: &Beh, kernels: &[String], j: &mut Judge, full: bool, laws: Option<&Laws1>) {
    let maxabs = max_abs(&b.xs);
    let (w, mp) = (b.w, b.mp);
    let xs = &b.xs;
    let nullfree = !has_null(xs);
    let case = &b.raw;
    let want = |k: &str| kernels.is_empty() || any_of(kernels.iter(), |x| x == k);

    // ---- null-aware family ------------------------------------------------------------
    for k in VALID_KERNELS {
        if !want(k) {
            continue;
        }
        let Some(exps) = b.exp.get(*k) else { continue };
        // omitted min_periods of the extrema / rank family means floor(min(len,w)/2): the
        // emitted expectation (floor(w/2)) applies for len >= w only (DESIGN 5.3)
        if CMP_KERNELS.contains(k) && mp.is_none() && xs.len() < w {
            continue;
        }
        let fname = valid_fn_name(k);
        let extra = match *k {
            "rank_rev" => "(rev)",
            "rank_pct" => "(pct)",
            "rank_rev_pct" => "(pct,rev)",
            _ => "",
        };
        let key = b.key(fname, extra);
        let minmax = *k == "min" || *k == "max";

        // a LONG series (the long-window cases): what is zero in exact arithmetic comes out as a rounding residue
        // relative to the magnitude of the terms, so the comparison is made relative to |x|max ^ degree
        let long_scale = if xs.len() > 64 {
            laws.and_then(|l| l.deg.get(*k)).map(|d| Unit { factor: 1.0, floor: (maxabs.max(1) as f64).powi(*d) })
        } else {
            None
        };
        j.unit = long_scale;
        macro_rules! star {
            ($T:ty, $U:ty) => {{
                let v: Vec<$T> = enc_vec(xs);
                let got = run_valid::<$T, _, $U, Vec<$U>>(k, &v, w, mp, false);
                j.unit = long_scale;
                j.compare(fname, &key, concat!("Vec<", stringify!($T), ">->Vec<", stringify!($U), ">/ret"), &got, exps, case);
                j.unit = long_scale;
            }};
        }
        macro_rules! star_t {
            ($T:ty) => {{
                star!($T, f64);
                star!($T, Option<f64>);
                if full {
                    star!($T, f32);
                }
                // an integer output cannot hold the null of ts_vmin / ts_vmax (DESIGN 5.8)
                if !minmax {
                    star!($T, i32);
                }
            }};
        }
        star_t!(f64);
        star_t!(Option<f64>);
        if full {
            star_t!(f32);
            star_t!(Option<i32>);
        }
        if nullfree {
            star_t!(i32);
            if full {
                star_t!(i64);
            }
        }

        // ---- the same series in other units of measurement (Laws1.tla) ----
        if let Some(l) = laws {
            macro_rules! ustar {
                ($T:ty, $U:ty, $u:expr, $to:expr) => {{
                    if let Some(un) = l.unit(k, $u, maxabs) {
                        if <$T as InElem>::fits(maxabs, $u) {
                            let v: Vec<$T> = enc_vec_unit(xs, $u);
                            let got = run_valid::<$T, _, $U, Vec<$U>>(k, &v, w, mp, $to);
                            j.unit = Some(un);
                            let cell = format!("Vec<{}>->Vec<{}>/{}@unit={:e}", <$T as InElem>::NAME, <$U as OutElem>::NAME, if $to { "to" } else { "ret" }, $u);
                            j.compare(fname, &key, &cell, &got, exps, case);
                            j.unit = long_scale;
                        }
                    }
                }};
            }
            // ---- the same series at a far origin (Laws1.tla TransLaw): extrema move with it, their
            // positions, the ranks and the min-max normalisation do not
            if let Some(tr) = l.trans.get(*k).filter(|t| t.as_str() != "no") {
                let plus = tr == "plus";
                let moved = |b: i64| -> Vec<Exp> {
                    exps.iter().map(|e| match e {
                        Exp::Int(v) if plus => Exp::Int(*v + b),
                        Exp::Q(n, d) if plus => Exp::Q(*n + b * *d, *d),
                        other => other.clone(),
                    }).collect()
                };
                macro_rules! ostar {
                    ($T:ty, $U:ty, $b:expr, $enc:expr) => {{
                        let v: Vec<$T> = xs.iter().map($enc).collect();
                        let got = run_valid::<$T, _, $U, Vec<$U>>(k, &v, w, mp, false);
                        let cell = format!("Vec<{}>->Vec<{}>/ret@origin=2^{}", <$T as InElem>::NAME, <$U as OutElem>::NAME, ($b as f64).log2() as i64);
                        j.compare(fname, &key, &cell, &got, &moved($b), case);
                    }};
                }
                const B52: i64 = 1 << 52;
                const B30: i64 = 1 << 30;
                const B60: i64 = 1 << 60;
                ostar!(f64, f64, B52, |x: &i64| if *x == NULL { f64::NAN } else { (*x + B52) as f64 });
                ostar!(Option<i32>, f64, B30, |x: &i64| if *x == NULL { None } else { Some((*x + B30) as i32) });
                if !plus {
                    // positions, ranks and ratios only: an f64 output cannot hold 2^60 + v
                    ostar!(Option<i64>, f64, B60, |x: &i64| if *x == NULL { None } else { Some(*x + B60) });
                    if nullfree {
                        ostar!(i64, Option<f64>, B60, |x: &i64| *x + B60);
                    }
                }
            }
            // a sum is accumulated in the element type by design: an integer series in a unit
            // that makes window sums leave the type is outside what ts_vsum can represent
            let int_ok = *k != "sum";
            ustar!(f64, f64, U_F64_BIG, false);
            ustar!(f64, f64, U_F64_SMALL, false);
            ustar!(f64, Option<f64>, U_F64_BIG, true);
            ustar!(Option<f64>, f64, U_F64_SMALL, false);
            let f32_sum_fits = |_u: f64| *k != "sum" || w.min(xs.len()) <= 8;
            if f32_sum_fits(U_F32_BIG) {
                ustar!(f32, f64, U_F32_BIG, false);
            }
            ustar!(f32, f64, U_F32_SMALL, false);
            if f32_sum_fits(U_F32_EDGE) {
                ustar!(f32, f64, U_F32_EDGE, false);
                ustar!(Option<f32>, Option<f64>, U_F32_EDGE, true);
            }
            if int_ok {
                ustar!(Option<i32>, f64, U_I32_BIG, false);
                ustar!(Option<i64>, f64, U_I64_BIG, false);
                if nullfree {
                    ustar!(i32, f64, U_I32_BIG, false);
                    ustar!(i64, Option<f64>, U_I64_BIG, false);
                }
            }
        }

        // backend / path star on f64 -> f64
        {
            let v: Vec<f64> = enc_vec(xs);
            let got = run_valid::<f64, _, f64, Vec<f64>>(k, &v, w, mp, true);
            j.compare(fname, &key, "Vec<f64>->Vec<f64>/to", &got, exps, case);

            let sp = Spy::new(1, v.clone());
            clear_log();
            let got = run_valid::<f64, _, f64, Vec<f64>>(k, &sp, w, mp, false);
            spy_faults(fname, &key, "Spy<f64>->Vec<f64>/ret", j, case);
            j.compare(fname, &key, "Spy<f64>->Vec<f64>/ret", &got, exps, case);
            clear_log();
            let got = run_valid::<f64, _, f64, SpyOut<f64>>(k, &sp, w, mp, true);
            spy_faults(fname, &key, "Spy<f64>->SpyOut<f64>/to", j, case);
            j.compare(fname, &key, "Spy<f64>->SpyOut<f64>/to", &got, exps, case);
            clear_log();
            let got = run_valid::<f64, _, f64, SpyOut<f64>>(k, &v, w, mp, false);
            spy_faults(fname, &key, "Vec<f64>->SpyOut<f64>/ret", j, case);
            j.compare(fname, &key, "Vec<f64>->SpyOut<f64>/ret", &got, exps, case);

            // the nulls written as a NaN whose sign bit is set: the same null (Casts.tla NEGNAN)
            if !nullfree {
                let vn = enc_vec_negnan(xs);
                let got = run_valid::<f64, _, f64, Vec<f64>>(k, &vn, w, mp, false);
                j.compare(fname, &key, "Vec<f64>(nulls as -NaN)->Vec<f64>/ret", &got, exps, case);
            }
            // a deque whose storage wraps (iterator body + positional reads), and the option view
            let dq: VecDeque<f64> = crate::roll1::rotated(&v, v.len() / 2 + 1);
            let got = run_valid::<f64, _, f64, VecDeque<f64>>(k, &dq, w, mp, false);
            j.compare(fname, &key, "VecDeque<f64>(wrapped)->VecDeque<f64>/ret", &got, exps, case);
            let got = run_valid::<f64, _, f64, Vec<f64>>(k, &dq, w, mp, true);
            j.compare(fname, &key, "VecDeque<f64>(wrapped)->Vec<f64>/to", &got, exps, case);
            {
                let ov = v.opt();
                let got = run_valid::<Option<f64>, _, f64, Vec<f64>>(k, &ov, w, mp, false);
                j.compare(fname, &key, "OptIter<Vec<f64>>->Vec<f64>/ret", &got, exps, case);
            }
            // caller-supplied output buffers in layouts the library does not allocate itself
            let got = run_valid::<f64, _, f64, Vec<f64>>(k, &v, w, mp, Path::Odd(0));
            j.compare(fname, &key, "Vec<f64>->Vec<f64>/to(sub-slice)", &got, exps, case);
            let got = run_valid::<f64, _, f64, VecDeque<f64>>(k, &v, w, mp, Path::Odd(0));
            j.compare(fname, &key, "Vec<f64>->VecDeque<f64>/to(wrapped ring)", &got, exps, case);
            let got = run_valid::<f64, _, f64, Array1<f64>>(k, &v, w, mp, Path::Odd(0));
            j.compare(fname, &key, "Vec<f64>->Array1<f64>/to(step 2 view)", &got, exps, case);
            let got = run_valid::<f64, _, f64, Array1<f64>>(k, &dq, w, mp, Path::Odd(1));
            j.compare(fname, &key, "VecDeque<f64>(wrapped)->Array1<f64>/to(reversed view)", &got, exps, case);
            if full {
                let got = run_valid::<f64, _, f64, VecDeque<f64>>(k, &dq, w, mp, Path::Odd(1));
                j.compare(fname, &key, "VecDeque<f64>(wrapped)->VecDeque<f64>/to(rotated ring)", &got, exps, case);
                let got = run_valid::<f64, _, Option<f64>, Array1<Option<f64>>>(k, &v, w, mp, Path::Odd(2));
                j.compare(fname, &key, "Vec<f64>->Array1<Option<f64>>/to(step 3 view)", &got, exps, case);
                let a = Array1::from_vec(v.clone());
                let got = run_valid::<f64, _, f64, Array1<f64>>(k, &a, w, mp, true);
                j.compare(fname, &key, "Array1<f64>->Array1<f64>/to", &got, exps, case);
                let big: Vec<f64> = v.iter().rev().flat_map(|x| [*x, -7.0]).collect();
                let ab = Array1::from_vec(big);
                let view = ab.slice(s![..;-2]);
                // reversed with step 2 starting from the last element: [-7, x0, -7, x1, ...] reversed
                let view_items: Vec<f64> = view.iter().cloned().collect();
                if view_items.len() == v.len() && all_of(view_items.iter().zip(&v), |(a, b)| a.to_bits() == b.to_bits()) {
                    let got = run_valid::<f64, _, f64, Vec<f64>>(k, &view, w, mp, false);
                    j.compare(fname, &key, "ArrayView<f64>(step -2)->Vec<f64>/ret", &got, exps, case);
                }
                let arc = Arc::new(v.clone());
                let got = run_valid::<f64, _, f64, Vec<f64>>(k, &arc, w, mp, false);
                j.compare(fname, &key, "Arc<Vec<f64>>->Vec<f64>/ret", &got, exps, case);
                let ov = v.opt();
                let got = run_valid::<Option<f64>, _, Option<f64>, Vec<Option<f64>>>(k, &ov, w, mp, false);
                j.compare(fname, &key, "OptIter<Vec<f64>>->Vec<Option<f64>>/ret", &got, exps, case);
            }
        }
    }

    // ---- plain family: finite (null-free) series only (DESIGN 5.7) ----------------------
    if nullfree {
        for k in PLAIN_KERNELS {
            if !want(k) {
                continue;
            }
            let Some(exps) = b.exp.get(*k) else { continue };
            let fname = plain_fn_name(k);
            let key = b.key(fname, "");
            let long_scale = if xs.len() > 64 {
                laws.and_then(|l| l.deg.get(*k)).map(|d| Unit { factor: 1.0, floor: (maxabs.max(1) as f64).powi(*d) })
            } else {
                None
            };
            j.unit = long_scale;
            macro_rules! pstar {
                ($T:ty, $U:ty) => {{
                    let v: Vec<$T> = enc_vec(xs);
                    let got = run_plain::<$T, _, $U, Vec<$U>>(k, &v, w, mp, false);
                    j.unit = long_scale;
                    j.compare(fname, &key, concat!("Vec<", stringify!($T), ">->Vec<", stringify!($U), ">/ret"), &got, exps, case);
                    j.unit = long_scale;
                }};
            }
            pstar!(f64, f64);
            pstar!(f64, Option<f64>);
            pstar!(f64, i32);
            pstar!(i32, f64);
            if full {
                pstar!(f64, f32);
                pstar!(f32, f64);
                pstar!(i64, f64);
                pstar!(i32, i32);
                pstar!(i64, Option<f64>);
            }
            if let Some(l) = laws {
                macro_rules! upstar {
                    ($T:ty, $U:ty, $u:expr) => {{
                        if let Some(un) = l.unit(k, $u, maxabs) {
                            if <$T as InElem>::fits(maxabs, $u) {
                                let v: Vec<$T> = enc_vec_unit(xs, $u);
                                let got = run_plain::<$T, _, $U, Vec<$U>>(k, &v, w, mp, false);
                                j.unit = Some(un);
                                let cell = format!("Vec<{}>->Vec<{}>/ret@unit={:e}", <$T as InElem>::NAME, <$U as OutElem>::NAME, $u);
                                j.compare(fname, &key, &cell, &got, exps, case);
                                j.unit = long_scale;
                            }
                        }
                    }};
                }
                upstar!(f64, f64, U_F64_BIG);
                upstar!(f64, f64, U_F64_SMALL);
                // a sum is accumulated in the element type by design: an f32 accumulator over a LONG window rounds
                // at every step (n * 2^-24 relative), which is rounding of the type and not a fault of the kernel
                let f32_sum_fits = |_u: f64| *k != "sum" || w.min(xs.len()) <= 8;
                if f32_sum_fits(U_F32_BIG) {
                    upstar!(f32, f64, U_F32_BIG);
                }
                if f32_sum_fits(U_F32_EDGE) {
                    upstar!(f32, f64, U_F32_EDGE);
                }
                if *k != "sum" {
                    upstar!(i32, f64, U_I32_BIG);
                    upstar!(i64, f64, U_I64_BIG);
                }
            }
            let v: Vec<f64> = enc_vec(xs);
            let got = run_plain::<f64, _, f64, Vec<f64>>(k, &v, w, mp, true);
            j.compare(fname, &key, "Vec<f64>->Vec<f64>/to", &got, exps, case);
            let dq: VecDeque<f64> = crate::roll1::rotated(&v, v.len() / 2 + 1);
            let got = run_plain::<f64, _, f64, Vec<f64>>(k, &dq, w, mp, false);
            j.compare(fname, &key, "VecDeque<f64>(wrapped)->Vec<f64>/ret", &got, exps, case);
            let got = run_plain::<f64, _, f64, VecDeque<f64>>(k, &dq, w, mp, true);
            j.compare(fname, &key, "VecDeque<f64>(wrapped)->VecDeque<f64>/to", &got, exps, case);
            let got = run_plain::<f64, _, f64, VecDeque<f64>>(k, &v, w, mp, Path::Odd(0));
            j.compare(fname, &key, "Vec<f64>->VecDeque<f64>/to(wrapped ring)", &got, exps, case);
            let got = run_plain::<f64, _, f64, Array1<f64>>(k, &dq, w, mp, Path::Odd(0));
            j.compare(fname, &key, "VecDeque<f64>(wrapped)->Array1<f64>/to(step 2 view)", &got, exps, case);
            let sp = Spy::new(1, v.clone());
            clear_log();
            let got = run_plain::<f64, _, f64, SpyOut<f64>>(k, &sp, w, mp, true);
            spy_faults(fname, &key, "Spy<f64>->SpyOut<f64>/to", j, case);
            j.compare(fname, &key, "Spy<f64>->SpyOut<f64>/to", &got, exps, case);
            let got = run_plain::<f64, _, f64, Vec<f64>>(k, &sp, w, mp, false);
            j.compare(fname, &key, "Spy<f64>->Vec<f64>/ret", &got, exps, case);
        }
    }

    // ---- fractional differencing --------------------------------------------------------
    for k in FD_KERNELS {
        if !want(k) {
            continue;
        }
        let Some(exps) = b.exp.get(*k) else { continue };
        let d = fd_order(k).unwrap();
        {
            let fname = "ts_vfdiff";
            let key = b.key(fname, &format!("(d={d})"));
            let v: Vec<f64> = enc_vec(xs);
            let got = run_vfdiff::<f64, _, f64, Vec<f64>>(d, &v, w, mp, false);
            j.compare(fname, &key, "Vec<f64>->Vec<f64>/ret", &got, exps, case);
            let got = run_vfdiff::<f64, _, f64, Vec<f64>>(d, &v, w, mp, true);
            j.compare(fname, &key, "Vec<f64>->Vec<f64>/to", &got, exps, case);
            let vo: Vec<Option<f64>> = enc_vec(xs);
            let got = run_vfdiff::<Option<f64>, _, Option<f64>, Vec<Option<f64>>>(d, &vo, w, mp, false);
            j.compare(fname, &key, "Vec<Option<f64>>->Vec<Option<f64>>/ret", &got, exps, case);
            let sp = Spy::new(1, v.clone());
            clear_log();
            let got = run_vfdiff::<f64, _, f64, SpyOut<f64>>(d, &sp, w, mp, true);
            spy_faults(fname, &key, "Spy<f64>->SpyOut<f64>/to", j, case);
            j.compare(fname, &key, "Spy<f64>->SpyOut<f64>/to", &got, exps, case);
            if nullfree {
                let vi: Vec<i32> = enc_vec(xs);
                let got = run_vfdiff::<i32, _, f64, Vec<f64>>(d, &vi, w, mp, false);
                j.compare(fname, &key, "Vec<i32>->Vec<f64>/ret", &got, exps, case);
            }
        }
        // the plain form has no min_periods: its expectation is the unmasked one (mp = 0)
        if nullfree && b.mp_raw == 0 {
            let fname = "ts_fdiff";
            let key = b.key(fname, &format!("(d={d})"));
            let v: Vec<f64> = enc_vec(xs);
            let got = run_fdiff::<f64, _, f64, Vec<f64>>(d, &v, w, false);
            j.compare(fname, &key, "Vec<f64>->Vec<f64>/ret", &got, exps, case);
            let got = run_fdiff::<f64, _, f64, Vec<f64>>(d, &v, w, true);
            j.compare(fname, &key, "Vec<f64>->Vec<f64>/to", &got, exps, case);
            let vi: Vec<i32> = enc_vec(xs);
            let got = run_fdiff::<i32, _, f64, Vec<f64>>(d, &vi, w, false);
            j.compare(fname, &key, "Vec<i32>->Vec<f64>/ret", &got, exps, case);
            let sp = Spy::new(1, v.clone());
            let got = run_fdiff::<f64, _, f64, Vec<f64>>(d, &sp, w, false);
            j.compare(fname, &key, "Spy<f64>->Vec<f64>/ret", &got, exps, case);
        }
    }
}

pub fn rotated<T: Clone + Default>(xs: &[T], rot: usize) -> VecDeque<T> {
    let mut d: VecDeque<T> = VecDeque::with_capacity(xs.len().max(1));
    for _ in 0..rot {
        d.push_back(T::default());
    }
    for _ in 0..rot {
        d.pop_front();
    }
    for x in xs {
        d.push_back(x.clone());
    }
    d
}

pub fn replay(args: &Args) {
    let cases = read_ndjson(args.req("in"));
    let mut rep = Report::new(args.get("prop").unwrap_or("C01"), args.req("out"));
    let full = args.flag("full");
    let mode = if args.get("mode") == Some("mask") { Mode::Mask } else { Mode::Full };
    let laws = args.get("laws").map(Laws1::load);
    let kernels: Vec<String> = args.get("kernels").map(|s| s.split(',').map(|x| x.to_string()).collect()).unwrap_or_default();
    for v in cases {
        let v = &v;
        if get_str(v, "op") != "roll1" {
            continue;
        }
        let b = Beh::parse(v);
        rep.cases += 1;
        if rep.cases % 997 == 1 {
            rep.sample(v.clone());
        }
        let mut j = Judge { rep: &mut rep, mode, unit: None };
        replay_beh(&b, &kernels, &mut j, full, laws.as_ref());
        j.unit = None;
    }
    rep.finish();
}
