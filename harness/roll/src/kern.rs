//! Kernel dispatch: specification kernel name -> real rolling entry point, generic over the
//! input container, element type, output container, output element type and output path.
use tevec::prelude::*;
use tvh_common::*;

/// how the result is obtained: returned, written into a buffer the library's own `uninit`
/// allocated, or written into a caller-built buffer in an unusual layout (outbuf.rs)
#[derive(Clone, Copy, PartialEq, Debug)]
pub enum Path {
    Ret,
    To,
    Odd(usize),
}
impl From<bool> for Path {
    fn from(to: bool) -> Path {
        if to { Path::To } else { Path::Ret }
    }
}

/// call `$m` (returned) or `$mto` (caller buffer) and hand back the output as a Vec
macro_rules! call {
    ($v:expr, $O:ty, $U:ty, $to:expr; $m:ident, $mto:ident [$($g:tt)*] ( $($arg:expr),* )) => {{
        match Into::<Path>::into($to) {
            Path::To => {
                let mut buf = <$O as Vec1<$U>>::uninit($v.len());
                let r: Option<$O> = $v.$mto::<$O, $U $($g)*>($($arg,)* Some(<$O as Vec1<$U>>::uninit_ref_mut(&mut buf)));
                assert!(r.is_none(), "a caller-buffer call must return None");
                unsafe { buf.assume_init() }.into_vec()
            },
            Path::Odd(layout) => {
                let mut odd = <$O as OutCont<$U>>::odd_alloc(layout, $v.len());
                let r: Option<$O> = $v.$mto::<$O, $U $($g)*>($($arg,)* Some(<$O as OutCont<$U>>::odd_ref(&mut odd)));
                assert!(r.is_none(), "a caller-buffer call must return None");
                match <$O as OutCont<$U>>::odd_read(odd) {
                    Ok(v) => v,
                    Err(e) => panic!("OUT-OF-BUFFER: {e}"),
                }
            },
            Path::Ret => $v.$m::<$O, $U $($g)*>($($arg),*).into_vec(),
        }
    }};
}

pub fn fd_order(k: &str) -> Option<f64> {
    match k {
        "fd_1_2" => Some(0.5),
        "fd_1_1" => Some(1.0),
        "fd_3_2" => Some(1.5),
        "fd_2_1" => Some(2.0),
        _ => None,
    }
}

/// null-aware family (ts_v*), except fdiff (needs a slice bound) — name of the real function
pub fn valid_fn_name(k: &str) -> &'static str {
    match k {
        "sum" => "ts_vsum",
        "mean" => "ts_vmean",
        "ewm" => "ts_vewm",
        "wma" => "ts_vwma",
        "var" => "ts_vvar",
        "std" => "ts_vstd",
        "skew" => "ts_vskew",
        "kurt" => "ts_vkurt",
        "min" => "ts_vmin",
        "max" => "ts_vmax",
        "argmin" => "ts_vargmin",
        "argmax" => "ts_vargmax",
        "rank" | "rank_rev" | "rank_pct" | "rank_rev_pct" => "ts_vrank",
        "zscore" => "ts_vzscore",
        "minmaxnorm" => "ts_vminmaxnorm",
        "reg" => "ts_vreg",
        "tsf" => "ts_vtsf",
        "slope" => "ts_vreg_slope",
        "intercept" => "ts_vreg_intercept",
        "mse" => "ts_vreg_resid_mean",
        "fd_1_2" | "fd_1_1" | "fd_3_2" | "fd_2_1" => "ts_vfdiff",
        "cov" => "ts_vcov",
        "corr" => "ts_vcorr",
        "alpha" => "ts_vregx_alpha",
        "beta" => "ts_vregx_beta",
        "resid_mean" => "ts_vregx_resid_mean",
        "resid_std" => "ts_vregx_resid_std",
        "resid_skew" => "ts_vregx_resid_skew",
        _ => "?",
    }
}
pub fn plain_fn_name(k: &str) -> &'static str {
    match k {
        "sum" => "ts_sum",
        "mean" => "ts_mean",
        "ewm" => "ts_ewm",
        "wma" => "ts_wma",
        "var" => "ts_var",
        "std" => "ts_std",
        "skew" => "ts_skew",
        "kurt" => "ts_kurt",
        "fd_1_2" | "fd_1_1" | "fd_3_2" | "fd_2_1" => "ts_fdiff",
        _ => "?",
    }
}

pub const VALID_KERNELS: &[&str] = &[
    "sum", "mean", "ewm", "wma", "var", "std", "skew", "kurt", "min", "max", "argmin", "argmax", "rank",
    "rank_rev", "rank_pct", "rank_rev_pct", "zscore", "minmaxnorm", "reg", "tsf", "slope", "intercept", "mse",
];
pub const PLAIN_KERNELS: &[&str] = &["sum", "mean", "ewm", "wma", "var", "std", "skew", "kurt"];
pub const FD_KERNELS: &[&str] = &["fd_1_2", "fd_1_1", "fd_3_2", "fd_2_1"];
pub const CMP_KERNELS: &[&str] =
    &["min", "max", "argmin", "argmax", "rank", "rank_rev", "rank_pct", "rank_rev_pct"];
pub const PAIR_KERNELS: &[&str] = &["cov", "corr", "alpha", "beta", "resid_mean", "resid_std", "resid_skew"];

/// the null-aware one-series kernels
pub fn run_valid<T, V, U, O>(k: &str, v: &V, w: usize, mp: Option<usize>, to: impl Into<Path>) -> Result<Vec<U>, String>
where
    T: IsNone,
    T::Inner: Number,
    V: Vec1View<T>,
    U: Clone,
    O: OutCont<U>,
    f64: Cast<U>,
    Option<T::Inner>: Cast<U>,
{
    catch(|| match k {
        "sum" => call!(v, O, U, to; ts_vsum, ts_vsum_to [] (w, mp)),
        "mean" => call!(v, O, U, to; ts_vmean, ts_vmean_to [] (w, mp)),
        "ewm" => call!(v, O, U, to; ts_vewm, ts_vewm_to [] (w, mp)),
        "wma" => call!(v, O, U, to; ts_vwma, ts_vwma_to [] (w, mp)),
        "var" => call!(v, O, U, to; ts_vvar, ts_vvar_to [] (w, mp)),
        "std" => call!(v, O, U, to; ts_vstd, ts_vstd_to [] (w, mp)),
        "skew" => call!(v, O, U, to; ts_vskew, ts_vskew_to [] (w, mp)),
        "kurt" => call!(v, O, U, to; ts_vkurt, ts_vkurt_to [] (w, mp)),
        "min" => call!(v, O, U, to; ts_vmin, ts_vmin_to [] (w, mp)),
        "max" => call!(v, O, U, to; ts_vmax, ts_vmax_to [] (w, mp)),
        "argmin" => call!(v, O, U, to; ts_vargmin, ts_vargmin_to [] (w, mp)),
        "argmax" => call!(v, O, U, to; ts_vargmax, ts_vargmax_to [] (w, mp)),
        "rank" => call!(v, O, U, to; ts_vrank, ts_vrank_to [] (w, mp, false, false)),
        "rank_rev" => call!(v, O, U, to; ts_vrank, ts_vrank_to [] (w, mp, false, true)),
        "rank_pct" => call!(v, O, U, to; ts_vrank, ts_vrank_to [] (w, mp, true, false)),
        "rank_rev_pct" => call!(v, O, U, to; ts_vrank, ts_vrank_to [] (w, mp, true, true)),
        "zscore" => call!(v, O, U, to; ts_vzscore, ts_vzscore_to [] (w, mp)),
        "minmaxnorm" => call!(v, O, U, to; ts_vminmaxnorm, ts_vminmaxnorm_to [] (w, mp)),
        "reg" => call!(v, O, U, to; ts_vreg, ts_vreg_to [] (w, mp)),
        "tsf" => call!(v, O, U, to; ts_vtsf, ts_vtsf_to [] (w, mp)),
        "slope" => call!(v, O, U, to; ts_vreg_slope, ts_vreg_slope_to [] (w, mp)),
        "intercept" => call!(v, O, U, to; ts_vreg_intercept, ts_vreg_intercept_to [] (w, mp)),
        "mse" => call!(v, O, U, to; ts_vreg_resid_mean, ts_vreg_resid_mean_to [] (w, mp)),
        _ => panic!("harness: unknown kernel {k}"),
    })
}

/// the plain one-series kernels (no null handling; null-free input only)
pub fn run_plain<T, V, U, O>(k: &str, v: &V, w: usize, mp: Option<usize>, to: impl Into<Path>) -> Result<Vec<U>, String>
where
    T: Number,
    V: Vec1View<T>,
    U: Clone,
    O: OutCont<U>,
    f64: Cast<U>,
{
    catch(|| match k {
        "sum" => call!(v, O, U, to; ts_sum, ts_sum_to [] (w, mp)),
        "mean" => call!(v, O, U, to; ts_mean, ts_mean_to [] (w, mp)),
        "ewm" => call!(v, O, U, to; ts_ewm, ts_ewm_to [] (w, mp)),
        "wma" => call!(v, O, U, to; ts_wma, ts_wma_to [] (w, mp)),
        "var" => call!(v, O, U, to; ts_var, ts_var_to [] (w, mp)),
        "std" => call!(v, O, U, to; ts_std, ts_std_to [] (w, mp)),
        "skew" => call!(v, O, U, to; ts_skew, ts_skew_to [] (w, mp)),
        "kurt" => call!(v, O, U, to; ts_kurt, ts_kurt_to [] (w, mp)),
        _ => panic!("harness: unknown kernel {k}"),
    })
}

/// fractional differencing, null-aware
pub fn run_vfdiff<T, V, U, O>(d: f64, v: &V, w: usize, mp: Option<usize>, to: impl Into<Path>) -> Result<Vec<U>, String>
where
    T: IsNone,
    T::Inner: Number,
    V: Vec1View<T>,
    for<'a> V::SliceOutput<'a>: TIter<T>,
    U: Clone,
    O: OutCont<U>,
    f64: Cast<U>,
{
    catch(|| call!(v, O, U, to; ts_vfdiff, ts_vfdiff_to [] (d, w, mp)))
}

/// fractional differencing, plain
pub fn run_fdiff<T, V, U, O>(d: f64, v: &V, w: usize, to: impl Into<Path>) -> Result<Vec<U>, String>
where
    T: Cast<f64> + Clone,
    V: Vec1View<T>,
    for<'a> V::SliceOutput<'a>: TIter<T>,
    U: Clone,
    O: OutCont<U>,
    f64: Cast<U>,
{
    catch(|| call!(v, O, U, to; ts_fdiff, ts_fdiff_to [] (d, w)))
}

/// the two-series kernels: first series regressed on / correlated with the second
pub fn run_pair<T, V, V2, U, O>(k: &str, a: &V, b: &V2, w: usize, mp: Option<usize>, to: impl Into<Path>) -> Result<Vec<U>, String>
where
    T: IsNone,
    T::Inner: Number,
    V: Vec1View<T>,
    V2: Vec1View<T>,
    U: Clone,
    O: OutCont<U>,
    f64: Cast<U>,
{
    catch(|| match k {
        "cov" => call!(a, O, U, to; ts_vcov, ts_vcov_to [, _, _] (b, w, mp)),
        "corr" => call!(a, O, U, to; ts_vcorr, ts_vcorr_to [, _, _] (b, w, mp)),
        "alpha" => call!(a, O, U, to; ts_vregx_alpha, ts_vregx_alpha_to [, _, _] (b, w, mp)),
        "beta" => call!(a, O, U, to; ts_vregx_beta, ts_vregx_beta_to [, _, _] (b, w, mp)),
        "resid_mean" => call!(a, O, U, to; ts_vregx_resid_mean, ts_vregx_resid_mean_to [, _, _] (b, w, mp)),
        "resid_std" => call!(a, O, U, to; ts_vregx_resid_std, ts_vregx_resid_std_to [, _, _] (b, w, mp)),
        "resid_skew" => call!(a, O, U, to; ts_vregx_resid_skew, ts_vregx_resid_skew_to [, _, _] (b, w, mp)),
        _ => panic!("harness: unknown kernel {k}"),
    })
}

/// (alpha, beta, SSE) triple; returned path only (the library offers no caller-buffer form)
pub fn run_regx_all<T, V, V2, U>(a: &V, b: &V2, w: usize, mp: Option<usize>) -> Result<Vec<(U, U, U)>, String>
where
    T: IsNone,
    T::Inner: Number,
    V: Vec1View<T>,
    V2: Vec1View<T>,
    U: Clone,
    f64: Cast<U>,
{
    catch(|| a.ts_vregx_all::<Vec<(U, U, U)>, U, _, _>(b, w, mp))
}
