//! Conformance harness for the rolling subsystem (C01-C06, C10 driver part).
mod kern;
mod roll1;
mod roll2;
mod prefix;
mod rec;
mod window;

use tvh_common::*;

fn main() {
    guarded_main(run);
}

fn run() {
    let args = Args::from_env();
    match args.cmd() {
        "replay-window" => window::replay(&args),
        "record-window" => window::record(&args),
        "replay-kernel-safety" => window::kernel_safety(&args),
        "replay-roll1" => roll1::replay(&args),
        "replay-roll2" => roll2::replay(&args),
        "record-roll1" => rec::record_roll1(&args),
        "record-roll2" => rec::record_roll2(&args),
        "replay-prefix" => prefix::replay(&args),
        "replay-history" => prefix::history(&args),
        other => tool_error(&format!("unknown command {other:?}")),
    }
}
