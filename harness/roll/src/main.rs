//! Conformance harness for the rolling subsystem (C01-C06, C10 driver part).
mod window;

use tvh_common::*;

fn main() {
    silence_panics();
    let args = Args::from_env();
    match args.cmd() {
        "replay-window" => window::replay(&args),
        "record-window" => window::record(&args),
        other => tool_error(&format!("unknown command {other:?}")),
    }
}
