//! Spec -> impl replay of RollKernels2.tla behaviours (`op = roll2`) into the real two-series
//! rolling entry points.
use std::collections::{BTreeMap, VecDeque};

use serde_json::Value;
use tevec::export::ndarray::Array1;
use tevec::prelude::*;
use tvh_common::*;

use crate::kern::*;
use crate::roll1::{Judge, Mode, U_F32_BIG, U_F32_SMALL, U_F64_BIG, U_F64_SMALL, U_I32_BIG};

pub struct Beh2 {
    pub w: usize,
    pub mp: Option<usize>,
    pub mp_raw: i64,
    pub xs: Vec<i64>,
    pub ys: Vec<i64>,
    pub exp: BTreeMap<String, Vec<Exp>>,
    pub raw: Value,
}

impl Beh2 {
    pub fn parse(v: &Value) -> Beh2 {
        let mp_raw = get_i64(v, "mp");
        let exp = v["exp"].as_object().unwrap().iter().map(|(k, e)| (k.clone(), Exp::parse_seq(e))).collect();
        Beh2 {
            w: get_i64(v, "w") as usize,
            mp: if mp_raw < 0 { None } else { Some(mp_raw as usize) },
            mp_raw,
            xs: get_ints(v, "xs"),
            ys: get_ints(v, "ys"),
            exp,
            raw: v.clone(),
        }
    }
    pub fn key(&self, fname: &str) -> String {
        format!("{fname}|w={},mp={}|xs={:?},ys={:?}", self.w, self.mp_raw, self.xs, self.ys)
    }
}

/// The degree table TLC emits from Laws2.tla (`op = laws2`).
pub struct Laws2 {
    pub dega: BTreeMap<String, i32>,
    pub degb: BTreeMap<String, i32>,
}
impl Laws2 {
    pub fn load(path: &str) -> Laws2 {
        for v in read_ndjson(path) {
            if get_str(&v, "op") == "laws2" {
                let tab = |f: &str| -> BTreeMap<String, i32> {
                    v[f].as_object()
                        .unwrap_or_else(|| tool_error("laws2 table missing"))
                        .iter()
                        .map(|(k, d)| (k.clone(), d.as_i64().unwrap() as i32))
                        .collect()
                };
                return Laws2 { dega: tab("dega"), degb: tab("degb") };
            }
        }
        tool_error(&format!("no laws2 record in {path}"))
    }
    /// first series in unit ua, second in unit ub
    pub fn unit(&self, k: &str, ua: f64, ub: f64, ma: i64, mb: i64) -> Option<Unit> {
        let (da, db) = (*self.dega.get(k)?, *self.degb.get(k)?);
        let factor = ua.powi(da) * ub.powi(db);
        // magnitude of the terms a result that is zero in exact arithmetic is a residue of
        let floor = factor * (ma.max(1) as f64).powi(da) * (mb.max(1) as f64).powi(db.abs()) * 10.0;
        Some(Unit { factor, floor })
    }
}

pub fn replay_beh2(b: &Beh2, kernels: &[String], j: &mut Judge, full: bool, laws: Option<&Laws2>) {
    let (ma, mb) = (max_abs(&b.xs), max_abs(&b.ys));
    let (w, mp) = (b.w, b.mp);
    let case = &b.raw;
    let nullfree = !has_null(&b.xs) && !has_null(&b.ys);
    let want = |k: &str| kernels.is_empty() || any_of(kernels.iter(), |x| x == k);
    for k in PAIR_KERNELS {
        if !want(k) {
            continue;
        }
        let Some(exps) = b.exp.get(*k) else { continue };
        let fname = valid_fn_name(k);
        let key = b.key(fname);
        macro_rules! cell {
            ($T:ty, $T2:ty, $U:ty) => {{
                let a: Vec<$T> = enc_vec(&b.xs);
                let c: Vec<$T> = enc_vec(&b.ys);
                let _ = std::marker::PhantomData::<$T2>;
                let got = run_pair::<$T, _, _, $U, Vec<$U>>(k, &a, &c, w, mp, false);
                j.compare(fname, &key, concat!("Vec<", stringify!($T), ">x2->Vec<", stringify!($U), ">/ret"), &got, exps, case);
            }};
        }
        cell!(f64, f64, f64);
        cell!(f64, f64, Option<f64>);
        cell!(Option<f64>, Option<f64>, f64);
        if full {
            cell!(f64, f64, f32);
            cell!(f64, f64, i32);
            cell!(f32, f32, f64);
            cell!(Option<i32>, Option<i32>, Option<f64>);
        }
        if nullfree {
            cell!(i32, i32, f64);
            if full {
                cell!(i64, i64, f64);
            }
        }
        // ---- the same two series in other units of measurement (Laws2.tla) ----
        if let Some(l) = laws {
            macro_rules! ucell {
                ($T:ty, $U:ty, $ua:expr, $ub:expr, $to:expr) => {{
                    if let Some(un) = l.unit(k, $ua, $ub, ma, mb) {
                        if <$T as InElem>::fits(ma, $ua) && <$T as InElem>::fits(mb, $ub) {
                            let a: Vec<$T> = enc_vec_unit(&b.xs, $ua);
                            let c: Vec<$T> = enc_vec_unit(&b.ys, $ub);
                            let got = run_pair::<$T, _, _, $U, Vec<$U>>(k, &a, &c, w, mp, $to);
                            j.unit = Some(un);
                            let cell = format!("Vec<{}>x2->Vec<{}>/{}@units={:e},{:e}", <$T as InElem>::NAME, <$U as OutElem>::NAME,
                                               if $to { "to" } else { "ret" }, $ua, $ub);
                            j.compare(fname, &key, &cell, &got, exps, case);
                            j.unit = None;
                        }
                    }
                }};
            }
            ucell!(f64, f64, U_F64_BIG, U_F64_SMALL, false);
            ucell!(f64, f64, U_F64_SMALL, U_F64_SMALL, false);
            ucell!(f64, Option<f64>, U_F64_SMALL, U_F64_BIG, true);
            ucell!(Option<f64>, f64, U_F64_BIG, U_F64_BIG, false);
            ucell!(f32, f64, U_F32_BIG, U_F32_SMALL, false);
            ucell!(Option<i32>, f64, U_I32_BIG, 1.0, false);
            if nullfree {
                ucell!(i32, f64, U_I32_BIG, U_I32_BIG, false);
            }
        }
        let a: Vec<f64> = enc_vec(&b.xs);
        let c: Vec<f64> = enc_vec(&b.ys);
        let got = run_pair::<f64, _, _, f64, Vec<f64>>(k, &a, &c, w, mp, true);
        j.compare(fname, &key, "Vec<f64>x2->Vec<f64>/to", &got, exps, case);
        // deques whose storage wraps (iterator bodies + positional reads) and the option view
        let (da, dc) = (crate::roll1::rotated(&a, a.len() / 2 + 1), crate::roll1::rotated(&c, 1));
        let got = run_pair::<f64, _, _, f64, Vec<f64>>(k, &da, &dc, w, mp, false);
        j.compare(fname, &key, "VecDeque<f64>(wrapped)x2->Vec<f64>/ret", &got, exps, case);
        let got = run_pair::<f64, _, _, f64, VecDeque<f64>>(k, &da, &c, w, mp, true);
        j.compare(fname, &key, "VecDeque<f64>(wrapped)+Vec<f64>->VecDeque<f64>/to", &got, exps, case);
        {
            let (oa, oc) = (a.opt(), c.opt());
            let got = run_pair::<Option<f64>, _, _, f64, Vec<f64>>(k, &oa, &oc, w, mp, false);
            j.compare(fname, &key, "OptIter<Vec<f64>>x2->Vec<f64>/ret", &got, exps, case);
        }
        // caller-supplied output buffers in layouts the library does not allocate itself
        let got = run_pair::<f64, _, _, f64, VecDeque<f64>>(k, &a, &c, w, mp, Path::Odd(0));
        j.compare(fname, &key, "Vec<f64>x2->VecDeque<f64>/to(wrapped ring)", &got, exps, case);
        let got = run_pair::<f64, _, _, f64, Array1<f64>>(k, &a, &dc, w, mp, Path::Odd(0));
        j.compare(fname, &key, "Vec<f64>+VecDeque<f64>->Array1<f64>/to(step 2 view)", &got, exps, case);
        if full {
            let got = run_pair::<f64, _, _, f64, Array1<f64>>(k, &da, &dc, w, mp, Path::Odd(1));
            j.compare(fname, &key, "VecDeque<f64>(wrapped)x2->Array1<f64>/to(reversed view)", &got, exps, case);
            let got = run_pair::<f64, _, _, f64, Vec<f64>>(k, &a, &c, w, mp, Path::Odd(0));
            j.compare(fname, &key, "Vec<f64>x2->Vec<f64>/to(sub-slice)", &got, exps, case);
        }
        let (sa, sc) = (Spy::new(1, a.clone()), Spy::new(2, c.clone()));
        clear_log();
        let got = run_pair::<f64, _, _, f64, SpyOut<f64>>(k, &sa, &sc, w, mp, true);
        let faults = safety_faults(&take_log());
        if !faults.is_empty() {
            j.rep.mismatch(fname, fname, &key, "Spy<f64>x2->SpyOut<f64>/to",
                &format!("memory-safety envelope broken: {}", faults.join("; ")), case);
        }
        j.compare(fname, &key, "Spy<f64>x2->SpyOut<f64>/to", &got, exps, case);
        let got = run_pair::<f64, _, _, f64, Vec<f64>>(k, &sa, &sc, w, mp, false);
        j.compare(fname, &key, "Spy<f64>x2->Vec<f64>/ret", &got, exps, case);
        let got = run_pair::<f64, _, _, f64, Vec<f64>>(k, &a, &sc, w, mp, false);
        j.compare(fname, &key, "Vec<f64>+Spy<f64>->Vec<f64>/ret", &got, exps, case);
    }
    // the (alpha, beta, SSE) triple
    if want("sse") || want("all") {
        if let (Some(ea), Some(eb), Some(es)) = (b.exp.get("alpha"), b.exp.get("beta"), b.exp.get("sse")) {
            let fname = "ts_vregx_all";
            let key = b.key(fname);
            macro_rules! triple {
                ($T:ty, $a:expr, $c:expr, $cell:expr) => {{
                    let got = run_regx_all::<$T, _, _, f64>($a, $c, w, mp);
                    let split = |f: fn(&(f64, f64, f64)) -> f64| -> Result<Vec<f64>, String> {
                        got.as_ref().map(|v| v.iter().map(f).collect()).map_err(|e| e.clone())
                    };
                    j.compare(fname, &format!("{key}#alpha"), $cell, &split(|t| t.0), ea, case);
                    j.compare(fname, &format!("{key}#beta"), $cell, &split(|t| t.1), eb, case);
                    j.compare(fname, &format!("{key}#sse"), $cell, &split(|t| t.2), es, case);
                }};
            }
            let a: Vec<f64> = enc_vec(&b.xs);
            let c: Vec<f64> = enc_vec(&b.ys);
            triple!(f64, &a, &c, "Vec<f64>x2->Vec<(f64,f64,f64)>/ret");
            let (sa, sc) = (Spy::new(1, a.clone()), Spy::new(2, c.clone()));
            triple!(f64, &sa, &sc, "Spy<f64>x2->Vec<(f64,f64,f64)>/ret");
            let ao: Vec<Option<f64>> = enc_vec(&b.xs);
            let co: Vec<Option<f64>> = enc_vec(&b.ys);
            triple!(Option<f64>, &ao, &co, "Vec<Option<f64>>x2->Vec<(f64,f64,f64)>/ret");
        }
    }
}

pub fn replay(args: &Args) {
    let cases = read_ndjson(args.req("in"));
    let mut rep = Report::new(args.get("prop").unwrap_or("C04"), args.req("out"));
    let full = args.flag("full");
    let mode = if args.get("mode") == Some("mask") { Mode::Mask } else { Mode::Full };
    let kernels: Vec<String> = args.get("kernels").map(|s| s.split(',').map(|x| x.to_string()).collect()).unwrap_or_default();
    let laws = args.get("laws").map(Laws2::load);
    for v in cases {
        let v = &v;
        if get_str(v, "op") != "roll2" {
            continue;
        }
        let b = Beh2::parse(v);
        rep.cases += 1;
        if rep.cases % 9973 == 1 {
            rep.sample(v.clone());
        }
        let mut j = Judge { rep: &mut rep, mode, unit: None };
        replay_beh2(&b, &kernels, &mut j, full, laws.as_ref());
    }
    rep.finish();
}
