//! C02 / C10 (driver part): the rolling drivers, driven with recording stateful callbacks on
//! every backend, compared with the REQUIRED invocation list emitted by Window.tla (replay) and
//! recorded as event traces for TraceWindow.tla (record).
use std::collections::VecDeque;
use std::sync::Arc;

use serde_json::{Value, json};
use tevec::export::ndarray::{Array1, ArrayView1, s};
use tevec::prelude::*;
use tvh_common::*;

use crate::kern::Path;

pub const X0: i64 = 10; // xs[i] = X0 + i
pub const Y0: i64 = 1000; // ys[i] = Y0 + i
const NONE: i64 = -1;
const ANY: i64 = -2;

pub trait Code: Clone {
    fn code(&self) -> i64;
}
impl Code for i64 {
    fn code(&self) -> i64 {
        *self
    }
}
impl Code for Option<i64> {
    fn code(&self) -> i64 {
        self.unwrap_or(NULL)
    }
}
impl Code for Tok {
    fn code(&self) -> i64 {
        self.code
    }
}
impl SliceItems for &[Tok] {
    fn items(self) -> Vec<i64> {
        self.iter().map(|t| t.code).collect()
    }
}
impl SliceItems for std::collections::vec_deque::Iter<'_, Tok> {
    fn items(self) -> Vec<i64> {
        self.map(|t| t.code).collect()
    }
}

/// the content of a window slice, whatever the backend's slice type is
pub trait SliceItems {
    fn items(self) -> Vec<i64>;
}
impl SliceItems for &[i64] {
    fn items(self) -> Vec<i64> {
        self.to_vec()
    }
}
impl SliceItems for std::collections::vec_deque::Iter<'_, i64> {
    fn items(self) -> Vec<i64> {
        self.cloned().collect()
    }
}
impl SliceItems for ArrayView1<'_, i64> {
    fn items(self) -> Vec<i64> {
        self.iter().cloned().collect()
    }
}
impl SliceItems for Vec<Option<i64>> {
    fn items(self) -> Vec<i64> {
        self.iter().map(|v| v.code()).collect()
    }
}

/// output containers the harness can read back / pre-fill
pub trait OutVec: Vec1<i64> {
    const NAME: &'static str;
    fn to_vec(&self) -> Vec<i64>;
}
impl OutVec for Vec<i64> {
    const NAME: &'static str = "Vec";
    fn to_vec(&self) -> Vec<i64> {
        self.clone()
    }
}
impl OutVec for SpyOut<i64> {
    const NAME: &'static str = "SpyOut";
    fn to_vec(&self) -> Vec<i64> {
        self.0.clone()
    }
}
impl OutVec for VecDeque<i64> {
    const NAME: &'static str = "VecDeque";
    fn to_vec(&self) -> Vec<i64> {
        self.iter().cloned().collect()
    }
}
impl OutVec for Array1<i64> {
    const NAME: &'static str = "Array1";
    fn to_vec(&self) -> Vec<i64> {
        self.iter().cloned().collect()
    }
}

#[derive(Clone, Debug, PartialEq)]
pub struct CallRec {
    pub start: i64, // NONE or index
    pub end: i64,
    pub start2: i64,
    pub end2: i64,
    pub lo: i64,
    pub hi: i64,
    pub lo2: i64,
    pub hi2: i64,
    pub r: i64,
}

struct Recorder {
    calls: Vec<CallRec>,
    acc: i64,
}
impl Recorder {
    fn new() -> Self {
        Recorder { calls: Vec::new(), acc: 7 }
    }
    /// record one invocation, return the (stateful) result the callback hands back
    fn call(&mut self, mut c: CallRec) -> i64 {
        let h = c.start * 3 + c.end * 5 + c.start2 * 7 + c.end2 * 11 + c.lo * 13 + c.hi * 17 + c.lo2 * 19 + c.hi2 * 23;
        self.acc = (self.acc.wrapping_mul(31).wrapping_add(h)).rem_euclid(1 << 28);
        c.r = self.acc;
        log(Ev::Mark(json!({"e": "call", "k": self.calls.len(), "start": c.start, "end": c.end,
            "start2": c.start2, "end2": c.end2, "lo": c.lo, "hi": c.hi, "lo2": c.lo2, "hi2": c.hi2,
            "r": c.r})));
        self.calls.push(c);
        self.acc
    }
}

fn blank() -> CallRec {
    CallRec { start: NONE, end: NONE, start2: NONE, end2: NONE, lo: NONE, hi: NONE, lo2: NONE, hi2: NONE, r: 0 }
}

fn span(items: &[i64], base: i64) -> (i64, i64) {
    // position-coded values: a contiguous slice [lo, hi) shows as base+lo .. base+hi-1
    if items.is_empty() {
        return (0, 0);
    }
    let lo = items[0] - base;
    let hi = lo + items.len() as i64;
    let contiguous = Iterator::all(&mut items.iter().enumerate(), |(k, v)| *v - base == lo + k as i64);
    if contiguous { (lo, hi) } else { (-7, -7) }
}

pub struct Run {
    pub calls: Vec<CallRec>,
    pub out: Result<Vec<i64>, String>,
    pub log: Vec<Ev>,
}

/// element forms: apply, idx, apply2, idx2
pub fn run_elem<T, V, V2, O>(form: &str, v: &V, v2: &V2, w: usize, to: impl Into<Path>) -> Run
where
    T: Code,
    V: Vec1View<T>,
    V2: Vec1View<T>,
    O: OutVec + OutCont<i64>,
{
    clear_log();
    let mut rec = Recorder::new();
    let len = v.len();
    let path: Path = to.into();
    tok_faults_take();
    tok_guard(true);
    let out = catch(|| {
        let rec = &mut rec;
        let mut buf = if path == Path::To { Some(O::uninit(len)) } else { None };
        let mut odd = if let Path::Odd(layout) = path { Some(<O as OutCont<i64>>::odd_alloc(layout, len)) } else { None };
        let ret: Option<O> = {
            let o = match (buf.as_mut(), odd.as_mut()) {
                (Some(b), _) => Some(O::uninit_ref_mut(b)),
                (_, Some(d)) => Some(<O as OutCont<i64>>::odd_ref(d)),
                _ => None,
            };
            match form {
                "apply" => v.rolling_apply::<O, i64, _>(
                    w,
                    |rm: Option<T>, x: T| {
                        let mut c = blank();
                        c.start = rm.map(|r| r.code() - X0).unwrap_or(NONE);
                        c.end = x.code() - X0;
                        rec.call(c)
                    },
                    o,
                ),
                "idx" => v.rolling_apply_idx::<O, i64, _>(
                    w,
                    |st: Option<usize>, end: usize, x: T| {
                        let mut c = blank();
                        c.start = st.map(|s| s as i64).unwrap_or(NONE);
                        c.end = end as i64;
                        c.end2 = x.code() - X0; // the element handed over must be the one at `end`
                        c.start2 = c.start;
                        rec.call(c)
                    },
                    o,
                ),
                "apply2" => v.rolling2_apply::<O, i64, V2, T, _>(
                    v2,
                    w,
                    |rm: Option<(T, T)>, (x, y): (T, T)| {
                        let mut c = blank();
                        if let Some((r1, r2)) = rm {
                            c.start = r1.code() - X0;
                            c.start2 = r2.code() - Y0;
                        }
                        c.end = x.code() - X0;
                        c.end2 = y.code() - Y0;
                        rec.call(c)
                    },
                    o,
                ),
                "idx2" => v.rolling2_apply_idx::<O, i64, V2, T, _>(
                    v2,
                    w,
                    |st: Option<usize>, end: usize, (x, y): (T, T)| {
                        let mut c = blank();
                        c.start = st.map(|s| s as i64).unwrap_or(NONE);
                        c.start2 = c.start;
                        c.end = end as i64;
                        // both elements must be the ones at `end`
                        c.end2 = if x.code() - X0 == y.code() - Y0 { x.code() - X0 } else { -7 };
                        rec.call(c)
                    },
                    o,
                ),
                _ => unreachable!(),
            }
        };
        match (ret, buf, odd) {
            (Some(o), None, None) => o.to_vec(),
            (None, Some(b), None) => unsafe { b.assume_init() }.to_vec(),
            (None, None, Some(d)) => match <O as OutCont<i64>>::odd_read(d) {
                Ok(v) => v,
                Err(e) => panic!("OUT-OF-BUFFER: {e}"),
            },
            _ => panic!("driver returned both or neither of buffer and value"),
        }
    });
    tok_guard(false);
    let tf = tok_faults_take();
    let out = if tf.is_empty() { out } else { Err(format!("ELEMENT-OWNERSHIP: {}", tf[0])) };
    Run { calls: rec.calls, out, log: take_log() }
}

/// one-series slice forms: custom, citer
pub fn run_slice1<'a, T, V, O>(form: &str, v: &'a V, w: usize, to: impl Into<Path>) -> Run
where
    T: Code + 'a,
    V: Vec1View<T>,
    O: OutVec + OutCont<i64>,
    V::SliceOutput<'a>: SliceItems,
{
    clear_log();
    let mut rec = Recorder::new();
    let len = v.len();
    let path: Path = to.into();
    tok_faults_take();
    tok_guard(true);
    let out = catch(|| {
        let rec = &mut rec;
        let mut buf = if path == Path::To { Some(O::uninit(len)) } else { None };
        let mut odd = if let Path::Odd(layout) = path { Some(<O as OutCont<i64>>::odd_alloc(layout, len)) } else { None };
        let ret: Option<O> = {
            let o = match (buf.as_mut(), odd.as_mut()) {
                (Some(b), _) => Some(O::uninit_ref_mut(b)),
                (_, Some(d)) => Some(<O as OutCont<i64>>::odd_ref(d)),
                _ => None,
            };
            match form {
                "custom" => v.rolling_custom::<O, i64, _>(
                    w,
                    |sl| {
                        let mut c = blank();
                        (c.lo, c.hi) = span(&sl.items(), X0);
                        rec.call(c)
                    },
                    o,
                ),
                "citer" => {
                    let it = v.rolling_custom_iter(w, |sl| {
                        let mut c = blank();
                        (c.lo, c.hi) = span(&sl.items(), X0);
                        rec.call(c)
                    });
                    // plain, safe iteration: the announced length is C09's business
                    let items: Vec<i64> = it.collect();
                    return items;
                },
                _ => unreachable!(),
            }
        };
        match (ret, buf, odd) {
            (Some(o), None, None) => o.to_vec(),
            (None, Some(b), None) => unsafe { b.assume_init() }.to_vec(),
            (None, None, Some(d)) => match <O as OutCont<i64>>::odd_read(d) {
                Ok(v) => v,
                Err(e) => panic!("OUT-OF-BUFFER: {e}"),
            },
            _ => panic!("driver returned both or neither of buffer and value"),
        }
    });
    tok_guard(false);
    let tf = tok_faults_take();
    let out = if tf.is_empty() { out } else { Err(format!("ELEMENT-OWNERSHIP: {}", tf[0])) };
    Run { calls: rec.calls, out, log: take_log() }
}

/// two-series slice form: custom2
pub fn run_slice2<T, V, V2, O>(v: &V, v2: &V2, w: usize, to: impl Into<Path>) -> Run
where
    T: Code,
    V: Vec1View<T>,
    V2: Vec1View<T>,
    O: OutVec + OutCont<i64>,
    for<'a> V::SliceOutput<'a>: SliceItems,
    for<'a> V2::SliceOutput<'a>: SliceItems,
{
    clear_log();
    let mut rec = Recorder::new();
    let len = v.len();
    let path: Path = to.into();
    tok_faults_take();
    tok_guard(true);
    let out = catch(|| {
        let rec = &mut rec;
        let mut buf = if path == Path::To { Some(O::uninit(len)) } else { None };
        let mut odd = if let Path::Odd(layout) = path { Some(<O as OutCont<i64>>::odd_alloc(layout, len)) } else { None };
        let ret: Option<O> = {
            let o = match (buf.as_mut(), odd.as_mut()) {
                (Some(b), _) => Some(O::uninit_ref_mut(b)),
                (_, Some(d)) => Some(<O as OutCont<i64>>::odd_ref(d)),
                _ => None,
            };
            v.rolling2_custom::<O, i64, V2, T, _>(
                v2,
                w,
                |s1, s2| {
                    let mut c = blank();
                    (c.lo, c.hi) = span(&s1.items(), X0);
                    (c.lo2, c.hi2) = span(&s2.items(), Y0);
                    rec.call(c)
                },
                o,
            )
        };
        match (ret, buf, odd) {
            (Some(o), None, None) => o.to_vec(),
            (None, Some(b), None) => unsafe { b.assume_init() }.to_vec(),
            (None, None, Some(d)) => match <O as OutCont<i64>>::odd_read(d) {
                Ok(v) => v,
                Err(e) => panic!("OUT-OF-BUFFER: {e}"),
            },
            _ => panic!("driver returned both or neither of buffer and value"),
        }
    });
    tok_guard(false);
    let tf = tok_faults_take();
    let out = if tf.is_empty() { out } else { Err(format!("ELEMENT-OWNERSHIP: {}", tf[0])) };
    Run { calls: rec.calls, out, log: take_log() }
}

fn is_slicing(form: &str) -> bool {
    matches!(form, "custom" | "custom2" | "citer")
}
fn is_two(form: &str) -> bool {
    matches!(form, "apply2" | "idx2" | "custom2")
}
fn has_to(form: &str) -> bool {
    matches!(form, "apply" | "idx" | "apply2" | "idx2" | "custom")
}

pub struct Case {
    pub form: String,
    pub len: usize,
    pub len2: usize,
    pub w: usize,
    pub outcome: String,
    pub calls: Vec<(i64, i64, i64)>,
    pub raw: Value,
}

impl Case {
    pub fn parse(v: &Value) -> Case {
        let calls = v["calls"]
            .as_array()
            .unwrap()
            .iter()
            .map(|c| (c[0].as_i64().unwrap(), c[1].as_i64().unwrap(), c[2].as_i64().unwrap()))
            .collect();
        Case {
            form: get_str(v, "form").to_string(),
            len: get_i64(v, "len") as usize,
            len2: get_i64(v, "len2") as usize,
            w: get_i64(v, "w") as usize,
            outcome: get_str(v, "outcome").to_string(),
            calls,
            raw: v.clone(),
        }
    }
    pub fn key(&self) -> String {
        format!("{}|len={},len2={},w={}", self.form, self.len, self.len2, self.w)
    }
    pub fn site(&self) -> String {
        let cls = if self.w == 0 {
            "w=0"
        } else if self.len2 != self.len {
            "len2!=len"
        } else if self.len == 0 {
            "empty"
        } else if self.w > self.len {
            "w>len"
        } else {
            "regular"
        };
        format!("{}|{}", self.form, cls)
    }
}

/// Judge one run against the required protocol.  Returns a description of the first deviation.
pub fn judge(case: &Case, run: &Run) -> Result<(), String> {
    let faults = safety_faults(&run.log);
    if !faults.is_empty() {
        return Err(format!("memory-safety envelope broken: {}", faults.join("; ")));
    }
    match (&run.out, case.outcome.as_str()) {
        (Err(msg), _) if msg.contains(SPY_OOB) => Err("out-of-bounds access".into()),
        (Err(_), "panic") | (Err(_), "either") => Ok(()),
        (Err(msg), _) => Err(format!("panicked on a valid request: {msg}")),
        (Ok(out), "panic") => {
            // A degenerate request may also produce a fully defined result; what it must not
            // do is expose unwritten memory or read out of bounds (checked above for the
            // instrumented containers).  With ordinary containers an unwritten buffer cannot
            // be observed soundly, so the only acceptable non-panic result is one whose every
            // element was produced by a callback invocation.
            let produced: Vec<i64> = run.calls.iter().map(|c| c.r).collect();
            if Iterator::all(&mut out.iter(), |o| produced.contains(o)) {
                Ok(())
            } else {
                Err(format!(
                    "degenerate request returned {} element(s) not produced by any callback ({} invocations)",
                    out.iter().filter(|o| !produced.contains(o)).count(),
                    produced.len()
                ))
            }
        },
        (Ok(out), _) => {
            if run.calls.len() != case.len {
                return Err(format!("{} callback invocations for {} positions", run.calls.len(), case.len));
            }
            for (k, c) in run.calls.iter().enumerate() {
                let (st, lo, hi) = case.calls[k];
                if is_slicing(&case.form) {
                    if (c.lo, c.hi) != (lo, hi) {
                        return Err(format!("position {k}: slice [{},{}) handed over, required [{lo},{hi})", c.lo, c.hi));
                    }
                    if case.form == "custom2" && (c.lo2, c.hi2) != (lo, hi) {
                        return Err(format!("position {k}: second slice [{},{}) handed over, required [{lo},{hi})", c.lo2, c.hi2));
                    }
                } else {
                    if c.end != k as i64 {
                        return Err(format!("invocation {k} is for position {}", c.end));
                    }
                    if c.end2 != NONE && c.end2 != k as i64 && (is_two(&case.form) || case.form == "idx") {
                        return Err(format!("position {k}: element of position {} handed over", c.end2));
                    }
                    if st != ANY {
                        if c.start != st {
                            return Err(format!("position {k}: window start {} handed over, required {st}", c.start));
                        }
                        if (is_two(&case.form) || case.form == "idx") && c.start2 != st {
                            return Err(format!("position {k}: second-series window start {} handed over, required {st}", c.start2));
                        }
                    }
                }
            }
            if out.len() != case.len {
                return Err(format!("output of length {} for input of length {}", out.len(), case.len));
            }
            for (k, c) in run.calls.iter().enumerate() {
                if out[k] != c.r {
                    return Err(format!("output[{k}] is not the result of the invocation for position {k}"));
                }
            }
            Ok(())
        },
    }
}

fn xs_of(len: usize, base: i64) -> Vec<i64> {
    (0..len as i64).map(|i| base + i).collect()
}

/// a VecDeque whose ring buffer is rotated so that the content wraps around
pub fn rotated_deque(xs: &[i64], rot: usize) -> VecDeque<i64> {
    let mut d: VecDeque<i64> = VecDeque::with_capacity(xs.len().max(1));
    for _ in 0..rot {
        d.push_back(0);
    }
    for _ in 0..rot {
        d.pop_front();
    }
    for x in xs {
        d.push_back(*x);
    }
    d
}

/// A purely stateful callback that returns nothing: the output element type has size ZERO (Vec<()>).  The
/// protocol is unchanged - one invocation per position, an output of the input's length - and the
/// collectors behind the returned paths must cope with an element type without a size.
pub fn zst_cells(case: &Case) -> Vec<(String, Result<(), String>)> {
    let mut res = Vec::new();
    if case.outcome != "ok" || case.len2 != case.len {
        return res;
    }
    let xs = xs_of(case.len, X0);
    let ys = xs_of(case.len2, Y0);
    let (w, len, form) = (case.w, case.len, case.form.as_str());
    macro_rules! one {
        ($name:expr, $v:expr, $v2:expr) => {{
            let (v, v2) = ($v, $v2);
            let r = catch(|| -> Result<(), String> {
                let mut calls = 0usize;
                let got: usize = match form {
                    "apply" => v.rolling_apply::<Vec<()>, (), _>(w, |_rm: Option<i64>, _x: i64| { calls += 1; }, None).map(|o| o.len()).unwrap_or(usize::MAX),
                    "idx" => v.rolling_apply_idx::<Vec<()>, (), _>(w, |_s: Option<usize>, _e: usize, _x: i64| { calls += 1; }, None).map(|o| o.len()).unwrap_or(usize::MAX),
                    "apply2" => v.rolling2_apply::<Vec<()>, (), _, i64, _>(v2, w, |_rm: Option<(i64, i64)>, _x: (i64, i64)| { calls += 1; }, None).map(|o| o.len()).unwrap_or(usize::MAX),
                    "idx2" => v.rolling2_apply_idx::<Vec<()>, (), _, i64, _>(v2, w, |_s: Option<usize>, _e: usize, _x: (i64, i64)| { calls += 1; }, None).map(|o| o.len()).unwrap_or(usize::MAX),
                    "custom" => v.rolling_custom::<Vec<()>, (), _>(w, |_sl| { calls += 1; }, None).map(|o| o.len()).unwrap_or(usize::MAX),
                    "citer" => v.rolling_custom_iter(w, |_sl| { calls += 1; }).collect_trusted_vec1::<Vec<()>>().len(),
                    _ => return Ok(()),
                };
                if got != len || calls != len {
                    return Err(format!("an output of {got} unit items after {calls} invocations for {len} positions"));
                }
                Ok(())
            });
            res.push(($name.to_string(), match r { Ok(x) => x, Err(p) => Err(format!("panicked: {p}")) }));
        }};
    }
    one!("Vec<i64>->Vec<()>/ret", &xs, &ys);
    let (dx, dy) = (rotated_deque(&xs, xs.len() / 2 + 1), rotated_deque(&ys, 1));
    one!("VecDeque<i64>->Vec<()>/ret", &dx, &dy);
    res
}

/// every (backend, output, path) cell for one case; `f` receives the cell name and the run
pub fn for_each_cell(case: &Case, full: bool, mut f: impl FnMut(&str, Run)) {
    let xs = xs_of(case.len, X0);
    let ys = xs_of(case.len2, Y0);
    let form = case.form.as_str();
    let w = case.w;
    let paths: &[bool] = if has_to(form) { &[false, true] } else { &[false] };

    macro_rules! cells {
        ($name:expr, $T:ty, $v:expr, $v2:expr, $safe2:expr) => {
            cells!($name, $T, $v, $v2, $safe2, true)
        };
        ($name:expr, $T:ty, $v:expr, $v2:expr, $safe2:expr, $hrtb:tt) => {{
            let (v, v2) = ($v, $v2);
            // a mismatched second series is only ever handed over in an instrumented container:
            // with an ordinary one an out-of-bounds read would really be performed
            let skip = is_two(form) && case.len2 != case.len && !$safe2;
            for &to in paths {
                if skip {
                    continue;
                }
                let p = if to { "to" } else { "ret" };
                if form == "custom2" {
                    cells!(@c2 $hrtb, $name, $T, v, v2, p, to);
                } else if is_slicing(form) {
                    f(&format!("{}->Vec/{}", $name, p), run_slice1::<$T, _, Vec<i64>>(form, &v, w, to));
                    f(&format!("{}->SpyOut/{}", $name, p), run_slice1::<$T, _, SpyOut<i64>>(form, &v, w, to));
                    if to {
                        f(&format!("{}->VecDeque/to(wrapped ring)", $name), run_slice1::<$T, _, VecDeque<i64>>(form, &v, w, Path::Odd(0)));
                        f(&format!("{}->Array1/to(step 2 view)", $name), run_slice1::<$T, _, Array1<i64>>(form, &v, w, Path::Odd(0)));
                        f(&format!("{}->Array1/to(reversed view)", $name), run_slice1::<$T, _, Array1<i64>>(form, &v, w, Path::Odd(1)));
                    }
                } else {
                    f(&format!("{}->Vec/{}", $name, p), run_elem::<$T, _, _, Vec<i64>>(form, &v, &v2, w, to));
                    f(&format!("{}->SpyOut/{}", $name, p), run_elem::<$T, _, _, SpyOut<i64>>(form, &v, &v2, w, to));
                    if to {
                        // caller-supplied buffers in layouts the library does not allocate itself
                        f(&format!("{}->Vec/to(sub-slice)", $name), run_elem::<$T, _, _, Vec<i64>>(form, &v, &v2, w, Path::Odd(0)));
                        f(&format!("{}->VecDeque/to(wrapped ring)", $name), run_elem::<$T, _, _, VecDeque<i64>>(form, &v, &v2, w, Path::Odd(0)));
                        f(&format!("{}->Array1/to(step 2 view)", $name), run_elem::<$T, _, _, Array1<i64>>(form, &v, &v2, w, Path::Odd(0)));
                        f(&format!("{}->Array1/to(reversed view)", $name), run_elem::<$T, _, _, Array1<i64>>(form, &v, &v2, w, Path::Odd(1)));
                    }
                    if full {
                        f(&format!("{}->VecDeque/{}", $name, p), run_elem::<$T, _, _, VecDeque<i64>>(form, &v, &v2, w, to));
                        f(&format!("{}->Array1/{}", $name, p), run_elem::<$T, _, _, Array1<i64>>(form, &v, &v2, w, to));
                    }
                }
            }
        }};
        (@c2 true, $name:expr, $T:ty, $v:ident, $v2:ident, $p:ident, $to:ident) => {
            f(&format!("{}->Vec/{}", $name, $p), run_slice2::<$T, _, _, Vec<i64>>(&$v, &$v2, w, $to));
            f(&format!("{}->SpyOut/{}", $name, $p), run_slice2::<$T, _, _, SpyOut<i64>>(&$v, &$v2, w, $to));
            if $to {
                f(&format!("{}->VecDeque/to(wrapped ring)", $name), run_slice2::<$T, _, _, VecDeque<i64>>(&$v, &$v2, w, Path::Odd(0)));
                f(&format!("{}->Array1/to(step 3 view)", $name), run_slice2::<$T, _, _, Array1<i64>>(&$v, &$v2, w, Path::Odd(2)));
            }
        };
        (@c2 false, $name:expr, $T:ty, $v:ident, $v2:ident, $p:ident, $to:ident) => {
            // borrowed ndarray views cannot satisfy the higher-ranked slice bound of rolling2_custom
            let _ = ($p, $to);
        };
    }

    cells!("Vec", i64, xs.clone(), ys.clone(), false);
    // elements that are Clone but not Copy, with drop accounting (tok.rs)
    cells!("Vec<Tok>", Tok, tok_series(&xs), tok_series(&ys), false);
    if full {
        cells!("VecDeque<Tok>", Tok, tok_series(&xs).into_iter().collect::<VecDeque<Tok>>(), tok_series(&ys).into_iter().collect::<VecDeque<Tok>>(), false, false);
        cells!("Arc<Vec<Tok>>", Tok, Arc::new(tok_series(&xs)), Arc::new(tok_series(&ys)), false);
    }
    cells!("Spy", i64, Spy::new(1, xs.clone()), Spy::new(2, ys.clone()), true);
    cells!("Vec+Spy2", i64, xs.clone(), Spy::new(2, ys.clone()), true);
    cells!("VecDeque", i64, rotated_deque(&xs, 0), rotated_deque(&ys, 0), false);
    cells!("VecDeque(wrapped)", i64, rotated_deque(&xs, case.len / 2 + 1), rotated_deque(&ys, 1), false);
    cells!("Array1", i64, Array1::from_vec(xs.clone()), Array1::from_vec(ys.clone()), false);
    cells!("Arc<Vec>", i64, Arc::new(xs.clone()), Arc::new(ys.clone()), false);
    {
        // strided and reversed ndarray views of a larger buffer
        let big: Vec<i64> = xs.iter().flat_map(|x| [*x, -1]).collect();
        let a = Array1::from_vec(big);
        let bigy: Vec<i64> = ys.iter().rev().cloned().collect();
        let b = Array1::from_vec(bigy);
        let va = a.slice(s![..;2]);
        let vb = b.slice(s![..;-1]);
        cells!("ArrayView(step2)+ArrayView(rev)", i64, va, vb, false, false);
    }
    if full {
        cells!("[T]-in-Arc", i64, Arc::new(Spy::new(1, xs.clone())), Arc::new(Spy::new(2, ys.clone())), true);
    }
    {
        let (ox, oy) = (xs.clone(), ys.clone());
        cells!("OptIter", Option<i64>, ox.opt(), oy.opt(), false, false);
    }
}

pub fn replay(args: &Args) {
    let cases = read_ndjson(args.req("in"));
    let mut rep = Report::new(args.get("prop").unwrap_or("C02"), args.req("out"));
    let full = args.flag("full");
    for v in cases {
        let v = &v;
        if get_str(v, "op") != "window" {
            continue;
        }
        let case = Case::parse(v);
        // C02 quantifies over valid requests only; the degenerate ones belong to C10
        if args.get("only") == Some("ok") && case.outcome != "ok" {
            continue;
        }
        rep.cases += 1;
        rep.sample(v.clone());
        let (key, site) = (case.key(), case.site());
        let mut fails: Vec<(String, String)> = Vec::new();
        let mut n = 0u64;
        for_each_cell(&case, full, |cell, run| {
            n += 1;
            if run.out.is_err() {
                // counted below
            }
            if let Err(d) = judge(&case, &run) {
                fails.push((cell.to_string(), d));
            }
        });
        for (cell, r) in zst_cells(&case) {
            n += 1;
            if let Err(d) = r {
                fails.push((cell, d));
            }
        }
        rep.cells += n;
        for _ in 0..(n as usize - fails.len()) {
            rep.ok(&case.form, 0.0);
        }
        for (cell, d) in fails {
            rep.mismatch(&case.form, &site, &key, &cell, &d, v);
        }
    }
    rep.finish();
}

fn ev_json(e: &Ev) -> Option<Value> {
    Some(match e {
        Ev::Uget { s, i } => json!({"e": "uget", "s": s, "i": i}),
        Ev::Uslice { s, a, b } => json!({"e": "uslice", "s": s, "a": a, "b": b}),
        Ev::Uset { i } => json!({"e": "uset", "i": i}),
        Ev::Init { unwritten } => json!({"e": "init", "unwritten": unwritten.len()}),
        Ev::OobRead { s, i, .. } => json!({"e": "uget", "s": s, "i": i}),
        Ev::OobSlice { s, a, b, .. } => json!({"e": "uslice", "s": s, "a": a, "b": b}),
        Ev::OobWrite { i, .. } => json!({"e": "uset", "i": i}),
        Ev::DoubleWrite { .. } => return None, // the following Uset carries it
        Ev::Mark(v) => v.clone(),
        Ev::Titer { .. } | Ev::Uninit { .. } | Ev::Collect { .. } => return None,
    })
}

/// impl -> spec: random requests, larger than TLC enumerates, as one concatenated event trace
pub fn record(args: &Args) {
    let seed = args.num("seed", 1);
    let runs = args.num("runs", 60);
    let maxlen = args.num("maxlen", 60) as i64;
    let mut rng = Rng::new(seed);
    let mut w = NdWriter::create(args.req("out"));
    let forms = ["apply", "idx", "apply2", "idx2", "custom", "custom2", "citer"];
    let mut n_events = 0u64;
    let degenerate = args.flag("degenerate");
    for r in 0..runs {
        let form = *rng.pick(&forms);
        let len = if rng.chance(1, 10) { rng.range(0, 2) } else { rng.range(0, maxlen) } as usize;
        let win = match rng.below(6) {
            0 => len as i64 + rng.range(0, 3),
            1 => 1,
            2 => if degenerate { rng.range(0, 1) } else { 1 }, // degenerate sometimes
            _ => rng.range(1, (len as i64).max(1)),
        } as usize;
        let len2 = if degenerate && is_two(form) && rng.chance(1, 8) { (len as i64 + rng.range(-1, 1)).max(0) as usize } else { len };
        let case = Case {
            form: form.to_string(),
            len,
            len2,
            w: win,
            outcome: String::new(),
            calls: vec![],
            raw: Value::Null,
        };
        // pick one cell pseudo-randomly: instrumented ones most of the time
        let mut cells: Vec<(String, Run)> = Vec::new();
        for_each_cell(&case, false, |cell, run| cells.push((cell.to_string(), run)));
        let instrumented: Vec<usize> = cells
            .iter()
            .enumerate()
            .filter(|(_, (c, _))| c.starts_with("Spy->SpyOut") || c.starts_with("Vec->SpyOut") || c.starts_with("Spy->Vec"))
            .map(|(i, _)| i)
            .collect();
        let pick = if rng.chance(3, 4) { *rng.pick(&instrumented) } else { rng.below(cells.len() as u64) as usize };
        let (cell, run) = &cells[pick];
        w.line(&json!({"e": "begin", "run": r, "form": form, "len": len, "len2": len2, "w": win, "cell": cell}));
        n_events += 1;
        for e in &run.log {
            if let Some(j) = ev_json(e) {
                w.line(&j);
                n_events += 1;
            }
        }
        match &run.out {
            Ok(vals) => w.line(&json!({"e": "out", "vals": vals})),
            Err(msg) => w.line(&json!({"e": "panic", "oob": msg.contains(SPY_OOB)})),
        }
        n_events += 1;
    }
    w.finish();
    println!("{}", json!({"t": "recorded", "runs": runs, "events": n_events}));
}

/// C10 for the kernels: every (len, window) of the driver specification, every kernel, every
/// min_periods, instrumented input and output on both output paths.  Only the memory-safety
/// envelope is judged here (values are C01/C03/C04's business): no out-of-range access, every
/// slot written exactly once before exposure, or a clean panic.
pub fn kernel_safety(args: &Args) {
    use crate::kern::*;
    let cases = read_ndjson(args.req("in"));
    let mut rep = Report::new(args.get("prop").unwrap_or("C10"), args.req("out"));
    for v in cases {
        let v = &v;
        if get_str(v, "op") != "window" {
            continue;
        }
        let case = Case::parse(v);
        if case.form != "apply" && case.form != "apply2" {
            continue;
        }
        rep.cases += 1;
        if rep.cases % 40 == 1 {
            rep.sample(json!({"op": "kernel-safety", "len": case.len, "len2": case.len2, "w": case.w}));
        }
        let (len, len2, w) = (case.len, case.len2, case.w);
        // null patterns: none, alternating, leading block
        let pats: Vec<Vec<i64>> = vec![
            (0..len as i64).map(|i| i % 3).collect(),
            (0..len as i64).map(|i| if i % 2 == 0 { NULL } else { i % 3 }).collect(),
            (0..len as i64).map(|i| if i < 2 { NULL } else { 2 - i % 3 }).collect(),
        ];
        for xs in &pats {
            for mp in [None, Some(0usize), Some(1), Some(w + 1)] {
                let key = |f: &str| format!("{f}|len={len},len2={len2},w={w},mp={mp:?}|xs={xs:?}");
                let mut judge = |f: &str, cell: &str, r: Result<usize, String>, rep: &mut Report| {
                    rep.cells += 1;
                    let faults = safety_faults(&take_log());
                    if !faults.is_empty() {
                        rep.mismatch(f, &format!("{f}|{}", case.site().split('|').nth(1).unwrap_or("")), &key(f), cell,
                            &format!("memory-safety envelope broken: {}", faults.join("; ")), v);
                    } else if let Err(m) = &r {
                        if m.contains(SPY_OOB) {
                            rep.mismatch(f, f, &key(f), cell, "out-of-bounds access", v);
                        } else {
                            rep.panics_as_data += 1;
                            rep.ok(f, 0.0);
                        }
                    } else {
                        rep.ok(f, 0.0);
                    }
                };
                if case.form == "apply" {
                    let sp = Spy::new(1, enc_vec::<f64>(xs));
                    let plain: Vec<f64> = enc_vec(xs);
                    for k in VALID_KERNELS {
                        for to in [false, true] {
                            clear_log();
                            let r = run_valid::<f64, _, f64, SpyOut<f64>>(k, &sp, w, mp, to).map(|o| o.len());
                            judge(valid_fn_name(k), if to { "Spy->SpyOut/to" } else { "Spy->SpyOut/ret" }, r, &mut rep);
                            clear_log();
                            let r = run_valid::<f64, _, f64, SpyOut<f64>>(k, &plain, w, mp, to).map(|o| o.len());
                            judge(valid_fn_name(k), if to { "Vec->SpyOut/to" } else { "Vec->SpyOut/ret" }, r, &mut rep);
                        }
                    }
                    if !has_null(xs) {
                        for k in PLAIN_KERNELS {
                            clear_log();
                            let r = run_plain::<f64, _, f64, SpyOut<f64>>(k, &sp, w, mp, true).map(|o| o.len());
                            judge(plain_fn_name(k), "Spy->SpyOut/to", r, &mut rep);
                            clear_log();
                            let r = run_plain::<f64, _, f64, SpyOut<f64>>(k, &plain, w, mp, false).map(|o| o.len());
                            judge(plain_fn_name(k), "Vec->SpyOut/ret", r, &mut rep);
                        }
                    }
                    for k in FD_KERNELS {
                        clear_log();
                        let r = run_vfdiff::<f64, _, f64, SpyOut<f64>>(fd_order(k).unwrap(), &sp, w, mp, true).map(|o| o.len());
                        judge("ts_vfdiff", "Spy->SpyOut/to", r, &mut rep);
                    }
                } else {
                    let ys: Vec<i64> = (0..len2 as i64).map(|i| (i * 2) % 3).collect();
                    let (sa, sb) = (Spy::new(1, enc_vec::<f64>(xs)), Spy::new(2, enc_vec::<f64>(&ys)));
                    let plain: Vec<f64> = enc_vec(xs);
                    for k in PAIR_KERNELS {
                        for to in [false, true] {
                            clear_log();
                            let r = run_pair::<f64, _, _, f64, SpyOut<f64>>(k, &sa, &sb, w, mp, to).map(|o| o.len());
                            judge(valid_fn_name(k), if to { "Spy x2->SpyOut/to" } else { "Spy x2->SpyOut/ret" }, r, &mut rep);
                            clear_log();
                            let r = run_pair::<f64, _, _, f64, SpyOut<f64>>(k, &plain, &sb, w, mp, to).map(|o| o.len());
                            judge(valid_fn_name(k), if to { "Vec+Spy->SpyOut/to" } else { "Vec+Spy->SpyOut/ret" }, r, &mut rep);
                        }
                    }
                }
            }
        }
    }
    rep.finish();
}
