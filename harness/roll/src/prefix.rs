//! C06: causality and history independence, evaluated on the real code.
//!  (i)  prefix law: f(xs[..k]) is bit-for-bit the first k outputs of f(xs), for every cut k;
//!  (ii) history independence: two series with the same trailing window but different earlier
//!       history give the same output at that position - exactly for min / max / arg / rank,
//!       up to rounding for the moment kernels.
use serde_json::json;
use tevec::prelude::*;
use tvh_common::*;

use crate::kern::*;
use crate::roll1::Beh;
use crate::roll2::Beh2;

type Runner<'a> = Box<dyn Fn(&[i64]) -> Result<Vec<u64>, String> + 'a>;

fn bits_of<U: OutElem>(r: Result<Vec<U>, String>) -> Result<Vec<u64>, String> {
    r.map(|v| v.iter().map(|x| x.bits()).collect())
}

fn prefix_law(rep: &mut Report, fname: &str, key: &str, cell: &str, xs_len: usize, run: &Runner, input: &dyn Fn(usize) -> Vec<i64>, case: &serde_json::Value) {
    rep.cells += 1;
    let whole = match run(&input(xs_len)) {
        Ok(w) => w,
        Err(e) => {
            rep.mismatch(fname, fname, key, cell, &format!("panicked on the whole series: {e}"), case);
            return;
        },
    };
    for k in 0..xs_len {
        match run(&input(k)) {
            Err(e) => {
                rep.mismatch(fname, fname, key, cell, &format!("panicked on the prefix of length {k}: {e}"), case);
                return;
            },
            Ok(p) => {
                if p.len() != k {
                    rep.mismatch(fname, fname, key, cell, &format!("prefix of length {k} gave {} outputs", p.len()), case);
                    return;
                }
                if let Some(i) = (0..k).find(|&i| p[i] != whole[i]) {
                    rep.mismatch(fname, fname, key, cell,
                        &format!("output {i} of the prefix of length {k} differs from output {i} of the whole series (bits {:#x} vs {:#x})", p[i], whole[i]), case);
                    return;
                }
                rep.ok(fname, 0.0);
            },
        }
    }
}

pub fn replay(args: &Args) {
    let cases = read_ndjson(args.req("in"));
    let mut rep = Report::new(args.get("prop").unwrap_or("C06"), args.req("out"));
    let want_len = args.num("len", 0) as usize;
    for v in cases {
        let v = &v;
        match get_str(v, "op") {
            "roll1" => {
                let b = Beh::parse(v);
                if want_len > 0 && b.xs.len() != want_len {
                    continue;
                }
                rep.cases += 1;
                if rep.cases % 997 == 1 {
                    rep.sample(json!({"op": "prefix-law", "w": b.w, "mp": b.mp_raw, "xs": b.xs}));
                }
                let (w, mp) = (b.w, b.mp);
                let xs = b.xs.clone();
                let nullfree = !has_null(&xs);
                for k in VALID_KERNELS {
                    // an omitted min_periods of the extrema family depends on min(len, w): a prefix
                    // shorter than the window legitimately uses another threshold (DESIGN 5.3)
                    if CMP_KERNELS.contains(k) && mp.is_none() {
                        continue;
                    }
                    let fname = valid_fn_name(k);
                    let key = b.key(fname, &format!("[{k}]"));
                    let minmax = *k == "min" || *k == "max";
                    let r1: Runner = Box::new(|s| bits_of(run_valid::<f64, _, f64, Vec<f64>>(k, &enc_vec::<f64>(s), w, mp, false)));
                    prefix_law(&mut rep, fname, &key, "Vec<f64>->Vec<f64>/ret", xs.len(), &r1, &|n| xs[..n].to_vec(), v);
                    let r2: Runner = Box::new(|s| bits_of(run_valid::<f64, _, f64, Vec<f64>>(k, &Spy::new(1, enc_vec::<f64>(s)), w, mp, false)));
                    prefix_law(&mut rep, fname, &key, "Spy<f64>->Vec<f64>/ret", xs.len(), &r2, &|n| xs[..n].to_vec(), v);
                    let r3: Runner = Box::new(|s| bits_of(run_valid::<Option<f64>, _, Option<f64>, Vec<Option<f64>>>(k, &enc_vec::<Option<f64>>(s), w, mp, true)));
                    prefix_law(&mut rep, fname, &key, "Vec<Option<f64>>->Vec<Option<f64>>/to", xs.len(), &r3, &|n| xs[..n].to_vec(), v);
                    // the series held in a ring buffer whose storage wraps: iterator body and positional reads
                    let r5: Runner = Box::new(|s| {
                        let e = enc_vec::<f64>(s);
                        bits_of(run_valid::<f64, _, f64, Vec<f64>>(k, &crate::roll1::rotated(&e, e.len() / 2 + 1), w, mp, false))
                    });
                    prefix_law(&mut rep, fname, &key, "VecDeque<f64>(wrapped)->Vec<f64>/ret", xs.len(), &r5, &|n| xs[..n].to_vec(), v);
                    let r6: Runner = Box::new(|s| {
                        let e = enc_vec::<f64>(s);
                        bits_of(run_valid::<f64, _, f64, Vec<f64>>(k, &crate::roll1::rotated(&e, e.len() / 2 + 1), w, mp, true))
                    });
                    prefix_law(&mut rep, fname, &key, "VecDeque<f64>(wrapped)->Vec<f64>/to", xs.len(), &r6, &|n| xs[..n].to_vec(), v);
                    if nullfree && !minmax {
                        let r4: Runner = Box::new(|s| bits_of(run_valid::<i32, _, i32, Vec<i32>>(k, &enc_vec::<i32>(s), w, mp, false)));
                        prefix_law(&mut rep, fname, &key, "Vec<i32>->Vec<i32>/ret", xs.len(), &r4, &|n| xs[..n].to_vec(), v);
                    }
                }
                if nullfree {
                    for k in PLAIN_KERNELS {
                        let fname = plain_fn_name(k);
                        let key = b.key(fname, "");
                        let r: Runner = Box::new(|s| bits_of(run_plain::<f64, _, f64, Vec<f64>>(k, &enc_vec::<f64>(s), w, mp, false)));
                        prefix_law(&mut rep, fname, &key, "Vec<f64>->Vec<f64>/ret", xs.len(), &r, &|n| xs[..n].to_vec(), v);
                        let r: Runner = Box::new(|s| bits_of(run_plain::<i32, _, f64, Vec<f64>>(k, &Spy::new(1, enc_vec::<i32>(s)), w, mp, false)));
                        prefix_law(&mut rep, fname, &key, "Spy<i32>->Vec<f64>/ret", xs.len(), &r, &|n| xs[..n].to_vec(), v);
                    }
                }
                for k in FD_KERNELS {
                    let d = fd_order(k).unwrap();
                    let key = b.key("ts_vfdiff", &format!("(d={d})"));
                    let r: Runner = Box::new(|s| bits_of(run_vfdiff::<f64, _, f64, Vec<f64>>(d, &enc_vec::<f64>(s), w, mp, false)));
                    prefix_law(&mut rep, "ts_vfdiff", &key, "Vec<f64>->Vec<f64>/ret", xs.len(), &r, &|n| xs[..n].to_vec(), v);
                    if nullfree {
                        let key = b.key("ts_fdiff", &format!("(d={d})"));
                        let r: Runner = Box::new(|s| bits_of(run_fdiff::<f64, _, f64, Vec<f64>>(d, &enc_vec::<f64>(s), w, false)));
                        prefix_law(&mut rep, "ts_fdiff", &key, "Vec<f64>->Vec<f64>/ret", xs.len(), &r, &|n| xs[..n].to_vec(), v);
                    }
                }
            },
            "roll2" => {
                let b = Beh2::parse(v);
                if want_len > 0 && b.xs.len() != want_len {
                    continue;
                }
                rep.cases += 1;
                if rep.cases % 9973 == 1 {
                    rep.sample(json!({"op": "prefix-law", "w": b.w, "mp": b.mp_raw, "xs": b.xs, "ys": b.ys}));
                }
                let (w, mp) = (b.w, b.mp);
                let n = b.xs.len();
                // both series travel through the runner interleaved: [x0, y0, x1, y1, ...]
                let inter: Vec<i64> = b.xs.iter().zip(&b.ys).flat_map(|(x, y)| [*x, *y]).collect();
                let split = |s: &[i64]| -> (Vec<i64>, Vec<i64>) {
                    (s.iter().step_by(2).cloned().collect(), s.iter().skip(1).step_by(2).cloned().collect())
                };
                for k in PAIR_KERNELS {
                    let fname = valid_fn_name(k);
                    let key = b.key(fname);
                    let r: Runner = Box::new(|s| {
                        let (x, y) = split(s);
                        bits_of(run_pair::<f64, _, _, f64, Vec<f64>>(k, &enc_vec::<f64>(&x), &enc_vec::<f64>(&y), w, mp, false))
                    });
                    prefix_law(&mut rep, fname, &key, "Vec<f64>x2->Vec<f64>/ret", n, &r, &|m| inter[..2 * m].to_vec(), v);
                    let r: Runner = Box::new(|s| {
                        let (x, y) = split(s);
                        let (ex, ey) = (enc_vec::<f64>(&x), enc_vec::<f64>(&y));
                        bits_of(run_pair::<f64, _, _, f64, Vec<f64>>(k, &crate::roll1::rotated(&ex, ex.len() / 2 + 1), &crate::roll1::rotated(&ey, 1), w, mp, false))
                    });
                    prefix_law(&mut rep, fname, &key, "VecDeque<f64>(wrapped)x2->Vec<f64>/ret", n, &r, &|m| inter[..2 * m].to_vec(), v);
                    let r: Runner = Box::new(|s| {
                        let (x, y) = split(s);
                        bits_of(run_pair::<f64, _, _, f64, Vec<f64>>(k, &Spy::new(1, enc_vec::<f64>(&x)), &Spy::new(2, enc_vec::<f64>(&y)), w, mp, true))
                    });
                    prefix_law(&mut rep, fname, &key, "Spy<f64>x2->Vec<f64>/to", n, &r, &|m| inter[..2 * m].to_vec(), v);
                }
            },
            _ => {},
        }
    }
    rep.finish();
}

/// (ii) history independence.  For every behaviour and every position i >= w the series is
/// re-run with its pre-window history xs[..i-w+1] replaced by other finite values (another
/// alphabet, magnitudes up to `mag`); output i must not move: exactly for the order kernels,
/// within the rounding tolerance for the moment kernels.
pub fn history(args: &Args) {
    let cases = read_ndjson(args.req("in"));
    let mut rep = Report::new(args.get("prop").unwrap_or("C06"), args.req("out"));
    let want_len = args.num("len", 0) as usize;
    let mag = args.num("mag", 1000) as i64;
    let mut rng = Rng::new(args.num("seed", 1));
    const EXACT: &[&str] = &["min", "max", "argmin", "argmax", "rank", "rank_rev", "rank_pct", "rank_rev_pct"];
    for v in cases {
        let v = &v;
        if get_str(v, "op") != "roll1" {
            continue;
        }
        let b = Beh::parse(v);
        if (want_len > 0 && b.xs.len() != want_len) || b.xs.len() <= b.w {
            continue;
        }
        rep.cases += 1;
        let (w, mp) = (b.w, b.mp);
        let n = b.xs.len();
        // pre-window part of the LAST position: positions 0 .. n-w-1
        let cut = n - w;
        let mut alt = b.xs.clone();
        for x in alt.iter_mut().take(cut) {
            *x = match rng.below(4) {
                0 => NULL,
                1 => rng.range(-mag, mag),
                2 => rng.range(-3, 3),
                _ => mag - rng.range(0, 2),
            };
        }
        if rep.cases % 997 == 1 {
            rep.sample(json!({"op": "history-independence", "w": w, "mp": b.mp_raw, "xs": b.xs, "alt": alt}));
        }
        for k in VALID_KERNELS {
            if CMP_KERNELS.contains(k) && mp.is_none() {
                continue;
            }
            // third and fourth powers of the replaced history must stay exact in f64
            if mag > 1000 && matches!(*k, "skew" | "kurt") {
                continue;
            }
            // where the statistic is undefined on the window (a mean of nothing, a slope through one
            // point) the property leaves the value open (DESIGN 5.6): NaN or +-inf, whichever the
            // rounding residue of the departed elements produces, is not compared
            if b.exp.get(*k).and_then(|e| e.as_slice().get(n - 1)).map(|e| e.is_any()).unwrap_or(false) {
                rep.skipped();
                continue;
            }
            let fname = valid_fn_name(k);
            let key = format!("{}|alt={:?}", b.key(fname, &format!("[{k}]")), &alt[..cut]);
          // on the integers themselves: the running sums are exact, so what is left of the replaced history
          // is exactly nothing.  (A run in a non-dyadic unit was tried and withdrawn: there the residue of
          // departed elements of magnitude 100 moves the fourth-moment statistics by 1e-3 - rounding
          // drift proper, which the specification does not decide, DESIGN 10.)
          for unit in [1.0_f64] {
            if unit != 1.0 && mag > 1000 {
                continue;
            }
            rep.cells += 1;
            let key = if unit == 1.0 { key.clone() } else { format!("{key}|unit=0.1") };
            let a = run_valid::<f64, _, f64, Vec<f64>>(k, &enc_vec_unit::<f64>(&b.xs, unit), w, mp, false);
            let c = run_valid::<f64, _, f64, Vec<f64>>(k, &enc_vec_unit::<f64>(&alt, unit), w, mp, false);
            match (a, c) {
                (Ok(a), Ok(c)) => {
                    let (x, y) = (a[n - 1], c[n - 1]);
                    let same = if EXACT.contains(k) {
                        x.bits() == y.bits()
                    } else {
                        // Rounding only.  The inputs are integers: as long as every power that
                        // passes through the running sums stays below 2^53 the sums are exact
                        // and what is left after the removals is exactly the window's own sum
                        // (ewm alone carries fractions).  Kernels whose powers would exceed
                        // that for the chosen magnitude are left out above (DESIGN 5.2).
                        (x.is_nan() && y.is_nan()) || (x - y).abs() <= 1e-9 * x.abs().max(1.0) * if unit == 1.0 { 1.0 } else { (mag as f64).powi(2) }
                    };
                    if same {
                        rep.ok(fname, 0.0)
                    } else {
                        rep.mismatch(fname, fname, &key, "Vec<f64>->Vec<f64>/ret",
                            &format!("output {} is {x:?} with the original history and {y:?} with the replaced one", n - 1), v);
                    }
                },
                (Err(e), _) | (_, Err(e)) => rep.mismatch(fname, fname, &key, "Vec<f64>->Vec<f64>/ret", &format!("panicked: {e}"), v),
            }
          }
        }
    }
    rep.finish();
}
