//! impl -> spec: record long random runs of the real rolling kernels as event traces for
//! TraceRoll.tla / TraceRoll2.tla.
use serde_json::{Map, Value, json};
use tevec::prelude::*;
use tvh_common::*;

use crate::kern::*;

/// kernels logged for windows wider than 8 (small exact denominators, specified for any width)
const WIDE_OK: &[&str] = &["sum", "mean", "wma", "var", "std", "min", "max", "argmin", "argmax", "rank", "rank_rev",
                           "rank_pct", "rank_rev_pct", "minmaxnorm", "slope"];

fn kind_of(k: &str) -> Option<ProjKind> {
    Some(match k {
        "min" | "max" | "argmin" | "argmax" => ProjKind::Int,
        "rank" | "rank_rev" | "rank_pct" | "rank_rev_pct" => ProjKind::Exact,
        "std" | "zscore" | "corr" => ProjKind::Sq,
        // denominators of these grow beyond what a float pins down: replay direction only
        "skew" | "kurt" | "sse" | "resid_std" | "resid_skew" => return None,
        _ => ProjKind::Q,
    })
}

/// series generators that stress the kernels: heavy ties, monotone runs (worst case for the
/// expiry of a cached extreme), plateaus, null bursts arriving when an extreme expires
fn gen_series(rng: &mut Rng, len: usize, w: usize) -> Vec<i64> {
    let style = rng.below(6);
    let mut xs = Vec::with_capacity(len);
    let mut cur = rng.range(-3, 3);
    for i in 0..len {
        let v = match style {
            0 => rng.range(0, 2),
            1 => rng.range(-6, 6),
            2 => {
                // monotone runs of random length, direction flips
                if rng.chance(1, (w as u64 + 2).max(2)) {
                    cur = rng.range(-6, 6);
                }
                let step = if (i / (w + 1)) % 2 == 0 { 1 } else { -1 };
                cur = (cur + step).clamp(-6, 6);
                cur
            },
            3 => {
                if rng.chance(1, 4) {
                    cur = rng.range(-2, 2);
                }
                cur
            },
            4 => if i % 2 == 0 { rng.range(3, 6) } else { rng.range(-6, -3) },
            _ => rng.range(-1, 1),
        };
        let null_p = match style {
            0 | 3 => 8,
            2 => 12,
            _ => 5,
        };
        // null bursts
        if rng.chance(1, null_p) {
            xs.push(NULL);
            if rng.chance(1, 3) && xs.len() < len {
                xs.push(NULL);
            }
        } else {
            xs.push(v);
        }
        if xs.len() >= len {
            break;
        }
    }
    xs.truncate(len);
    while xs.len() < len {
        xs.push(rng.range(-1, 1));
    }
    xs
}

pub fn record_roll1(args: &Args) {
    let seed = args.num("seed", 1);
    let runs = args.num("runs", 3);
    let steps = args.num("steps", 300) as usize;
    let mut rng = Rng::new(seed);
    let mut wr = NdWriter::create(args.req("out"));
    let mut events = 0u64;
    let wide = args.flag("wide");
    for r in 0..runs {
        let w = if wide { rng.range(9, 40) as usize } else { rng.range(1, 6) as usize };
        let mp_raw = if rng.chance(1, 4) { -1 } else { rng.range(0, w as i64) };
        let mp = if mp_raw < 0 { None } else { Some(mp_raw as usize) };
        let len = steps + rng.below(steps as u64 / 4 + 1) as usize;
        let xs = gen_series(&mut rng, len, w);
        let cellsel = r % 3;
        let mut outs: Vec<(&str, Vec<Obs>)> = Vec::new();
        for k in VALID_KERNELS.iter().chain(FD_KERNELS.iter()) {
            if kind_of(k).is_none() || (wide && !WIDE_OK.contains(k)) {
                continue;
            }
            let o: Result<Vec<Obs>, String> = if let Some(d) = fd_order(k) {
                let v: Vec<f64> = enc_vec(&xs);
                run_vfdiff::<f64, _, f64, Vec<f64>>(d, &v, w, mp, cellsel == 1).map(|v| v.iter().map(|x| x.obs()).collect())
            } else {
                match cellsel {
                    0 => run_valid::<f64, _, f64, Vec<f64>>(k, &enc_vec::<f64>(&xs), w, mp, false).map(|v| v.iter().map(|x| x.obs()).collect()),
                    1 => run_valid::<f64, _, f64, Vec<f64>>(k, &Spy::new(1, enc_vec::<f64>(&xs)), w, mp, true).map(|v| v.iter().map(|x| x.obs()).collect()),
                    _ => run_valid::<Option<f64>, _, Option<f64>, Vec<Option<f64>>>(k, &enc_vec::<Option<f64>>(&xs), w, mp, false)
                        .map(|v| v.iter().map(|x| x.obs()).collect()),
                }
            };
            match o {
                Ok(v) if v.len() == len => outs.push((k, v)),
                // a panic or a wrong length is logged as an impossible observation at position 0
                _ => outs.push((k, vec![Obs::F(f64::INFINITY); len])),
            }
        }
        wr.line(&json!({"e": "begin", "run": r, "w": w, "mp": mp_raw, "len": len, "cell": cellsel}));
        events += 1;
        for i in 0..len {
            let mut o = Map::new();
            for (k, v) in &outs {
                o.insert(k.to_string(), project_obs(v[i], kind_of(k).unwrap()));
            }
            wr.line(&json!({"e": "step", "v": xs[i], "o": Value::Object(o)}));
            events += 1;
        }
    }
    wr.finish();
    println!("{}", json!({"t": "recorded", "runs": runs, "events": events}));
}

pub fn record_roll2(args: &Args) {
    let seed = args.num("seed", 1);
    let runs = args.num("runs", 3);
    let steps = args.num("steps", 300) as usize;
    let mut rng = Rng::new(seed ^ 0x5555);
    let mut wr = NdWriter::create(args.req("out"));
    let mut events = 0u64;
    for r in 0..runs {
        let w = rng.range(1, 5) as usize;
        let mp_raw = if rng.chance(1, 4) { -1 } else { rng.range(0, w as i64) };
        let mp = if mp_raw < 0 { None } else { Some(mp_raw as usize) };
        let len = steps + rng.below(steps as u64 / 4 + 1) as usize;
        let xs: Vec<i64> = gen_series(&mut rng, len, w).iter().map(|v| if *v == NULL { NULL } else { (*v).clamp(-3, 3) }).collect();
        let ys: Vec<i64> = gen_series(&mut rng, len, w).iter().map(|v| if *v == NULL { NULL } else { (*v).clamp(-3, 3) }).collect();
        let mut outs: Vec<(&str, Vec<Obs>)> = Vec::new();
        for k in PAIR_KERNELS {
            if kind_of(k).is_none() {
                continue;
            }
            let (a, b): (Vec<f64>, Vec<f64>) = (enc_vec(&xs), enc_vec(&ys));
            let o = if r % 2 == 0 {
                run_pair::<f64, _, _, f64, Vec<f64>>(k, &a, &b, w, mp, false)
            } else {
                run_pair::<f64, _, _, f64, Vec<f64>>(k, &Spy::new(1, a), &Spy::new(2, b), w, mp, true)
            };
            match o {
                Ok(v) if v.len() == len => outs.push((k, v.iter().map(|x| x.obs()).collect())),
                _ => outs.push((k, vec![Obs::F(f64::INFINITY); len])),
            }
        }
        wr.line(&json!({"e": "begin", "run": r, "w": w, "mp": mp_raw, "len": len}));
        events += 1;
        for i in 0..len {
            let mut o = Map::new();
            for (k, v) in &outs {
                o.insert(k.to_string(), project_obs(v[i], kind_of(k).unwrap()));
            }
            wr.line(&json!({"e": "step", "a": xs[i], "b": ys[i], "o": Value::Object(o)}));
            events += 1;
        }
    }
    wr.finish();
    println!("{}", json!({"t": "recorded", "runs": runs, "events": events}));
}
