//! C16 / C17: spec -> impl replay of TimeArith.tla cases.
//!
//! Representation map (trusted base, DESIGN 10): an instant <<day, sec, ns>> is the i64 count of
//! units since the epoch, `((day*86400 + sec)*10^9 + ns) / unit_ns`, computed in i128.
use chrono::{DateTime as Cr, Datelike, Duration, Months, Timelike as CrTimelike, Utc};
use serde_json::Value;
use tevec::prelude::*;
use tvh_common::*;

pub type Tri = (i64, i64, i64);

pub fn tri(v: &Value) -> Option<Tri> {
    let a = v.as_array()?;
    if a.len() == 1 {
        return None; // NaT
    }
    Some((a[0].as_i64()?, a[1].as_i64()?, a[2].as_i64()?))
}
pub fn unit_ns(u: &str) -> i128 {
    match u {
        "s" => 1_000_000_000,
        "ms" => 1_000_000,
        "us" => 1_000,
        _ => 1,
    }
}
/// the i64 of the instant at unit u, if it is a whole number of units and fits
pub fn enc(t: Tri, u: &str) -> Option<i64> {
    let total: i128 = (t.0 as i128 * 86400 + t.1 as i128) * 1_000_000_000 + t.2 as i128;
    let un = unit_ns(u);
    if total.rem_euclid(un) != 0 {
        return None;
    }
    let v = total.div_euclid(un);
    // keep clear of the NaT sentinel and of chrono's own limits
    if v <= i64::MIN as i128 + 1 || v > i64::MAX as i128 {
        return None;
    }
    Some(v as i64)
}
/// within chrono's calendar range for the unit (chrono supports years -262143..262142)
fn cr_ok(t: Tri) -> bool {
    t.0.abs() < 90_000_000
}

#[allow(dead_code)]
fn dur4(v: &Value) -> Option<(i32, Duration)> {
    let a = v.as_array()?;
    if a.len() == 1 {
        return None;
    }
    let (mo, d, s, n) = (a[0].as_i64()?, a[1].as_i64()?, a[2].as_i64()?, a[3].as_i64()?);
    Some((mo as i32, Duration::days(d) + Duration::seconds(s) + Duration::nanoseconds(n)))
}
fn td(v: &Value) -> TimeDelta {
    match dur4(v) {
        None => TimeDelta::nat(),
        Some((months, inner)) => TimeDelta { months, inner },
    }
}
fn td_eq(a: &TimeDelta, b: &TimeDelta) -> bool {
    (a.is_nat() && b.is_nat()) || (a.months == b.months && a.inner == b.inner && !a.is_nat() && !b.is_nat())
}

macro_rules! with_unit {
    ($u:expr, $U:ident => $body:block) => {
        match $u {
            "s" => { type $U = unit::Second; $body },
            "ms" => { type $U = unit::Millisecond; $body },
            "us" => { type $U = unit::Microsecond; $body },
            _ => { type $U = unit::Nanosecond; $body },
        }
    };
}

const UNITS: [&str; 4] = ["s", "ms", "us", "ns"];
fn rank(u: &str) -> i32 {
    match u {
        "s" => 3,
        "ms" => 2,
        "us" => 1,
        _ => 0,
    }
}

fn judge(rep: &mut Report, f: &str, site: &str, key: &str, cell: &str, r: Result<Result<(), String>, String>, case: &Value) {
    rep.cells += 1;
    match r {
        Ok(Ok(())) => rep.ok(f, 0.0),
        Ok(Err(d)) => rep.mismatch(f, site, key, cell, &d, case),
        Err(p) => rep.mismatch(f, site, key, cell, &format!("panicked: {p}"), case),
    }
}

pub fn replay(args: &Args) {
    let cases = read_ndjson(args.req("in"));
    let mut rep = Report::new(args.get("prop").unwrap_or("C16"), args.req("out"));
    let mut nat_done = false;
    for v in cases {
        let v = &v;
        let op = get_str(v, "op");
        rep.cases += 1;
        if rep.cases % 400 == 1 {
            rep.sample(v.clone());
        }
        match op {
            "unit" => {
                unit_case(&mut rep, v);
                if !nat_done {
                    nat_done = true;
                    nat_cases(&mut rep, v);
                }
            },
            "addsub" => addsub(&mut rep, v),
            "diff" => diff(&mut rep, v),
            "months" => months(&mut rep, v),
            "group" => group(&mut rep, v),
            "nat" => nat_dur(&mut rep, v),
            "natt" => nat_dt(&mut rep, v),
            "trunc" => trunc(&mut rep, v),
            "tod" => tod(&mut rep, v),
            _ => {},
        }
    }
    rep.finish();
}

fn unit_case(rep: &mut Report, v: &Value) {
    let t = tri(&v["t"]).unwrap();
    let fields = get_ints(v, "fields");
    for u in UNITS {
        let tu = tri(&v["trunc"][u]).unwrap();
        let Some(xu) = enc(tu, u) else { continue };
        for w in UNITS {
            let want_t = tri(&v["trunc"][if rank(u) >= rank(w) { u } else { w }]).unwrap();
            let Some(want) = enc(want_t, w) else { continue };
            let key = format!("into_unit|{u}->{w}|t={t:?}");
            let site = format!("into_unit|{}", if rank(w) > rank(u) { "coarsen" } else if rank(w) < rank(u) { "refine" } else { "same" });
            let r = catch(|| {
                let got: i64 = with_unit!(u, U => { with_unit!(w, W => { DateTime::<U>::new(xu).into_unit::<W>().into_i64() }) });
                if got == want { Ok(()) } else { Err(format!("{xu} {u} -> {got} {w}, want {want} {w}")) }
            });
            judge(rep, "into_unit", &site, &key, &format!("{u}->{w}"), r, v);
        }
        // calendar fields, chrono round trip, optional integer
        if cr_ok(tu) {
            let key = format!("fields|{u}|t={t:?}");
            let r = catch(|| {
                with_unit!(u, U => {
                    let dt = DateTime::<U>::new(xu);
                    let got = [dt.year().map(|x| x as i64), dt.month().map(|x| x as i64), dt.day().map(|x| x as i64),
                               dt.hour().map(|x| x as i64), dt.minute().map(|x| x as i64), dt.second().map(|x| x as i64)];
                    let want: Vec<Option<i64>> = fields.iter().map(|x| Some(*x)).collect();
                    if got.to_vec() != want {
                        return Err(format!("fields {got:?}, want {fields:?}"));
                    }
                    let cr = dt.as_cr().ok_or("as_cr() is None for a valid instant")?;
                    let back: DateTime<U> = cr.into();
                    if back != dt {
                        return Err(format!("calendar round trip gives {} for {}", back.into_i64(), xu));
                    }
                    // the calendar library's own reading of the same instant
                    let secs = tu.0 * 86400 + tu.1;
                    let reference = Cr::<Utc>::from_timestamp(secs, tu.2 as u32).ok_or("chrono cannot represent the instant")?;
                    if reference != cr {
                        return Err(format!("as_cr() = {cr}, the calendar library reads the instant as {reference}"));
                    }
                    if dt.into_opt_i64() != Some(xu) {
                        return Err("into_opt_i64 of a valid instant is not Some(value)".into());
                    }
                    Ok(())
                })
            });
            judge(rep, "calendar", "calendar", &key, u, r, v);
        }
    }
}

fn nat_cases(rep: &mut Report, v: &Value) {
    for u in UNITS {
        for w in UNITS {
            let r = catch(|| {
                let ok = with_unit!(u, U => { with_unit!(w, W => { DateTime::<U>::nat().into_unit::<W>().is_nat() }) });
                if ok { Ok(()) } else { Err(format!("NaT at {u} converted to {w} is not NaT")) }
            });
            judge(rep, "into_unit", "into_unit|NaT", &format!("into_unit|{u}->{w}|NaT"), &format!("{u}->{w}"), r, v);
        }
        let r = catch(|| {
            with_unit!(u, U => {
                let n = DateTime::<U>::nat();
                if n.into_opt_i64().is_some() { return Err("into_opt_i64(NaT) is Some".into()); }
                if n.as_cr().is_some() { return Err("as_cr(NaT) is Some".into()); }
                if n.year().is_some() || n.second().is_some() { return Err("NaT has calendar fields".into()); }
                let d = TimeDelta { months: 0, inner: Duration::seconds(5) };
                if !(n + d).is_nat() || !(n - d).is_nat() { return Err("NaT +/- duration is not NaT".into()); }
                let x = DateTime::<U>::new(1_000_000);
                if !(x + TimeDelta::nat()).is_nat() || !(x - TimeDelta::nat()).is_nat() { return Err("date-time +/- NaT duration is not NaT".into()); }
                if !(x - n).is_nat() || !(n - x).is_nat() { return Err("difference with a NaT date-time is not NaT".into()); }
                if !n.duration_trunc(d).is_nat() { return Err("duration_trunc(NaT) is not NaT".into()); }
                Ok(())
            })
        });
        judge(rep, "NaT", "NaT|datetime", &format!("NaT|datetime|{u}"), u, r, v);
    }
    let r = catch(|| {
        let d = TimeDelta { months: 1, inner: Duration::seconds(5) };
        let n = TimeDelta::nat();
        if !(n + d).is_nat() || !(d + n).is_nat() || !(n - d).is_nat() || !(d - n).is_nat() || !(-n).is_nat() || !(n * 3).is_nat() {
            return Err("a duration operation with a NaT operand is not NaT".into());
        }
        Ok(())
    });
    judge(rep, "NaT", "NaT|timedelta", "NaT|timedelta", "TimeDelta", r, v);
    let r = catch(|| {
        let d = TimeDelta { months: 0, inner: Duration::seconds(5) };
        if !(Time::nat() + d).is_nat() || !(Time::nat() - d).is_nat() {
            return Err("NaT time of day +/- duration is not NaT".into());
        }
        if !(Time::from_hms(1, 2, 3) + TimeDelta::nat()).is_nat() {
            return Err("time of day + NaT duration is not NaT".into());
        }
        Ok(())
    });
    judge(rep, "NaT", "NaT|time", "NaT|time", "Time", r, v);
}

fn addsub(rep: &mut Report, v: &Value) {
    let t = tri(&v["t"]).unwrap();
    let a = td(&v["a"]);
    let (sum, dif) = (tri(&v["sum"]).unwrap(), tri(&v["dif"]).unwrap());
    let an = v["a"][3].as_i64().unwrap();
    for u in UNITS {
        // the duration must be a whole number of units of the date-time's resolution
        if (an as i128) % unit_ns(u) != 0 {
            continue;
        }
        let (Some(x), Some(ws), Some(wd)) = (enc(t, u), enc(sum, u), enc(dif, u)) else { continue };
        let key = format!("datetime+-timedelta|{u}|t={t:?},d={}", v["a"]);
        let r = catch(|| {
            with_unit!(u, U => {
                let dt = DateTime::<U>::new(x);
                let p = dt + a;
                let m = dt - a;
                if p.into_i64() != ws { return Err(format!("t + d = {}, want {ws}", p.into_i64())); }
                if m.into_i64() != wd { return Err(format!("t - d = {}, want {wd}", m.into_i64())); }
                if (p - a) != dt { return Err(format!("(t + d) - d = {}, want {x}", (p - a).into_i64())); }
                if (m + a) != dt { return Err(format!("(t - d) + d = {}, want {x}", (m + a).into_i64())); }
                Ok(())
            })
        });
        judge(rep, "datetime+-timedelta", "datetime+-timedelta", &key, u, r, v);
    }
}

fn diff(rep: &mut Report, v: &Value) {
    let (a, b) = (tri(&v["a"]).unwrap(), tri(&v["b"]).unwrap());
    let d = td(&v["d"]);
    for u in UNITS {
        let (Some(xa), Some(xb)) = (enc(a, u), enc(b, u)) else { continue };
        let key = format!("datetime-datetime|{u}|a={a:?},b={b:?}");
        let r = catch(|| {
            with_unit!(u, U => {
                let (da, db) = (DateTime::<U>::new(xa), DateTime::<U>::new(xb));
                let got = da - db;
                if !td_eq(&got, &d) { return Err(format!("a - b = {got:?}, want {d:?}")); }
                if db + got != da { return Err(format!("b + (a - b) = {}, want {xa}", (db + got).into_i64())); }
                Ok(())
            })
        });
        judge(rep, "datetime-datetime", "datetime-datetime", &key, u, r, v);
    }
}

fn months(rep: &mut Report, v: &Value) {
    let t = tri(&v["t"]).unwrap();
    let m = get_i64(v, "m") as i32;
    let sum = tri(&v["sum"]).unwrap();
    let civil = get_ints(v, "civil");
    for u in UNITS {
        let (Some(x), Some(w)) = (enc(t, u), enc(sum, u)) else { continue };
        let key = format!("datetime+months|{u}|t={t:?},m={m}");
        let r = catch(|| {
            with_unit!(u, U => {
                let dt = DateTime::<U>::new(x);
                let got = dt + TimeDelta { months: m, inner: Duration::zero() };
                if got.into_i64() != w {
                    return Err(format!("t + {m} months = {} ({:?}), want {w} (civil {civil:?})", got.into_i64(), got.as_cr()));
                }
                let back = dt - TimeDelta { months: -m, inner: Duration::zero() };
                if back != got { return Err("t - (-m months) differs from t + m months".into()); }
                // the calendar library itself
                let cr = dt.as_cr().unwrap();
                let reference = if m >= 0 { cr.checked_add_months(Months::new(m as u32)) } else { cr.checked_sub_months(Months::new((-m) as u32)) }
                    .ok_or("chrono cannot add the months")?;
                if (reference.year() as i64, reference.month() as i64, reference.day() as i64) != (civil[0], civil[1], civil[2]) {
                    return Err(format!("the calendar library gives {reference}, the specification {civil:?}"));
                }
                Ok(())
            })
        });
        judge(rep, "datetime+months", "datetime+months", &key, u, r, v);
    }
}

fn group(rep: &mut Report, v: &Value) {
    let (a, b) = (td(&v["a"]), td(&v["b"]));
    let k = get_i64(v, "k") as i32;
    let key = format!("timedelta ops|a={},b={},k={k}", v["a"], v["b"]);
    let r = catch(|| {
        let (sum, dif, neg, scaled) = (td(&v["sum"]), td(&v["dif"]), td(&v["neg"]), td(&v["scaled"]));
        if !td_eq(&(a + b), &sum) { return Err(format!("a + b = {:?}, want {sum:?}", a + b)); }
        if !td_eq(&(a - b), &dif) { return Err(format!("a - b = {:?}, want {dif:?}", a - b)); }
        if !td_eq(&(-a), &neg) { return Err(format!("-a = {:?}, want {neg:?}", -a)); }
        if !td_eq(&(a * k), &scaled) { return Err(format!("a * {k} = {:?}, want {scaled:?}", a * k)); }
        // the laws on the real values
        if !td_eq(&((a + b) + scaled), &(a + (b + scaled))) { return Err("addition is not associative".into()); }
        if !td_eq(&(a + (-a)), &TimeDelta { months: 0, inner: Duration::zero() }) { return Err("a + (-a) is not zero".into()); }
        if !td_eq(&(a * k + b * k), &((a + b) * k)) { return Err("scaling does not distribute over addition".into()); }
        // division undoes scaling: (a * k) / a = k for a month-free, non-zero a (TimeArith.tla DivUndoesScale)
        if a.months == 0 && a.inner != Duration::zero() && (a * k) / a != k {
            return Err(format!("(a * {k}) / a = {}", (a * k) / a));
        }
        Ok(())
    });
    judge(rep, "timedelta ops", "timedelta ops", &key, "TimeDelta", r, v);
    nat_dur(rep, v);
}

/// NaT absorbs every duration, also one with a calendar part (which a VALID time of day refuses)
fn nat_dur(rep: &mut Report, v: &Value) {
    let a = td(&v["a"]);
    let key = format!("NaT +/- duration|a={}", v["a"]);
    let r = catch(|| {
        for u in UNITS {
            let ok = with_unit!(u, U => { (DateTime::<U>::nat() + a).is_nat() && (DateTime::<U>::nat() - a).is_nat() });
            if !ok {
                return Err(format!("NaT date-time ({u}) +/- the duration is not NaT"));
            }
        }
        if !(Time::nat() + a).is_nat() || !(Time::nat() - a).is_nat() {
            return Err("NaT time of day +/- the duration is not NaT".into());
        }
        if !(TimeDelta::nat() + a).is_nat() || !(a + TimeDelta::nat()).is_nat() || !(TimeDelta::nat() - a).is_nat() || !(a - TimeDelta::nat()).is_nat() {
            return Err("NaT duration +/- the duration is not NaT".into());
        }
        if let Some(fs) = v.get("factors").and_then(|f| f.as_array()) {
            for f in fs {
                let k = f.as_i64().unwrap() as i32;
                if !(TimeDelta::nat() * k).is_nat() {
                    return Err(format!("NaT duration * {k} is not NaT"));
                }
            }
            if !(-TimeDelta::nat()).is_nat() {
                return Err("-NaT is not NaT".into());
            }
        }
        Ok(())
    });
    judge(rep, "NaT", "NaT|any duration", &key, "NaT", r, v);
}

/// a NaT operand against a valid date-time: NaT is absorbing whichever side it is on
fn nat_dt(rep: &mut Report, v: &Value) {
    let t = tri(&v["t"]).unwrap();
    for f in ["dl", "dr", "sum", "dif"] {
        if v[f].as_array().map(|a| a.len()) != Some(1) {
            tool_error(&format!("natt record: {f} is not NaT in the specification"));
        }
    }
    for u in UNITS {
        let Some(x) = enc(t, u) else { continue };
        let key = format!("NaT with a valid date-time|{u}|t={t:?}");
        let r = catch(|| {
            with_unit!(u, U => {
                let (dt, nat) = (DateTime::<U>::new(x), DateTime::<U>::nat());
                if !(dt - nat).is_nat() { return Err(format!("valid - NaT = {:?}, want NaT", dt - nat)); }
                if !(nat - dt).is_nat() { return Err(format!("NaT - valid = {:?}, want NaT", nat - dt)); }
                if !(nat - nat).is_nat() { return Err("NaT - NaT is not NaT".into()); }
                if !(dt + TimeDelta::nat()).is_nat() { return Err("valid + NaT duration is not NaT".into()); }
                if !(dt - TimeDelta::nat()).is_nat() { return Err("valid - NaT duration is not NaT".into()); }
                Ok(())
            })
        });
        judge(rep, "NaT", "NaT|valid date-time", &key, u, r, v);
    }
    // time of day
    let key = format!("NaT with a valid time of day|t={t:?}");
    let r = catch(|| {
        let x = Time::from_i64(t.1 * 1_000_000_000 + t.2);
        if !(x + TimeDelta::nat()).is_nat() || !(x - TimeDelta::nat()).is_nat() { return Err("valid time of day +/- NaT duration is not NaT".into()); }
        Ok(())
    });
    judge(rep, "NaT", "NaT|valid time of day", &key, "Time", r, v);
}

fn trunc(rep: &mut Report, v: &Value) {
    let t = tri(&v["t"]).unwrap();
    let mut one = |name: &str, q: &str, d: TimeDelta, want: Tri, q_ns: i128| {
        for u in UNITS {
            if q_ns % unit_ns(u) != 0 && q_ns != 0 {
                continue;
            }
            // chrono's duration_trunc works on nanosecond timestamps: both ends must be representable there
            let (Some(x), Some(w), Some(_), Some(_)) = (enc(t, u), enc(want, u), enc(t, "ns"), enc(want, "ns")) else { continue };
            let key = format!("duration_trunc({name}={q})|{u}|t={t:?}");
            let site = format!("duration_trunc|{name}");
            let r = catch(|| {
                with_unit!(u, U => {
                    let got = DateTime::<U>::new(x).duration_trunc(d);
                    if got.into_i64() == w { Ok(()) } else { Err(format!("truncated to {} ({:?}), want {w}", got.into_i64(), got.as_cr())) }
                })
            });
            judge(rep, "duration_trunc", &site, &key, u, r, v);
        }
    };
    for (q, w) in v["secs"].as_object().unwrap() {
        let qs: i64 = q.parse().unwrap();
        one("secs", q, TimeDelta { months: 0, inner: Duration::seconds(qs) }, tri(w).unwrap(), qs as i128 * 1_000_000_000);
    }
    for (q, w) in v["days"].as_object().unwrap() {
        let k: i64 = q.parse().unwrap();
        one("days", q, TimeDelta { months: 0, inner: Duration::days(k) }, tri(w).unwrap(), k as i128 * 86400 * 1_000_000_000);
    }
    for (q, w) in v["nss"].as_object().unwrap() {
        let n: i64 = q.parse().unwrap();
        one("ns", q, TimeDelta { months: 0, inner: Duration::nanoseconds(n) }, tri(w).unwrap(), n as i128);
    }
    for (q, w) in v["months"].as_object().unwrap() {
        let dm: i32 = q.parse().unwrap();
        one("months", q, TimeDelta { months: dm, inner: Duration::zero() }, tri(w).unwrap(), 0);
    }
}

fn tod(rep: &mut Report, v: &Value) {
    let (h, mi, s, sub) = (get_i64(v, "h"), get_i64(v, "mi"), get_i64(v, "s"), get_i64(v, "sub"));
    let want = (v["tod"][0].as_i64().unwrap(), v["tod"][1].as_i64().unwrap());
    let key = format!("time|h={h},m={mi},s={s},sub={sub}");
    let r = catch(|| {
        let want_ns = want.0 * 1_000_000_000 + want.1;
        let t = Time::from_hms_nano(h, mi, s, sub);
        if t.into_i64() != want_ns { return Err(format!("from_hms_nano = {}, want {want_ns}", t.into_i64())); }
        if (t.hour() as i64, t.minute() as i64, t.second() as i64, t.nanosecond() as i64) != (h, mi, s, sub) {
            return Err(format!("components {:?}", (t.hour(), t.minute(), t.second(), t.nanosecond())));
        }
        if sub % 1000 == 0 && Time::from_hms_micro(h, mi, s, sub / 1000) != t { return Err("from_hms_micro disagrees".into()); }
        if sub % 1_000_000 == 0 && Time::from_hms_milli(h, mi, s, sub / 1_000_000) != t { return Err("from_hms_milli disagrees".into()); }
        if sub == 0 && Time::from_hms(h, mi, s) != t { return Err("from_hms disagrees".into()); }
        if Time::from_num_seconds_from_midnight(want.0, want.1) != t { return Err("from_num_seconds_from_midnight disagrees".into()); }
        let cr = t.as_cr().ok_or("as_cr() is None for a valid time of day")?;
        if Time::from_cr(&cr) != t { return Err("round trip through the calendar time type changes the value".into()); }
        if (CrTimelike::hour(&cr) as i64, CrTimelike::minute(&cr) as i64, CrTimelike::second(&cr) as i64, CrTimelike::nanosecond(&cr) as i64) != (h, mi, s, sub) {
            return Err(format!("the calendar time type reads {cr}"));
        }
        // Timelike setters: one field replaced, the others kept; out-of-range values have no result
        if let Some(w) = v.get("with").and_then(|w| w.as_object()) {
            for (fld, tab) in w {
                for (val, want) in tab.as_object().unwrap() {
                    let val: u32 = val.parse().unwrap();
                    let want: Option<i64> = want.as_array().unwrap().first().map(|p| p[0].as_i64().unwrap() * 1_000_000_000 + p[1].as_i64().unwrap());
                    let got = match fld.as_str() {
                        "hour" => CrTimelike::with_hour(&t, val),
                        "minute" => CrTimelike::with_minute(&t, val),
                        "second" => CrTimelike::with_second(&t, val),
                        _ => CrTimelike::with_nanosecond(&t, val),
                    }.map(|x| x.into_i64());
                    if got != want {
                        return Err(format!("with_{fld}({val}) = {got:?}, want {want:?}"));
                    }
                    // a NaT time of day has no fields to replace
                    let nat = match fld.as_str() {
                        "hour" => CrTimelike::with_hour(&Time::nat(), val),
                        "minute" => CrTimelike::with_minute(&Time::nat(), val),
                        "second" => CrTimelike::with_second(&Time::nat(), val),
                        _ => CrTimelike::with_nanosecond(&Time::nat(), val),
                    };
                    if nat.map(|x| !x.is_nat()).unwrap_or(false) {
                        return Err(format!("NaT.with_{fld}({val}) is a valid time of day"));
                    }
                }
            }
        }
        // month-free shifts are exact
        for (ds, dn) in [(1i64, 0i64), (-1, 0), (0, 1), (3600, 500), (-45, -999)] {
            let d = TimeDelta { months: 0, inner: Duration::seconds(ds) + Duration::nanoseconds(dn) };
            let shifted = t + d;
            if shifted.into_i64() != want_ns + ds * 1_000_000_000 + dn { return Err(format!("time + ({ds}s {dn}ns) = {}", shifted.into_i64())); }
            if (shifted - d) != t { return Err("(time + d) - d differs from time".into()); }
        }
        Ok(())
    });
    judge(rep, "time of day", "time of day", &key, "Time", r, v);
}
