//! C18: parsers are total and round-trip with their formatters.
use chrono::Duration;
use serde_json::Value;
use tevec::prelude::*;
use tvh_common::*;

use crate::arith::{enc, tri};

fn render(sym: &[String]) -> String {
    let mut out = String::new();
    for s in sym {
        match s.as_str() {
            "E" => out.push('é'),
            "B" => out.push_str("99999999999999999999"),
            "M" => out.push_str("9223372036854775807"),
            "T" => out.push_str("1500"),
            "K" => out.push_str("1000"),
            "Z" => out.push_str("0000000000000000000007"),
            x => out.push_str(x),
        }
    }
    out
}

pub fn replay(args: &Args) {
    let cases = read_ndjson(args.req("in"));
    let mut rep = Report::new(args.get("prop").unwrap_or("C18"), args.req("out"));
    for v in cases {
        let v = &v;
        match get_str(v, "op") {
            "dur" => {
                rep.cases += 1;
                if rep.cases % 1500 == 1 {
                    rep.sample(v.clone());
                }
                dur(&mut rep, v)
            },
            "unit" => {
                rep.cases += 1;
                if rep.cases % 150 == 1 {
                    rep.sample(serde_json::json!({"op": "format-parse round trip", "t": v["t"], "fields": v["fields"]}));
                }
                roundtrip(&mut rep, v)
            },
            _ => {},
        }
    }
    rep.finish();
}

fn dur(rep: &mut Report, v: &Value) {
    let sym: Vec<String> = v["s"].as_array().unwrap().iter().map(|x| x.as_str().unwrap().to_string()).collect();
    let text = render(&sym);
    let wf = v["wf"].as_bool().unwrap();
    let key = format!("TimeDelta::parse|{text:?}");
    let site = if wf { "TimeDelta::parse|well-formed" } else { "TimeDelta::parse|malformed" };
    rep.cells += 1;
    match catch(|| TimeDelta::parse(&text)) {
        Err(p) => rep.mismatch("TimeDelta::parse", site, &key, "parse", &format!("panicked: {p}"), v),
        Ok(r) => {
            if wf {
                let m = get_ints(v, "meaning");
                let want_inner = Duration::seconds(m[1]) + Duration::nanoseconds(m[2]);
                match r {
                    Ok(td) if td.months as i64 == m[0] && td.inner == want_inner => rep.ok("TimeDelta::parse", 0.0),
                    Ok(td) => rep.mismatch("TimeDelta::parse", site, &key, "parse",
                        &format!("parsed to {} months + {:?}, the terms sum to {} months + {want_inner:?}", td.months, td.inner, m[0]), v),
                    Err(e) => rep.mismatch("TimeDelta::parse", site, &key, "parse", &format!("well-formed string rejected: {e}"), v),
                }
            } else {
                rep.ok("TimeDelta::parse", 0.0); // a value or an error: both are fine for malformed text
            }
        },
    }
    // FromStr, and the other parsers on the same text: totality only
    for (name, r) in [
        ("TimeDelta::from_str", catch(|| text.parse::<TimeDelta>().is_ok())),
        ("DateTime::parse", catch(|| DateTime::<unit::Nanosecond>::parse(&text, None).is_ok())),
        ("DateTime::parse(fmt)", catch(|| DateTime::<unit::Millisecond>::parse(&text, Some("%Y-%m-%d %H:%M:%S")).is_ok())),
        ("DateTime::from_str", catch(|| text.parse::<DateTime<unit::Second>>().is_ok())),
        ("Time::parse", catch(|| Time::parse(&text, None).is_ok())),
        ("Time::parse(fmt)", catch(|| Time::parse(&text, Some("%H:%M:%S")).is_ok())),
    ] {
        rep.cells += 1;
        match r {
            Ok(_) => rep.ok(name, 0.0),
            Err(p) => rep.mismatch(name, name, &format!("{name}|{text:?}"), "parse", &format!("panicked: {p}"), v),
        }
    }
}

macro_rules! with_unit {
    ($u:expr, $U:ident => $body:block) => {
        match $u {
            "s" => { type $U = unit::Second; $body },
            "ms" => { type $U = unit::Millisecond; $body },
            "us" => { type $U = unit::Microsecond; $body },
            _ => { type $U = unit::Nanosecond; $body },
        }
    };
}

fn roundtrip(rep: &mut Report, v: &Value) {
    let t = tri(&v["t"]).unwrap();
    let f = get_ints(v, "fields");
    for u in ["s", "ms", "us", "ns"] {
        let tu = tri(&v["trunc"][u]).unwrap();
        let Some(x) = enc(tu, u) else { continue };
        let key = format!("strftime/parse|{u}|t={t:?}");
        rep.cells += 1;
        let r = catch(|| -> Result<(), String> {
            with_unit!(u, U => {
                let dt = DateTime::<U>::new(x);
                // default format
                let text = dt.strftime(None);
                let back = DateTime::<U>::parse(&text, None).map_err(|e| format!("{text:?} does not parse back: {e}"))?;
                if back != dt { return Err(format!("{text:?} parses back to {} instead of {x}", back.into_i64())); }
                let back2: DateTime<U> = text.parse().map_err(|e| format!("{text:?} does not parse through FromStr: {e}"))?;
                if back2 != dt { return Err("FromStr gives another instant".into()); }
                // the calendar fields show in the text as the specification has them
                let want_prefix = format!("{:04}-{:02}-{:02} {:02}:{:02}:{:02}", f[0], f[1], f[2], f[3], f[4], f[5]);
                if f[0] >= 0 && f[0] <= 9999 && !text.starts_with(&want_prefix) {
                    return Err(format!("formatted as {text:?}, the calendar fields are {want_prefix:?}"));
                }
                // listed formats that keep the needed resolution
                if tu.2 == 0 {
                    // a year outside 0..=9999 is written with a sign and as many digits as it needs: in a format
                    // that does not delimit the year the text is ambiguous in the calendar library's own grammar
                    let four_digit = f[0] >= 0 && f[0] <= 9999;
                    for fmt in ["%Y-%m-%d %H:%M:%S", "%Y/%m/%d %H:%M:%S", "%Y%m%d %H%M%S", "%Y%m%d%H%M%S"] {
                        if !four_digit && !fmt.contains("%Y-") && !fmt.contains("%Y/") { continue; }
                        let s2 = dt.strftime(Some(fmt));
                        let b = DateTime::<U>::parse(&s2, None).map_err(|e| format!("{s2:?} ({fmt}) does not parse back: {e}"))?;
                        if b != dt { return Err(format!("{s2:?} ({fmt}) parses back to another instant")); }
                        let b = DateTime::<U>::parse(&s2, Some(fmt)).map_err(|e| format!("{s2:?} does not parse with its own format {fmt}: {e}"))?;
                        if b != dt { return Err(format!("{s2:?} parsed with {fmt} gives another instant")); }
                    }
                    if tu.1 == 0 {
                        for fmt in ["%Y-%m-%d", "%Y%m%d", "%d/%m/%Y", "%Y/%m/%d"] {
                            if !four_digit && fmt == "%Y%m%d" { continue; }
                            let s2 = dt.strftime(Some(fmt));
                            let b = DateTime::<U>::parse(&s2, None).map_err(|e| format!("{s2:?} ({fmt}) does not parse back: {e}"))?;
                            if b != dt { return Err(format!("{s2:?} ({fmt}) parses back to another instant")); }
                        }
                    }
                }
                Ok(())
            })
        });
        match r {
            Ok(Ok(())) => rep.ok("strftime/parse", 0.0),
            Ok(Err(d)) => rep.mismatch("strftime/parse", "strftime/parse", &key, u, &d, v),
            Err(p) => rep.mismatch("strftime/parse", "strftime/parse", &key, u, &format!("panicked: {p}"), v),
        }
    }
    // time of day: format and parse back
    let tod_ns = t.1 * 1_000_000_000 + t.2;
    rep.cells += 1;
    let r = catch(|| -> Result<(), String> {
        let x = Time::from_i64(tod_ns);
        let text = x.as_cr().ok_or("no calendar time")?.to_string();
        let back = Time::parse(&text, None).map_err(|e| format!("{text:?} does not parse back: {e}"))?;
        if back != x { return Err(format!("{text:?} parses back to {} instead of {tod_ns}", back.into_i64())); }
        Ok(())
    });
    match r {
        Ok(Ok(())) => rep.ok("Time::parse", 0.0),
        Ok(Err(d)) => rep.mismatch("Time::parse", "Time::parse", &format!("Time round trip|{tod_ns}"), "Time", &d, v),
        Err(p) => rep.mismatch("Time::parse", "Time::parse", &format!("Time round trip|{tod_ns}"), "Time", &format!("panicked: {p}"), v),
    }
}
