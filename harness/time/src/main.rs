//! Conformance harness for the time types and the cast / null algebra (C15 - C18).
mod arith;
mod casts;
mod parse;

use tvh_common::*;

fn main() {
    guarded_main(run);
}

fn run() {
    let args = Args::from_env();
    match args.cmd() {
        "replay-time" => arith::replay(&args),
        "replay-parse" => parse::replay(&args),
        "replay-casts" => casts::replay(&args),
        other => tool_error(&format!("unknown command {other:?}")),
    }
}
