//! C15: the null / cast algebra on the real types.  A macro-generated table maps every
//! (source tag, target tag) to the real `Cast` implementation; value classes come from Casts.tla.
use serde_json::Value;
use tevec::prelude::*;
use tvh_common::*;

const HALF: i64 = 777001;
const PINF: i64 = 777002;
const NINF: i64 = 777003;
/// 2^53 + 2^29 + 1 (Casts.tla BIG53): `as f32` directly and via f64 differ by one f32 ulp
const BIG53: i64 = 777004;
const BIG53_VALUE: i64 = 9_007_199_791_611_905;
/// a NaN with the sign bit set (Casts.tla NEGNAN): the same null as NaN
const NEGNAN: i64 = 777005;

#[derive(Debug, Clone, PartialEq)]
enum Out {
    Null,
    Val(f64),
    /// non-numeric, non-null (strings, time values)
    Other,
}

/// build the value class in a concrete type (None if the type cannot hold it)
trait Mk: Sized {
    fn mk(v: i64) -> Option<Self>;
}
/// observe a cast result
trait ObsOut {
    fn out(&self) -> Out;
}

macro_rules! float_ty {
    ($($t:ty),*) => {$(
        impl Mk for $t {
            fn mk(v: i64) -> Option<Self> {
                if v == BIG53 { return None; }
                if v == NEGNAN { return Some(-<$t>::NAN); }
                Some(match v { NULL => <$t>::NAN, HALF => 1.5, PINF => <$t>::INFINITY, NINF => <$t>::NEG_INFINITY, x => x as $t })
            }
        }
        impl ObsOut for $t {
            fn out(&self) -> Out { if self.is_nan() { Out::Null } else { Out::Val(*self as f64) } }
        }
    )*};
}
float_ty!(f32, f64);
macro_rules! int_ty {
    ($($t:ty),*) => {$(
        impl Mk for $t {
            fn mk(v: i64) -> Option<Self> {
                if v == NULL || v == HALF || v == PINF || v == NINF || v == NEGNAN { return None; }
                let v = if v == BIG53 { BIG53_VALUE } else { v };
                <$t>::try_from(v).ok()
            }
        }
        impl ObsOut for $t {
            fn out(&self) -> Out { Out::Val(*self as f64) }
        }
    )*};
}
int_ty!(i32, i64, isize, u8, u64, usize);
impl Mk for bool {
    fn mk(v: i64) -> Option<Self> {
        match v {
            0 => Some(false),
            1 => Some(true),
            _ => None,
        }
    }
}
impl ObsOut for bool {
    fn out(&self) -> Out {
        Out::Val(*self as i64 as f64)
    }
}
impl<T: Mk> Mk for Option<T> {
    fn mk(v: i64) -> Option<Self> {
        // Some(NaN) of either sign is the excluded non-canonical null
        if v == NULL { Some(None) } else if v == NEGNAN { None } else { T::mk(v).map(Some) }
    }
}
impl<T: ObsOut> ObsOut for Option<T> {
    fn out(&self) -> Out {
        match self {
            None => Out::Null,
            Some(x) => match x.out() {
                Out::Null => Out::Null, // Some(NaN) is not generated, but decode it as null if it shows
                o => o,
            },
        }
    }
}
/// a decimal text just above the midpoint of two neighbouring f32 values, closer to it than f64
/// can tell (Casts.tla MID32): parsed as f32 it is 1.0000001, parsed as f64 and narrowed it is 1.0
const MID32: i64 = 777006;
const MID32_TEXT: &str = "1.0000000596046448";
/// the null text with a leading blank: a non-null text (Casts.tla PADNONE)
const PADNONE: i64 = 777007;
/// the text a string source carries for a value class (Casts.tla StrVals)
fn str_text(v: i64) -> Option<String> {
    Some(match v {
        NULL => "None".to_string(),
        HALF => "1.5".to_string(),
        PINF => "inf".to_string(),
        NINF => "-inf".to_string(),
        MID32 => MID32_TEXT.to_string(),
        PADNONE => " None".to_string(),
        BIG53 | NEGNAN => return None,
        x => x.to_string(),
    })
}
impl Mk for String {
    fn mk(v: i64) -> Option<Self> {
        str_text(v)
    }
}
impl Mk for &'static str {
    fn mk(v: i64) -> Option<Self> {
        str_text(v).map(|t| &*Box::leak(t.into_boxed_str()))
    }
}
impl ObsOut for String {
    fn out(&self) -> Out {
        if self.is_none() { Out::Null } else { Out::Other }
    }
}
impl Mk for DateTime<unit::Nanosecond> {
    fn mk(v: i64) -> Option<Self> {
        Some(if v == NULL { DateTime::nat() } else { DateTime::new(v) })
    }
}
macro_rules! mk_dt {
    ($($U:ty),*) => {$(
        impl Mk for DateTime<$U> {
            fn mk(v: i64) -> Option<Self> {
                Some(if v == NULL { DateTime::nat() } else { DateTime::new(v) })
            }
        }
    )*};
}
mk_dt!(unit::Second, unit::Millisecond, unit::Microsecond);
impl ObsOut for DateTime<unit::Nanosecond> {
    fn out(&self) -> Out {
        if self.is_nat() { Out::Null } else { Out::Other }
    }
}
impl Mk for TimeDelta {
    fn mk(v: i64) -> Option<Self> {
        Some(if v == NULL { TimeDelta::nat() } else { TimeDelta::from(v) })
    }
}
impl ObsOut for TimeDelta {
    fn out(&self) -> Out {
        if self.is_nat() { Out::Null } else { Out::Other }
    }
}
impl Mk for Time {
    fn mk(v: i64) -> Option<Self> {
        Some(if v == NULL { Time::nat() } else { Time::from_i64(v) })
    }
}
impl ObsOut for Time {
    fn out(&self) -> Out {
        if self.is_nat() { Out::Null } else { Out::Other }
    }
}

type CastFn = fn(i64) -> Option<Result<Out, String>>;

/// the conversion helpers of the Number trait (f32(), f64(), i32(), i64(), usize()): the same
/// expectation as the corresponding Cast
macro_rules! num_helper {
    ($name:ident, $m:ident) => {
        fn $name<F: Mk + Number + 'static>(v: i64) -> Option<Result<Out, String>> {
            let x = F::mk(v)?;
            Some(catch(move || Number::$m(x).out()))
        }
    };
}
num_helper!(num_f32, f32);
num_helper!(num_f64, f64);
num_helper!(num_i32, i32);
num_helper!(num_i64, i64);
num_helper!(num_usize, usize);

fn do_cast<F: Mk + Cast<T> + 'static, T: ObsOut + 'static>(v: i64) -> Option<Result<Out, String>> {
    let x = F::mk(v)?;
    Some(catch(move || Cast::<T>::cast(x).out()))
}

/// what the language's own conversion gives for a numeric cast (the oracle for wrap / saturate)
fn lang_cast(v: i64, from: &str, to: &str) -> Option<f64> {
    if from == "string" {
        // the language's own parse of the text into the target type (one rounding)
        let text = str_text(v)?;
        return match to.strip_prefix("opt_").unwrap_or(to) {
            "f32" => text.parse::<f32>().ok().map(|x| x as f64),
            "f64" => text.parse::<f64>().ok(),
            _ => None,
        };
    }
    let x: f64 = match v {
        HALF => 1.5,
        PINF => f64::INFINITY,
        NINF => f64::NEG_INFINITY,
        NULL | NEGNAN => f64::NAN,
        BIG53 => BIG53_VALUE as f64,
        n => n as f64,
    };
    let v = if v == BIG53 { BIG53_VALUE } else { v };
    // an integer SOURCE wraps, a float source truncates and saturates
    let from = from.strip_prefix("opt_").unwrap_or(from);
    let is_int_class = !matches!(v, HALF | PINF | NINF | NULL | NEGNAN) && !matches!(from, "f32" | "f64");
    let to = to.strip_prefix("opt_").unwrap_or(to);
    Some(match (to, is_int_class) {
        ("f32", true) => v as f32 as f64,      // one rounding, not two
        ("f32", false) => x as f32 as f64,
        ("f64", _) => x,
        ("i32", true) => v as i32 as f64,
        ("i32", false) => x as i32 as f64,
        ("i64", true) => v as f64,
        ("i64", false) => x as i64 as f64,
        ("isize", true) => v as isize as f64,
        ("isize", false) => x as isize as f64,
        ("u8", true) => v as u8 as f64,
        ("u8", false) => x as u8 as f64,
        ("u64", true) => v as u64 as f64,
        ("u64", false) => x as u64 as f64,
        ("usize", true) => v as usize as f64,
        ("usize", false) => x as usize as f64,
        _ => return None,
    })
}

macro_rules! table {
    ( [$( ($ft:literal, $F:ty) ),*] x $tos:tt ) => {{
        let mut t: Vec<(&'static str, &'static str, CastFn)> = Vec::new();
        $( table!(@row t, $ft, $F, $tos); )*
        t
    }};
    (@row $t:ident, $ft:literal, $F:ty, [$( ($tt:literal, $T:ty) ),*]) => {
        $( $t.push(($ft, $tt, do_cast::<$F, $T> as CastFn)); )*
    };
}

fn build_table() -> Vec<(&'static str, &'static str, CastFn)> {
    let mut t = table!(
        [("f32", f32), ("f64", f64), ("i32", i32), ("i64", i64), ("isize", isize), ("u8", u8), ("u64", u64), ("usize", usize),
         ("opt_f32", Option<f32>), ("opt_f64", Option<f64>), ("opt_i32", Option<i32>), ("opt_i64", Option<i64>),
         ("opt_isize", Option<isize>), ("opt_u8", Option<u8>), ("opt_u64", Option<u64>), ("opt_usize", Option<usize>)]
        x
        [("f32", f32), ("f64", f64), ("i32", i32), ("i64", i64), ("isize", isize), ("u8", u8), ("u64", u64), ("usize", usize), ("bool", bool),
         ("opt_f32", Option<f32>), ("opt_f64", Option<f64>), ("opt_i32", Option<i32>), ("opt_i64", Option<i64>),
         ("opt_isize", Option<isize>), ("opt_u8", Option<u8>), ("opt_u64", Option<u64>), ("opt_usize", Option<usize>), ("opt_bool", Option<bool>),
         ("string", String), ("datetime", DateTime<unit::Nanosecond>), ("timedelta", TimeDelta), ("time", Time)]
    );
    t.extend(table!(
        [("bool", bool), ("opt_bool", Option<bool>)]
        x
        [("f32", f32), ("f64", f64), ("i32", i32), ("i64", i64), ("isize", isize), ("u8", u8), ("u64", u64), ("usize", usize), ("bool", bool),
         ("opt_f32", Option<f32>), ("opt_f64", Option<f64>), ("opt_i32", Option<i32>), ("opt_i64", Option<i64>),
         ("opt_isize", Option<isize>), ("opt_u8", Option<u8>), ("opt_u64", Option<u64>), ("opt_usize", Option<usize>), ("opt_bool", Option<bool>),
         ("string", String)]
    ));
    t.extend(table!(
        [("string", String), ("string", &'static str)]
        x
        [("f32", f32), ("f64", f64), ("i32", i32), ("i64", i64), ("isize", isize), ("u8", u8), ("u64", u64), ("usize", usize),
         ("opt_f32", Option<f32>), ("opt_f64", Option<f64>), ("opt_i32", Option<i32>), ("opt_i64", Option<i64>),
         ("opt_isize", Option<isize>), ("opt_u8", Option<u8>), ("opt_u64", Option<u64>), ("opt_usize", Option<usize>)]
    ));
    t.extend(table!(
        [("datetime", DateTime<unit::Nanosecond>), ("timedelta", TimeDelta), ("time", Time)]
        x
        [("f32", f32), ("f64", f64), ("i32", i32), ("i64", i64), ("isize", isize), ("u8", u8), ("u64", u64), ("usize", usize),
         ("opt_f32", Option<f32>), ("opt_f64", Option<f64>), ("opt_i32", Option<i32>), ("opt_i64", Option<i64>),
         ("opt_isize", Option<isize>), ("opt_u8", Option<u8>), ("opt_u64", Option<u64>), ("opt_usize", Option<usize>)]
    ));
    macro_rules! helpers {
        ($( ($ft:literal, $F:ty) ),*) => {$(
            t.push(($ft, "f32", num_f32::<$F> as CastFn));
            t.push(($ft, "f64", num_f64::<$F> as CastFn));
            t.push(($ft, "i32", num_i32::<$F> as CastFn));
            t.push(($ft, "i64", num_i64::<$F> as CastFn));
            t.push(($ft, "usize", num_usize::<$F> as CastFn));
        )*};
    }
    helpers!(("f32", f32), ("f64", f64), ("i32", i32), ("i64", i64), ("u64", u64), ("usize", usize));
    // the date-time tag stands for every unit: the other three resolutions as further rows
    t.extend(table!(
        [("datetime", DateTime<unit::Second>), ("datetime", DateTime<unit::Millisecond>), ("datetime", DateTime<unit::Microsecond>)]
        x
        [("f32", f32), ("f64", f64), ("i32", i32), ("i64", i64), ("isize", isize), ("u8", u8), ("u64", u64), ("usize", usize),
         ("opt_f32", Option<f32>), ("opt_f64", Option<f64>), ("opt_i32", Option<i32>), ("opt_i64", Option<i64>),
         ("opt_isize", Option<isize>), ("opt_u8", Option<u8>), ("opt_u64", Option<u64>), ("opt_usize", Option<usize>)]
    ));
    t.push(("timedelta", "string", do_cast::<TimeDelta, String> as CastFn));
    t.push(("string", "string", do_cast::<&'static str, String> as CastFn));
    t
}

fn vname(v: i64) -> String {
    match v {
        NULL => "null".into(),
        HALF => "1.5".into(),
        PINF => "+inf".into(),
        NINF => "-inf".into(),
        BIG53 => "2^53+2^29+1".into(),
        NEGNAN => "-NaN".into(),
        MID32 => format!("text {MID32_TEXT}"),
        PADNONE => "text ' None'".into(),
        x => x.to_string(),
    }
}

pub fn replay(args: &Args) {
    let cases = read_ndjson(args.req("in"));
    let mut rep = Report::new(args.get("prop").unwrap_or("C15"), args.req("out"));
    let table = build_table();
    let only_time = args.flag("only-time");
    let mut lang_checked = 0u64;
    let mut missing = std::collections::BTreeSet::new();
    for v in cases {
        let v = &v;
        match get_str(v, "op") {
            "cast" => {
                let (from, to, val) = (get_str(v, "from"), get_str(v, "to"), get_i64(v, "v"));
                let is_time = |t: &str| matches!(t, "datetime" | "timedelta" | "time");
                if only_time && !is_time(from) && !is_time(to) {
                    continue;
                }
                let rows: Vec<&CastFn> = table.iter().filter(|(a, b, _)| *a == from && *b == to).map(|(_, _, f)| f).collect();
                if rows.is_empty() {
                    missing.insert(format!("{from}->{to}"));
                    continue;
                }
                for (row, f) in rows.into_iter().enumerate() {
                    let Some(r) = f(val) else { continue };
                    rep.cases += 1;
                    if rep.cases % 300 == 1 {
                        rep.sample(v.clone());
                    }
                    rep.cells += 1;
                    let exp = v["exp"].as_array().unwrap();
                    let kind = exp[0].as_str().unwrap();
                    let key = format!("cast|{from}->{to}{}|v={}", if row > 0 { format!("#{row}") } else { String::new() }, vname(val));
                    let site = format!("cast|{from}->{to}|{}", if val == NULL || val == NEGNAN { "null" } else { "value" });
                    let verdict: Result<(), String> = match (kind, &r) {
                        ("any", _) => Ok(()),
                        ("null", Ok(Out::Null)) => Ok(()),
                        ("null", got) => Err(format!("a null became {got:?}")),
                        ("nonnull", Ok(Out::Null)) => Err("a non-null value became null".into()),
                        ("nonnull", Ok(_)) => Ok(()),
                        ("nonnull", Err(p)) => Err(format!("panicked: {p}")),
                        ("panic", Err(_)) => Ok(()),
                        // a defined value where a clean panic would do is fine as long as nullness is kept
                        ("panic", Ok(_)) => Ok(()),
                        ("val", Ok(Out::Val(g))) => {
                            let want = exp[1].as_i64().unwrap() as f64 / exp[2].as_i64().unwrap() as f64;
                            if *g == want { Ok(()) } else { Err(format!("got {g}, want {want}")) }
                        },
                        ("val", got) => Err(format!("got {got:?}, want the number {}/{}", exp[1], exp[2])),
                        ("lang", Ok(Out::Val(g))) => {
                            lang_checked += 1;
                            match lang_cast(val, from, to) {
                                Some(w) if w == *g => Ok(()),
                                Some(w) => Err(format!("got {g}, the language's conversion gives {w}")),
                                None => Ok(()),
                            }
                        },
                        ("lang", got) => Err(format!("got {got:?} where the language's conversion gives a number")),
                        (k, got) => Err(format!("unexpected expectation {k} / {got:?}")),
                    };
                    match verdict {
                        Ok(()) => rep.ok("cast", 0.0),
                        Err(d) => rep.mismatch("cast", &site, &key, &format!("{from}->{to}"), &d, v),
                    }
                }
            },
            "cmp" => {
                rep.cases += 1;
                cmp_case(&mut rep, v);
            },
            "tdcmp" => {
                if only_time || !args.flag("no-time") {
                    rep.cases += 1;
                    tdcmp_case(&mut rep, v);
                }
            },
            _ => {},
        }
    }
    predicates(&mut rep);
    rep.sample(serde_json::json!({"language_conversion_cases_checked": lang_checked,
                                  "pairs_without_a_Cast_impl_in_the_table": missing.iter().collect::<Vec<_>>()}));
    rep.finish();
}

/// durations under the sort comparators: <<months, exact nanoseconds>>, <<NULL, 0>> = NaT
fn tdcmp_case(rep: &mut Report, v: &Value) {
    use std::cmp::Ordering;
    let mk = |x: &Value| -> TimeDelta {
        let (m, n) = (x[0].as_i64().unwrap(), x[1].as_i64().unwrap());
        if m == NULL { TimeDelta::nat() } else { TimeDelta { months: m as i32, inner: chrono::Duration::nanoseconds(n) } }
    };
    let (a, b) = (mk(&v["a"]), mk(&v["b"]));
    let (want, want_rev) = (get_i64(v, "cmp"), get_i64(v, "rev"));
    let ord = |o: Ordering| match o {
        Ordering::Less => -1,
        Ordering::Equal => 0,
        Ordering::Greater => 1,
    };
    let key = format!("sort_cmp|timedelta a={},b={}", v["a"], v["b"]);
    rep.cells += 1;
    match catch(|| (ord(a.sort_cmp(&b)), ord(a.sort_cmp_rev(&b)))) {
        Ok((c, r)) if c == want && r == want_rev => rep.ok("sort_cmp", 0.0),
        Ok((c, r)) => rep.mismatch("sort_cmp", "sort_cmp|timedelta", &key, "TimeDelta", &format!("sort_cmp = {c}, sort_cmp_rev = {r}; want {want}, {want_rev}"), v),
        Err(p) => rep.mismatch("sort_cmp", "sort_cmp|timedelta", &key, "TimeDelta", &format!("panicked: {p}"), v),
    }
    let (oa, ob) = (if a.is_nat() { None } else { Some(a) }, if b.is_nat() { None } else { Some(b) });
    rep.cells += 1;
    match catch(|| (ord(oa.sort_cmp(&ob)), ord(oa.sort_cmp_rev(&ob)))) {
        Ok((c, r)) if c == want && r == want_rev => rep.ok("sort_cmp", 0.0),
        Ok((c, r)) => rep.mismatch("sort_cmp", "sort_cmp|timedelta", &key, "Option<TimeDelta>", &format!("sort_cmp = {c}, sort_cmp_rev = {r}; want {want}, {want_rev}"), v),
        Err(p) => rep.mismatch("sort_cmp", "sort_cmp|timedelta", &key, "Option<TimeDelta>", &format!("panicked: {p}"), v),
    }
}

fn cmp_case(rep: &mut Report, v: &Value) {
    use std::cmp::Ordering;
    let (a, b) = (get_i64(v, "a"), get_i64(v, "b"));
    let (want, want_rev) = (get_i64(v, "cmp"), get_i64(v, "rev"));
    let ord = |o: Ordering| match o {
        Ordering::Less => -1,
        Ordering::Equal => 0,
        Ordering::Greater => 1,
    };
    let key = format!("sort_cmp|a={},b={}", vname(a), vname(b));
    macro_rules! one {
        ($T:ty, $cell:expr) => {
            if let (Some(x), Some(y)) = (<$T>::mk(a), <$T>::mk(b)) {
                rep.cells += 1;
                match catch(|| (ord(x.sort_cmp(&y)), ord(x.sort_cmp_rev(&y)))) {
                    Ok((c, r)) if c == want && r == want_rev => rep.ok("sort_cmp", 0.0),
                    Ok((c, r)) => rep.mismatch("sort_cmp", "sort_cmp", &key, $cell, &format!("sort_cmp = {c}, sort_cmp_rev = {r}; want {want}, {want_rev}"), v),
                    Err(p) => rep.mismatch("sort_cmp", "sort_cmp", &key, $cell, &format!("panicked: {p}"), v),
                }
            }
        };
    }
    one!(f64, "f64");
    one!(f32, "f32");
    one!(Option<f64>, "Option<f64>");
    one!(Option<i32>, "Option<i32>");
    one!(i32, "i32");
    one!(u8, "u8");
    one!(Option<u64>, "Option<u64>");
}

/// is_none / not_none / to_opt / as_opt / none() / from_inner / from_opt / unwrap / vabs
fn predicates(rep: &mut Report) {
    let case = serde_json::json!({"op": "predicates"});
    macro_rules! one {
        ($T:ty, $name:expr, [$($v:expr),*], $has_null:expr) => {{
            for v in [$($v),*] {
                let Some(x) = <$T>::mk(v) else { continue };
                rep.cells += 1;
                let key = format!("predicates|{}|v={}", $name, vname(v));
                let r = catch(|| -> Result<(), String> {
                    let isn = x.is_none();
                    if isn != (v == NULL || v == NEGNAN) { return Err(format!("is_none() = {isn}")); }
                    if x.not_none() == isn { return Err("not_none() is not the negation of is_none()".into()); }
                    if x.clone().to_opt().is_none() != isn { return Err("to_opt() disagrees with is_none()".into()); }
                    if x.as_opt().is_none() != isn { return Err("as_opt() disagrees with is_none()".into()); }
                    if !isn {
                        let inner = x.clone().unwrap();
                        let back = <$T as IsNone>::from_inner(inner.clone());
                        if back.is_none() { return Err("from_inner(unwrap(x)) is null".into()); }
                        let back2 = <$T as IsNone>::from_opt(Some(inner));
                        if back2.is_none() { return Err("from_opt(Some(unwrap(x))) is null".into()); }
                    }
                    if $has_null {
                        if !<$T as IsNone>::none().is_none() { return Err("none() is not null".into()); }
                        if !<$T as IsNone>::from_opt(None).is_none() { return Err("from_opt(None) is not null".into()); }
                    }
                    Ok(())
                });
                match r {
                    Ok(Ok(())) => rep.ok("predicates", 0.0),
                    Ok(Err(d)) => rep.mismatch("predicates", "predicates", &key, $name, &d, &case),
                    Err(p) => rep.mismatch("predicates", "predicates", &key, $name, &format!("panicked: {p}"), &case),
                }
            }
        }};
    }
    one!(f64, "f64", [NULL, NEGNAN, -1, 0, 1, HALF, PINF, NINF], true);
    one!(f32, "f32", [NULL, NEGNAN, -1, 0, 1, HALF, PINF, NINF], true);
    one!(i32, "i32", [-1, 0, 1, 300], false);
    one!(i64, "i64", [-1, 0, 1, 300], false);
    one!(u8, "u8", [0, 1, 200], false);
    one!(u64, "u64", [0, 1, 300], false);
    one!(usize, "usize", [0, 1, 300], false);
    one!(isize, "isize", [-1, 0, 300], false);
    one!(bool, "bool", [0, 1], false);
    one!(Option<f64>, "Option<f64>", [NULL, -1, 0, HALF, PINF], true);
    one!(Option<i32>, "Option<i32>", [NULL, -1, 0, 300], true);
    one!(Option<u8>, "Option<u8>", [NULL, 0, 200], true);
    one!(Option<bool>, "Option<bool>", [NULL, 0, 1], true);
    one!(String, "String", [NULL, 1], true);
    one!(DateTime<unit::Nanosecond>, "DateTime", [NULL, 1], true);
    one!(TimeDelta, "TimeDelta", [NULL, 1], true);
    one!(Time, "Time", [NULL, 1], true);
    // into_cast::<T>() / T::inner_cast(x): the value re-wrapped in T's KIND of container (Casts.tla IntoKind):
    // an Option kind absorbs the null (NaN -> None), a bare kind hands the value through
    macro_rules! kind {
        ($S:ty, $name:expr, [$($v:expr),*]) => {{
            for v in [$($v),*] {
                let Some(x) = <$S>::mk(v) else { continue };
                rep.cells += 1;
                let key = format!("into_cast|{}|v={}", $name, vname(v));
                let isn = v == NULL || v == NEGNAN;
                let r = catch(|| -> Result<(), String> {
                    let o: Option<$S> = x.clone().into_cast::<Option<i32>>();
                    if o.is_none() != isn { return Err(format!("into_cast::<Option<_>>() = {o:?}")); }
                    if let Some(y) = o { if y.out() != x.out() { return Err("into_cast::<Option<_>>() changed the value".into()); } }
                    let o2: Option<$S> = <Option<f64> as IsNone>::inner_cast(x.clone());
                    if o2.is_none() != isn { return Err(format!("Option::inner_cast = {o2:?}")); }
                    let b: $S = x.clone().into_cast::<f64>();
                    if b.out() != x.out() { return Err("into_cast::<bare>() changed the value".into()); }
                    let b2: $S = x.clone().into_cast::<i64>();
                    if b2.out() != x.out() { return Err("into_cast::<i64>() changed the value".into()); }
                    Ok(())
                });
                match r {
                    Ok(Ok(())) => rep.ok("into_cast", 0.0),
                    Ok(Err(d)) => rep.mismatch("into_cast", "into_cast", &key, $name, &d, &case),
                    Err(p) => rep.mismatch("into_cast", "into_cast", &key, $name, &format!("panicked: {p}"), &case),
                }
            }
        }};
    }
    kind!(f64, "f64", [NULL, NEGNAN, -1, 0, HALF, PINF, NINF]);
    kind!(f32, "f32", [NULL, NEGNAN, -1, 0, HALF, PINF]);
    kind!(i32, "i32", [-1, 0, 300]);
    kind!(i64, "i64", [-1, 0, 300]);
    kind!(u8, "u8", [0, 200]);
    kind!(usize, "usize", [0, 300]);
    // vabs preserves nullness
    rep.cells += 1;
    let r = catch(|| {
        f64::NAN.vabs().is_nan() && (-2.5f64).vabs() == 2.5 && None::<f64>.vabs().is_none() && Some(-3i32).vabs() == Some(3) && (-3i32).vabs() == 3
    });
    match r {
        Ok(true) => rep.ok("vabs", 0.0),
        _ => rep.mismatch("vabs", "vabs", "vabs", "f64/Option", "vabs does not preserve nullness or magnitude", &case),
    }
}
