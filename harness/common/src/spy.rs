//! Instrumented containers.  `Spy<T>` is an input backend that implements only the required
//! methods of `Vec1View` (so every driver runs its default body) and records every access made
//! through the unchecked accessors; it is itself bounds-checked, so an out-of-range access is
//! logged and turned into a marked panic, never performed.  `SpyOut<T>` is an output container
//! whose uninitialised buffer records every write and is checked when it is exposed.
use std::cell::RefCell;

use tevec::prelude::*;

#[derive(Clone, Debug, PartialEq)]
pub enum Ev {
    Uget { s: u8, i: usize },
    Uslice { s: u8, a: usize, b: usize },
    Titer { s: u8 },
    Uninit { len: usize },
    Uset { i: usize },
    /// buffer exposed as initialised; `unwritten` lists slots never written
    Init { unwritten: Vec<usize> },
    Collect { len: usize },
    /// access outside the container (logged, not performed)
    OobRead { s: u8, i: usize, len: usize },
    OobSlice { s: u8, a: usize, b: usize, len: usize },
    OobWrite { i: usize, len: usize },
    DoubleWrite { i: usize },
    /// user-level marker (callback invocation etc.)
    Mark(serde_json::Value),
}

thread_local! {
    static LOG: RefCell<Vec<Ev>> = const { RefCell::new(Vec::new()) };
}

pub fn log(ev: Ev) {
    LOG.with(|l| l.borrow_mut().push(ev));
}
pub fn take_log() -> Vec<Ev> {
    LOG.with(|l| std::mem::take(&mut *l.borrow_mut()))
}
pub fn clear_log() {
    LOG.with(|l| l.borrow_mut().clear());
}

pub const SPY_OOB: &str = "SPY-OOB";

/// Instrumented input container.
#[derive(Clone, Debug)]
pub struct Spy<T> {
    pub s: u8,
    pub data: Vec<T>,
}

impl<T> Spy<T> {
    pub fn new(s: u8, data: Vec<T>) -> Self {
        Spy { s, data }
    }
}

impl<T> GetLen for Spy<T> {
    #[inline]
    fn len(&self) -> usize {
        self.data.len()
    }
}

impl<T: Clone> TIter<T> for Spy<T> {
    fn titer(&self) -> impl TIterator<Item = T> + '_ {
        log(Ev::Titer { s: self.s });
        self.data.iter().cloned()
    }
}

impl<T: Clone> Vec1View<T> for Spy<T> {
    type SliceOutput<'a>
        = &'a [T]
    where
        Self: 'a;

    fn get_backend_name(&self) -> &'static str {
        "spy"
    }

    fn slice<'a>(&'a self, start: usize, end: usize) -> TResult<Self::SliceOutput<'a>>
    where
        T: 'a,
    {
        if start <= end && end <= self.data.len() {
            log(Ev::Uslice { s: self.s, a: start, b: end });
            Ok(&self.data[start..end])
        } else {
            log(Ev::OobSlice { s: self.s, a: start, b: end, len: self.data.len() });
            panic!("{SPY_OOB}");
        }
    }

    unsafe fn uget(&self, index: usize) -> T {
        if index < self.data.len() {
            log(Ev::Uget { s: self.s, i: index });
            self.data[index].clone()
        } else {
            log(Ev::OobRead { s: self.s, i: index, len: self.data.len() });
            panic!("{SPY_OOB}");
        }
    }
}

/// Instrumented output container.
#[derive(Clone, Debug, PartialEq)]
pub struct SpyOut<T>(pub Vec<T>);

pub struct SpyUninit<T> {
    slots: Vec<Option<T>>,
}

impl<T> GetLen for SpyOut<T> {
    fn len(&self) -> usize {
        self.0.len()
    }
}
impl<T: Clone> TIter<T> for SpyOut<T> {
    fn titer(&self) -> impl TIterator<Item = T> + '_ {
        self.0.iter().cloned()
    }
}
impl<T: Clone> Vec1View<T> for SpyOut<T> {
    type SliceOutput<'a>
        = &'a [T]
    where
        Self: 'a;
    fn get_backend_name(&self) -> &'static str {
        "spyout"
    }
    fn slice<'a>(&'a self, start: usize, end: usize) -> TResult<Self::SliceOutput<'a>>
    where
        T: 'a,
    {
        Ok(&self.0[start..end])
    }
    unsafe fn uget(&self, index: usize) -> T {
        self.0[index].clone()
    }
}

impl<T> GetLen for SpyUninit<T> {
    fn len(&self) -> usize {
        self.slots.len()
    }
}

impl<T> SpyUninit<T> {
    fn put(&mut self, idx: usize, v: T) {
        if idx >= self.slots.len() {
            log(Ev::OobWrite { i: idx, len: self.slots.len() });
            panic!("{SPY_OOB}");
        }
        if self.slots[idx].is_some() {
            log(Ev::DoubleWrite { i: idx });
        }
        log(Ev::Uset { i: idx });
        self.slots[idx] = Some(v);
    }
}

impl<T: Clone + Default> UninitVec<T> for SpyUninit<T> {
    type Vec = SpyOut<T>;
    unsafe fn assume_init(self) -> SpyOut<T> {
        let unwritten: Vec<usize> =
            self.slots.iter().enumerate().filter(|(_, s)| s.is_none()).map(|(i, _)| i).collect();
        log(Ev::Init { unwritten });
        SpyOut(self.slots.into_iter().map(|s| s.unwrap_or_default()).collect())
    }
    unsafe fn uset(&mut self, idx: usize, v: T) {
        self.put(idx, v)
    }
}

impl<T> UninitRefMut<T> for &mut SpyUninit<T> {
    unsafe fn uset(&mut self, idx: usize, v: T) {
        self.put(idx, v)
    }
}

impl<T: Clone + Default> Vec1<T> for SpyOut<T> {
    type Uninit = SpyUninit<T>;
    type UninitRefMut<'a>
        = &'a mut SpyUninit<T>
    where
        T: 'a;

    fn collect_from_iter<I: Iterator<Item = T>>(iter: I) -> Self {
        let v: Vec<T> = iter.collect();
        log(Ev::Collect { len: v.len() });
        SpyOut(v)
    }

    fn uninit(len: usize) -> Self::Uninit {
        log(Ev::Uninit { len });
        SpyUninit { slots: (0..len).map(|_| None).collect() }
    }

    fn uninit_ref_mut(uninit_vec: &mut Self::Uninit) -> Self::UninitRefMut<'_> {
        uninit_vec
    }
}

/// Safety verdict over an access log, independent of any trace specification: used by the
/// replay direction, where no TLC run sits between the code and the verdict.
pub fn safety_faults(evs: &[Ev]) -> Vec<String> {
    let mut out = Vec::new();
    for e in evs {
        match e {
            Ev::OobRead { s, i, len } => out.push(format!("uget({i}) on series {s} of length {len}")),
            Ev::OobSlice { s, a, b, len } => {
                out.push(format!("uslice({a},{b}) on series {s} of length {len}"))
            },
            Ev::OobWrite { i, len } => out.push(format!("uset({i}) on buffer of length {len}")),
            Ev::DoubleWrite { i } => out.push(format!("slot {i} written twice")),
            Ev::Init { unwritten } if !unwritten.is_empty() => {
                out.push(format!("exposed as initialised with unwritten slots {unwritten:?}"))
            },
            _ => {},
        }
    }
    out
}
