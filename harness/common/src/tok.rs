//! A series element that is Clone but NOT Copy, with drop accounting.  The drivers are generic
//! in `T: Clone`; with a Copy element a driver that hands out a bitwise alias of a stored
//! element (`ptr::read` where a clone is due) is indistinguishable from a correct one, with
//! `String` elements it is a double free.  `Tok` owns no heap memory, so such an alias is not
//! undefined behaviour here - it is COUNTED: every value has an identity, a clone gets a fresh
//! one, and dropping an identity that belongs to the input series while a call is in progress
//! (or dropping any identity twice) is recorded as a fault.
use std::cell::{Cell, RefCell};
use std::collections::HashSet;

thread_local! {
    static NEXT: Cell<u64> = const { Cell::new(1) };
    static LIVE: RefCell<HashSet<u64>> = RefCell::new(HashSet::new());
    static SERIES: RefCell<HashSet<u64>> = RefCell::new(HashSet::new());
    static GUARD: Cell<bool> = const { Cell::new(false) };
    static FAULTS: RefCell<Vec<String>> = const { RefCell::new(Vec::new()) };
}

pub struct Tok {
    pub code: i64,
    id: u64,
}

fn fresh(code: i64, series: bool) -> Tok {
    let id = NEXT.with(|n| {
        let v = n.get();
        n.set(v + 1);
        v
    });
    LIVE.with(|l| l.borrow_mut().insert(id));
    if series {
        SERIES.with(|s| s.borrow_mut().insert(id));
    }
    Tok { code, id }
}

impl Clone for Tok {
    fn clone(&self) -> Tok {
        fresh(self.code, false)
    }
}
impl Drop for Tok {
    fn drop(&mut self) {
        let was_live = LIVE.with(|l| l.borrow_mut().remove(&self.id));
        let in_series = SERIES.with(|s| s.borrow().contains(&self.id));
        if !was_live {
            FAULTS.with(|f| f.borrow_mut().push(format!("the element with code {} was dropped twice", self.code)));
        } else if in_series && GUARD.with(|g| g.get()) {
            FAULTS.with(|f| {
                f.borrow_mut().push(format!(
                    "element {} of the INPUT series was dropped during the call: a bitwise alias was handed out where a clone is due",
                    self.code
                ))
            });
        }
        if in_series && !GUARD.with(|g| g.get()) {
            SERIES.with(|s| s.borrow_mut().remove(&self.id));
        }
    }
}
impl Default for Tok {
    fn default() -> Tok {
        fresh(0, false)
    }
}

/// a series of position-coded tokens
pub fn tok_series(codes: &[i64]) -> Vec<Tok> {
    codes.iter().map(|c| fresh(*c, true)).collect()
}
/// calls into the library are bracketed: faults are attributed to the call in progress
pub fn tok_guard(on: bool) {
    GUARD.with(|g| g.set(on));
}
pub fn tok_faults_take() -> Vec<String> {
    FAULTS.with(|f| std::mem::take(&mut *f.borrow_mut()))
}
