//! Expectation vocabulary emitted by the specifications (see Values.tla) and the relation
//! between an expectation and an observed output element.
use serde_json::Value;

use crate::util::{NULL, tool_error};

#[derive(Clone, Debug, PartialEq)]
pub enum Exp {
    Null,
    Q(i64, i64),
    Sq(i64, i64, i64),
    Int(i64),
    Any,
    Set(Vec<Exp>),
    Exact(i64, i64),
    /// s * sqrt(prod n_i/d_i)
    SqProd(i64, Vec<(i64, i64)>),
    /// b_n/b_d + prod n_i/d_i
    Aff((i64, i64), Vec<(i64, i64)>),
    /// b_n/b_d + s * sqrt(q_n/q_d)
    AffSq((i64, i64), i64, (i64, i64)),
    /// s * infinity (IEEE 754: a float series may hold infinities, MapOps.tla XSub / XPct)
    Inf(i64),
}

impl Exp {
    pub fn parse(v: &Value) -> Exp {
        let a = v.as_array().unwrap_or_else(|| tool_error(&format!("expectation not an array: {v}")));
        let int = |i: usize| a[i].as_i64().unwrap_or_else(|| tool_error("expectation field"));
        match int(0) {
            0 => Exp::Null,
            1 => Exp::Q(int(1), int(2)),
            2 => Exp::Sq(int(1), int(2), int(3)),
            3 => Exp::Int(int(1)),
            4 => Exp::Any,
            5 => Exp::Set(a[1..].iter().map(Exp::parse).collect()),
            6 => Exp::Exact(int(1), int(2)),
            7 => Exp::SqProd(int(1), (2..a.len()).step_by(2).map(|i| (int(i), int(i + 1))).collect()),
            8 => Exp::Aff((int(1), int(2)), (3..a.len()).step_by(2).map(|i| (int(i), int(i + 1))).collect()),
            9 => Exp::AffSq((int(1), int(2)), int(3), (int(4), int(5))),
            10 => Exp::Inf(int(1)),
            k => tool_error(&format!("unknown expectation kind {k}")),
        }
    }
    pub fn parse_seq(v: &Value) -> Vec<Exp> {
        v.as_array()
            .unwrap_or_else(|| tool_error(&format!("expectation list not an array: {v}")))
            .iter()
            .map(Exp::parse)
            .collect()
    }
    /// expectation of an optional integer coded with the in-band NULL
    pub fn from_opt_int(v: i64) -> Exp {
        if v == NULL { Exp::Null } else { Exp::Int(v) }
    }
    pub fn is_any(&self) -> bool {
        matches!(self, Exp::Any)
    }
    /// the real number the expectation denotes, if it denotes one
    pub fn value(&self) -> Option<f64> {
        match self {
            Exp::Q(n, d) | Exp::Exact(n, d) => Some(*n as f64 / *d as f64),
            Exp::Sq(s, n, d) => Some(*s as f64 * (*n as f64 / *d as f64).sqrt()),
            Exp::Int(v) => Some(*v as f64),
            Exp::SqProd(s, fs) => Some(*s as f64 * fs.iter().map(|(n, d)| *n as f64 / *d as f64).product::<f64>().sqrt()),
            Exp::AffSq(b, s, q) => Some(b.0 as f64 / b.1 as f64 + *s as f64 * (q.0 as f64 / q.1 as f64).sqrt()),
            Exp::Aff(b, fs) => Some(b.0 as f64 / b.1 as f64 + fs.iter().map(|(n, d)| *n as f64 / *d as f64).product::<f64>()),
            Exp::Inf(s) => Some(if *s > 0 { f64::INFINITY } else { f64::NEG_INFINITY }),
            _ => None,
        }
    }
}

/// What an output element looks like after decoding its null representation.
#[derive(Clone, Copy, Debug, PartialEq)]
pub enum Obs {
    Null,
    /// floating output (f64, f32, Option<f64>, Option<f32>)
    F(f64),
    /// integer output (i32, i64, usize, Option<i32>, ...)
    I(i64),
}

impl std::fmt::Display for Obs {
    fn fmt(&self, f: &mut std::fmt::Formatter<'_>) -> std::fmt::Result {
        match self {
            Obs::Null => write!(f, "null"),
            Obs::F(v) => write!(f, "{v:?}"),
            Obs::I(v) => write!(f, "{v}i"),
        }
    }
}

/// Output element types the harness instantiates.
pub trait OutElem: Clone + Default + 'static {
    const NAME: &'static str;
    /// relative tolerance for "up to floating-point rounding"
    const TOL: f64;
    /// true when the type has no null: a null result shows as `NaN as int` = 0
    const NULL_AS_ZERO: bool;
    fn obs(&self) -> Obs;
    /// bit pattern for the bit-for-bit relational checks
    fn bits(&self) -> u64;
    /// a value no kernel produces on the harness's inputs: pre-fills the cells AROUND a
    /// caller-supplied output buffer, which must come back untouched
    fn sentinel() -> Self;
}

impl OutElem for f64 {
    const NAME: &'static str = "f64";
    const TOL: f64 = 1e-9;
    const NULL_AS_ZERO: bool = false;
    fn obs(&self) -> Obs {
        if self.is_nan() { Obs::Null } else { Obs::F(*self) }
    }
    fn bits(&self) -> u64 {
        if self.is_nan() { u64::MAX } else { self.to_bits() }
    }
    fn sentinel() -> Self {
        -777.015625
    }
}
impl OutElem for f32 {
    const NAME: &'static str = "f32";
    const TOL: f64 = 2e-6;
    const NULL_AS_ZERO: bool = false;
    fn obs(&self) -> Obs {
        if self.is_nan() { Obs::Null } else { Obs::F(*self as f64) }
    }
    fn bits(&self) -> u64 {
        if self.is_nan() { u64::MAX } else { self.to_bits() as u64 }
    }
    fn sentinel() -> Self {
        -777.015625
    }
}
impl OutElem for Option<f64> {
    const NAME: &'static str = "Option<f64>";
    const TOL: f64 = 1e-9;
    const NULL_AS_ZERO: bool = false;
    fn obs(&self) -> Obs {
        match self {
            None => Obs::Null,
            Some(v) if v.is_nan() => Obs::Null,
            Some(v) => Obs::F(*v),
        }
    }
    fn bits(&self) -> u64 {
        match self {
            Some(v) if !v.is_nan() => v.to_bits(),
            _ => u64::MAX,
        }
    }
    fn sentinel() -> Self {
        Some(-777.015625)
    }
}
impl OutElem for Option<f32> {
    const NAME: &'static str = "Option<f32>";
    const TOL: f64 = 2e-6;
    const NULL_AS_ZERO: bool = false;
    fn obs(&self) -> Obs {
        match self {
            None => Obs::Null,
            Some(v) if v.is_nan() => Obs::Null,
            Some(v) => Obs::F(*v as f64),
        }
    }
    fn bits(&self) -> u64 {
        match self {
            Some(v) if !v.is_nan() => v.to_bits() as u64,
            _ => u64::MAX,
        }
    }
    fn sentinel() -> Self {
        Some(-777.015625)
    }
}
macro_rules! int_out {
    ($($t:ty),*) => {$(
        impl OutElem for $t {
            const NAME: &'static str = stringify!($t);
            const TOL: f64 = 1e-9;
            const NULL_AS_ZERO: bool = true;
            fn obs(&self) -> Obs { Obs::I(*self as i64) }
            fn bits(&self) -> u64 { *self as i64 as u64 }
            fn sentinel() -> Self { 7_777_777 as $t }
        }
        impl OutElem for Option<$t> {
            const NAME: &'static str = concat!("Option<", stringify!($t), ">");
            const TOL: f64 = 1e-9;
            const NULL_AS_ZERO: bool = false;
            fn obs(&self) -> Obs { match self { None => Obs::Null, Some(v) => Obs::I(*v as i64) } }
            fn bits(&self) -> u64 { match self { None => u64::MAX, Some(v) => *v as i64 as u64 } }
            fn sentinel() -> Self { Some(7_777_777 as $t) }
        }
    )*};
}
int_out!(i32, i64, usize);

fn close(got: f64, want: f64, tol: f64) -> bool {
    (got - want).abs() <= tol * want.abs().max(1.0)
}

/// candidates an integer output may show for the real value `x` (cast truncates toward zero;
/// within rounding distance of an integer both neighbours are legitimate)
fn int_candidates(x: f64) -> Vec<i64> {
    let mut c = vec![x.trunc() as i64];
    let r = x.round();
    if close(x, r, 1e-9) {
        let r = r as i64;
        c.push(r);
        c.push(r - r.signum());
    }
    c
}

/// Does `obs` satisfy `exp`?  Returns the absolute deviation seen (0 for exact kinds).
pub fn satisfies(exp: &Exp, obs: Obs, tol: f64, null_as_zero: bool) -> Result<f64, String> {
    // "exact" rationals: a correctly rounded quotient, a few ulp of slack for the element type
    let exact_tol = if tol > 1e-8 { 2e-7 } else { 4e-15 };
    let fail = || Err(format!("got {obs}, want {exp:?}"));
    match exp {
        Exp::Any => Ok(0.0),
        Exp::Set(alts) => {
            for a in alts {
                if let Ok(d) = satisfies(a, obs, tol, null_as_zero) {
                    return Ok(d);
                }
            }
            fail()
        },
        Exp::Null => match obs {
            Obs::Null => Ok(0.0),
            Obs::I(0) if null_as_zero => Ok(0.0),
            _ => fail(),
        },
        Exp::Int(v) => match obs {
            Obs::I(g) if g == *v => Ok(0.0),
            Obs::F(g) if g == *v as f64 => Ok(0.0),
            _ => fail(),
        },
        Exp::Inf(s) => match obs {
            Obs::F(g) if g.is_infinite() && (g > 0.0) == (*s > 0) => Ok(0.0),
            _ => fail(),
        },
        Exp::Exact(..) | Exp::Q(..) | Exp::Sq(..) | Exp::SqProd(..) | Exp::Aff(..) | Exp::AffSq(..) => {
            let want = exp.value().unwrap();
            let t = if matches!(exp, Exp::Exact(..)) { exact_tol } else { tol };
            match obs {
                Obs::F(g) if close(g, want, t) => Ok((g - want).abs()),
                Obs::I(g) if int_candidates(want).contains(&g) => Ok(0.0),
                _ => fail(),
            }
        },
    }
}

/// A change of unit (Laws1.tla / Laws2.tla): the series is measured in some unit u, the statistic
/// is homogeneous of degree `deg`, so the expectation is multiplied by `factor` = u^deg.
/// `floor` is the magnitude the statistic's terms have in that unit (u^deg * maxabs^deg): a
/// value that is zero in exact arithmetic comes out as a rounding residue relative to it.
#[derive(Clone, Copy, Debug)]
pub struct Unit {
    pub factor: f64,
    pub floor: f64,
}
/// relative tolerance of a comparison in another unit: these runs look for magnitude-dependent
/// failures (overflow, absorption, absolute thresholds), not for the last digits
pub const UNIT_TOL: f64 = 1e-6;

pub fn satisfies_unit(exp: &Exp, obs: Obs, un: Unit, null_as_zero: bool) -> Result<f64, String> {
    let fail = |want: Option<f64>| Err(format!("got {obs}, want {exp:?} x {:e}{}", un.factor, want.map(|w| format!(" = {w:e}")).unwrap_or_default()));
    match exp {
        Exp::Any => Ok(0.0),
        Exp::Set(alts) => {
            for a in alts {
                if let Ok(d) = satisfies_unit(a, obs, un, null_as_zero) {
                    return Ok(d);
                }
            }
            fail(None)
        },
        Exp::Null => match obs {
            Obs::Null => Ok(0.0),
            Obs::I(0) if null_as_zero => Ok(0.0),
            _ => fail(None),
        },
        Exp::Inf(s) => match obs {
            Obs::F(g) if g.is_infinite() && (g > 0.0) == (*s > 0) => Ok(0.0),
            _ => fail(None),
        },
        _ => {
            let want = exp.value().unwrap() * un.factor;
            let slack = UNIT_TOL * want.abs().max(un.floor);
            match obs {
                Obs::F(g) if (g - want).abs() <= slack => Ok(0.0),
                Obs::I(g) if (g as f64 - want).abs() <= slack.max(1.0) => Ok(0.0),
                _ => fail(Some(want)),
            }
        },
    }
}

pub fn check_elem<O: OutElem>(exp: &Exp, got: &O) -> Result<f64, String> {
    satisfies(exp, got.obs(), O::TOL, O::NULL_AS_ZERO)
}

/// Input element types the harness instantiates: how a specification value (small integer
/// or NULL) is encoded.
pub trait InElem: Clone + 'static {
    const NAME: &'static str;
    const HAS_NULL: bool;
    fn enc(v: i64) -> Self;
    /// the specification value measured in the unit `u` (Laws1.tla): v * u
    fn enc_unit(v: i64, u: f64) -> Self;
    /// can the type hold |v| * u for every |v| <= maxabs ?
    fn fits(maxabs: i64, u: f64) -> bool;
}
impl InElem for f64 {
    const NAME: &'static str = "f64";
    const HAS_NULL: bool = true;
    fn enc(v: i64) -> Self {
        if v == NULL { f64::NAN } else { v as f64 }
    }
    fn enc_unit(v: i64, u: f64) -> Self {
        if v == NULL { f64::NAN } else { v as f64 * u }
    }
    fn fits(_: i64, _: f64) -> bool {
        true
    }
}
impl InElem for f32 {
    const NAME: &'static str = "f32";
    const HAS_NULL: bool = true;
    fn enc(v: i64) -> Self {
        if v == NULL { f32::NAN } else { v as f32 }
    }
    fn enc_unit(v: i64, u: f64) -> Self {
        if v == NULL { f32::NAN } else { (v as f64 * u) as f32 }
    }
    fn fits(maxabs: i64, u: f64) -> bool {
        // the product must be exact in f32, or the input itself would carry a rounding error
        (0..=maxabs).all(|v| ((v as f64 * u) as f32) as f64 == v as f64 * u)
    }
}
macro_rules! int_in {
    ($($t:ty),*) => {$(
        impl InElem for $t {
            const NAME: &'static str = stringify!($t);
            const HAS_NULL: bool = false;
            fn enc(v: i64) -> Self {
                assert!(v != NULL, "integer element types cannot hold a null");
                v as $t
            }
            fn enc_unit(v: i64, u: f64) -> Self {
                assert!(v != NULL, "integer element types cannot hold a null");
                (v as i128 * u as i128) as $t
            }
            fn fits(maxabs: i64, u: f64) -> bool {
                u == u.trunc() && (maxabs as i128 * u as i128) <= <$t>::MAX as i128
            }
        }
        impl InElem for Option<$t> {
            const NAME: &'static str = concat!("Option<", stringify!($t), ">");
            const HAS_NULL: bool = true;
            fn enc(v: i64) -> Self { if v == NULL { None } else { Some(v as $t) } }
            fn enc_unit(v: i64, u: f64) -> Self { if v == NULL { None } else { Some((v as i128 * u as i128) as $t) } }
            fn fits(maxabs: i64, u: f64) -> bool { <$t as InElem>::fits(maxabs, u) }
        }
    )*};
}
int_in!(i32, i64);
impl InElem for Option<f64> {
    const NAME: &'static str = "Option<f64>";
    const HAS_NULL: bool = true;
    fn enc(v: i64) -> Self {
        if v == NULL { None } else { Some(v as f64) }
    }
    fn enc_unit(v: i64, u: f64) -> Self {
        if v == NULL { None } else { Some(v as f64 * u) }
    }
    fn fits(_: i64, _: f64) -> bool {
        true
    }
}
impl InElem for Option<f32> {
    const NAME: &'static str = "Option<f32>";
    const HAS_NULL: bool = true;
    fn enc(v: i64) -> Self {
        if v == NULL { None } else { Some(v as f32) }
    }
    fn enc_unit(v: i64, u: f64) -> Self {
        if v == NULL { None } else { Some((v as f64 * u) as f32) }
    }
    fn fits(maxabs: i64, u: f64) -> bool {
        <f32 as InElem>::fits(maxabs, u)
    }
}

pub fn enc_vec<T: InElem>(xs: &[i64]) -> Vec<T> {
    xs.iter().map(|&v| T::enc(v)).collect()
}
pub fn enc_vec_unit<T: InElem>(xs: &[i64], u: f64) -> Vec<T> {
    xs.iter().map(|&v| T::enc_unit(v, u)).collect()
}
/// the float encoding of a series with its nulls written as a NaN whose sign bit is set (what
/// -NaN, 0.0/0.0 or inf-inf give at run time): the same null as NaN (Casts.tla NEGNAN)
pub fn enc_vec_negnan(xs: &[i64]) -> Vec<f64> {
    xs.iter().map(|&v| if v == NULL { -f64::NAN } else { v as f64 }).collect()
}
pub fn max_abs(xs: &[i64]) -> i64 {
    xs.iter().filter(|&&v| v != NULL).map(|v| v.abs()).fold(0, |a, b| if b > a { b } else { a })
}
pub fn has_null(xs: &[i64]) -> bool {
    xs.iter().any(|&v| v == NULL)
}

/// Projection impl -> spec: the reduced fraction p/q (q <= qmax) that the float equals within
/// `tol` relative, by continued fractions; None if there is none (the value is then logged as
/// inexact and the trace specification rejects it).
pub fn project(o: f64, tol: f64, qmax: i64) -> Option<(i64, i64)> {
    if !o.is_finite() {
        return None;
    }
    let (mut p0, mut q0, mut p1, mut q1) = (0i64, 1i64, 1i64, 0i64);
    let mut x = o;
    for _ in 0..64 {
        let a = x.floor();
        if a.abs() > 1e15 {
            return None;
        }
        let a_i = a as i64;
        let p2 = a_i.checked_mul(p1)?.checked_add(p0)?;
        let q2 = a_i.checked_mul(q1)?.checked_add(q0)?;
        if q2 > qmax || q2 <= 0 {
            return None;
        }
        if (o - p2 as f64 / q2 as f64).abs() <= tol * o.abs().max(1.0) {
            if p2.abs() >= (1 << 30) {
                return None;
            }
            return Some((p2, q2));
        }
        let frac = x - a;
        if frac.abs() < 1e-300 {
            return None;
        }
        x = 1.0 / frac;
        (p0, q0, p1, q1) = (p1, q1, p2, q2);
    }
    None
}

/// how a kernel's output is projected for trace validation
#[derive(Clone, Copy, PartialEq)]
pub enum ProjKind {
    /// exact integer (min, max, arg-extrema)
    Int,
    /// exact small rational (ranks)
    Exact,
    /// rational
    Q,
    /// signed square root of a rational
    Sq,
}

pub fn project_obs(o: Obs, kind: ProjKind) -> serde_json::Value {
    use serde_json::json;
    const TOL: f64 = 1e-12;
    const QMAX: i64 = 1_000_000;
    match o {
        Obs::Null => json!([0]),
        Obs::I(v) => json!([3, v]),
        Obs::F(f) => match kind {
            ProjKind::Int => {
                if f == f.round() && f.abs() < 1e9 { json!([3, f as i64]) } else { json!([9]) }
            },
            ProjKind::Exact => match project(f, TOL, QMAX) {
                Some((p, q)) => json!([6, p, q]),
                None => json!([9]),
            },
            ProjKind::Q => match project(f, TOL, QMAX) {
                Some((p, q)) => json!([1, p, q]),
                None => json!([9]),
            },
            ProjKind::Sq => match project(f * f, TOL, QMAX) {
                Some((p, q)) => json!([2, if f > 0.0 { 1 } else if f < 0.0 { -1 } else { 0 }, p, q]),
                None => json!([9]),
            },
        },
    }
}
