//! Output containers the harness can read back, and CALLER-SUPPLIED output buffers whose layout
//! is not the one the library allocates for itself (Containers.tla: a representation is also a
//! place results are written to):
//!   Vec       a sub-slice in the middle of a larger allocation
//!   VecDeque  a ring whose live cells wrap around the end of the storage
//!   Array1    a strided view (step 2, step 3) and a reversed view (step -1) of a larger array
//! Cells outside the buffer are pre-filled with a sentinel and must come back untouched.
use std::collections::VecDeque;
use std::mem::MaybeUninit;

use tevec::export::ndarray::{Array1, ArrayViewMut1, s};
use tevec::prelude::*;

use crate::exp::OutElem;
use crate::spy::SpyOut;

pub trait OutCont<U>: Vec1<U> {
    const CNAME: &'static str;
    fn into_vec(self) -> Vec<U>;
    /// backing store of a caller-supplied buffer in an unusual layout
    type Odd;
    /// names of the unusual layouts this container has
    fn odd_layouts() -> &'static [&'static str] {
        &[]
    }
    fn odd_alloc(_layout: usize, _n: usize) -> Self::Odd {
        unreachable!("no unusual caller-buffer layout for this container")
    }
    fn odd_ref(_odd: &mut Self::Odd) -> Self::UninitRefMut<'_> {
        unreachable!("no unusual caller-buffer layout for this container")
    }
    /// the n logical slots, or what was clobbered outside them
    fn odd_read(_odd: Self::Odd) -> Result<Vec<U>, String> {
        unreachable!("no unusual caller-buffer layout for this container")
    }
}

pub struct OddVec<U> {
    backing: Vec<MaybeUninit<U>>,
    off: usize,
    n: usize,
}
impl<U: OutElem> OutCont<U> for Vec<U> {
    const CNAME: &'static str = "Vec";
    fn into_vec(self) -> Vec<U> {
        self
    }
    type Odd = OddVec<U>;
    fn odd_layouts() -> &'static [&'static str] {
        &["sub-slice at offset 2 of a larger buffer"]
    }
    fn odd_alloc(_layout: usize, n: usize) -> OddVec<U> {
        OddVec { backing: (0..n + 5).map(|_| MaybeUninit::new(U::sentinel())).collect(), off: 2, n }
    }
    fn odd_ref(odd: &mut OddVec<U>) -> &mut [MaybeUninit<U>] {
        &mut odd.backing[odd.off..odd.off + odd.n]
    }
    fn odd_read(odd: OddVec<U>) -> Result<Vec<U>, String> {
        let all: Vec<U> = odd.backing.into_iter().map(|c| unsafe { c.assume_init() }).collect();
        for (i, c) in all.iter().enumerate() {
            if (i < odd.off || i >= odd.off + odd.n) && c.bits() != U::sentinel().bits() {
                return Err(format!("cell {i} outside the supplied buffer [{}, {}) was overwritten", odd.off, odd.off + odd.n));
            }
        }
        Ok(all[odd.off..odd.off + odd.n].to_vec())
    }
}

impl<U: Clone + Default> OutCont<U> for SpyOut<U> {
    const CNAME: &'static str = "SpyOut";
    fn into_vec(self) -> Vec<U> {
        self.0
    }
    type Odd = ();
}

impl<U: OutElem> OutCont<U> for VecDeque<U> {
    const CNAME: &'static str = "VecDeque";
    fn into_vec(self) -> Vec<U> {
        self.into_iter().collect()
    }
    type Odd = VecDeque<MaybeUninit<U>>;
    fn odd_layouts() -> &'static [&'static str] {
        &["ring wrapped around the end of the storage", "ring rotated, still contiguous"]
    }
    fn odd_alloc(layout: usize, n: usize) -> VecDeque<MaybeUninit<U>> {
        let mut d: VecDeque<MaybeUninit<U>> = VecDeque::with_capacity(n.max(2));
        let cap = d.capacity();
        // head such that the n live cells wrap (layout 0) or just fit before the end (layout 1)
        let head = if layout == 0 { cap - n / 2 - usize::from(n < 2) } else { cap - n };
        let head = head.min(cap);
        for _ in 0..head {
            d.push_back(MaybeUninit::new(U::sentinel()));
        }
        for _ in 0..head {
            d.pop_front();
        }
        for _ in 0..n {
            d.push_back(MaybeUninit::new(U::sentinel()));
        }
        assert!(d.capacity() == cap, "harness: the ring was reallocated while being rotated");
        if layout == 0 && n >= 2 {
            assert!(!d.as_slices().1.is_empty(), "harness: the ring did not wrap");
        }
        d
    }
    fn odd_ref(odd: &mut VecDeque<MaybeUninit<U>>) -> &mut VecDeque<MaybeUninit<U>> {
        odd
    }
    fn odd_read(odd: VecDeque<MaybeUninit<U>>) -> Result<Vec<U>, String> {
        Ok(odd.into_iter().map(|c| unsafe { c.assume_init() }).collect())
    }
}

pub struct OddArr<U> {
    backing: Array1<MaybeUninit<U>>,
    /// physical index of logical slot 0, and the step between slots
    first: usize,
    step: isize,
    n: usize,
}
impl<U: OutElem> OddArr<U> {
    fn phys(&self, i: usize) -> usize {
        (self.first as isize + i as isize * self.step) as usize
    }
}
impl<U: OutElem> OutCont<U> for Array1<U> {
    const CNAME: &'static str = "Array1";
    fn into_vec(self) -> Vec<U> {
        self.into_iter().collect()
    }
    type Odd = OddArr<U>;
    fn odd_layouts() -> &'static [&'static str] {
        &["view with step 2 at offset 1", "reversed view (step -1)", "view with step 3"]
    }
    fn odd_alloc(layout: usize, n: usize) -> OddArr<U> {
        let (len, first, step): (usize, usize, isize) = match layout {
            0 => (2 * n + 3, 1, 2),
            1 => (2 * n + 4, n + 1, -1),      // room above `first`: a writer that ignores the stride stays inside the allocation
            _ => (3 * n + 2, 0, 3),
        };
        OddArr { backing: Array1::from_shape_fn(len, |_| MaybeUninit::new(U::sentinel())), first, step, n }
    }
    fn odd_ref(odd: &mut OddArr<U>) -> ArrayViewMut1<'_, MaybeUninit<U>> {
        let n = odd.n;
        if n == 0 {
            return odd.backing.slice_mut(s![0..0]);
        }
        if odd.step > 0 {
            let (a, st) = (odd.first, odd.step as usize);
            odd.backing.slice_mut(s![a..a + (n - 1) * st + 1; odd.step])
        } else {
            // logical slot i lives at first - i: the view of [first-n+1, first] read backwards
            let lo = odd.first + 1 - n;
            odd.backing.slice_mut(s![lo..odd.first + 1; -1])
        }
    }
    fn odd_read(odd: OddArr<U>) -> Result<Vec<U>, String> {
        let live: Vec<usize> = (0..odd.n).map(|i| odd.phys(i)).collect();
        let all: Vec<U> = odd.backing.iter().map(|c| unsafe { c.assume_init_ref() }.clone()).collect();
        for (p, c) in all.iter().enumerate() {
            if !live.contains(&p) && c.bits() != U::sentinel().bits() {
                return Err(format!("cell {p} of the underlying array does not belong to the supplied view (cells {live:?}) and was overwritten"));
            }
        }
        Ok(live.iter().map(|p| all[*p].clone()).collect())
    }
}
