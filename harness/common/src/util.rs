use std::io::{BufRead, BufReader, Write};
use std::panic::{AssertUnwindSafe, catch_unwind};

use serde_json::Value;

/// in-band null of the specifications (Values.tla)
pub const NULL: i64 = -99999;

/// splitmix64 — all randomness of the harness derives from VERIF_SEED through this.
#[derive(Clone)]
pub struct Rng(pub u64);
impl Rng {
    pub fn new(seed: u64) -> Self {
        Rng(seed.wrapping_mul(0x9E3779B97F4A7C15).wrapping_add(0x1234_5678_9ABC_DEF1))
    }
    pub fn next(&mut self) -> u64 {
        self.0 = self.0.wrapping_add(0x9E3779B97F4A7C15);
        let mut z = self.0;
        z = (z ^ (z >> 30)).wrapping_mul(0xBF58476D1CE4E5B9);
        z = (z ^ (z >> 27)).wrapping_mul(0x94D049BB133111EB);
        z ^ (z >> 31)
    }
    /// uniform in 0..n (n > 0)
    pub fn below(&mut self, n: u64) -> u64 {
        self.next() % n
    }
    /// uniform in lo..=hi
    pub fn range(&mut self, lo: i64, hi: i64) -> i64 {
        lo + (self.below((hi - lo + 1) as u64) as i64)
    }
    pub fn chance(&mut self, num: u64, den: u64) -> bool {
        self.below(den) < num
    }
    pub fn pick<'a, T>(&mut self, xs: &'a [T]) -> &'a T {
        &xs[self.below(xs.len() as u64) as usize]
    }
}

/// Run `f`, turning a panic of the code under test into data.
pub fn catch<T>(f: impl FnOnce() -> T) -> Result<T, String> {
    match catch_unwind(AssertUnwindSafe(f)) {
        Ok(v) => Ok(v),
        Err(e) => {
            let msg = if let Some(s) = e.downcast_ref::<&str>() {
                s.to_string()
            } else if let Some(s) = e.downcast_ref::<String>() {
                s.clone()
            } else {
                "<non-string panic>".to_string()
            };
            Err(msg)
        },
    }
}

static LAST_PANIC: std::sync::Mutex<Option<(String, String)>> = std::sync::Mutex::new(None);

/// Panics of the library are expected data; keep stderr quiet, remember the last one.
pub fn silence_panics() {
    std::panic::set_hook(Box::new(|info| {
        let loc = info.location().map(|l| format!("{}:{}", l.file(), l.line())).unwrap_or_default();
        let msg = if let Some(s) = info.payload().downcast_ref::<&str>() {
            s.to_string()
        } else if let Some(s) = info.payload().downcast_ref::<String>() {
            s.clone()
        } else {
            "panic".to_string()
        };
        if let Ok(mut g) = LAST_PANIC.lock() {
            *g = Some((loc, msg));
        }
    }));
}

/// Run a harness command.  Every call into the library is supposed to sit inside `catch`; a
/// panic that escapes anyway must not turn into a silent tool failure: it is reported on
/// stderr as `ESCAPED-PANIC <location> <message>` with exit code 3, and the driver locates
/// the case by bisection of the input.
pub fn guarded_main(f: impl FnOnce() + std::panic::UnwindSafe) {
    silence_panics();
    if std::panic::catch_unwind(f).is_err() {
        let (loc, msg) = LAST_PANIC.lock().ok().and_then(|g| g.clone()).unwrap_or_default();
        eprintln!("ESCAPED-PANIC\t{loc}\t{}", msg.replace('\n', " "));
        std::process::exit(3);
    }
}

/// The cases of an ndjson file, parsed one line at a time (the thorough tier's files run to
/// gigabytes: holding them as a Vec<Value> took 34 GB and the OOM killer).
pub struct NdCases {
    lines: std::io::Lines<BufReader<std::fs::File>>,
    path: String,
    n: u64,
}
impl Iterator for NdCases {
    type Item = Value;
    fn next(&mut self) -> Option<Value> {
        loop {
            let line = match self.lines.next()? {
                Ok(l) => l,
                Err(e) => tool_error(&format!("read {}: {e}", self.path)),
            };
            self.n += 1;
            let line = line.trim();
            if line.is_empty() {
                continue;
            }
            match serde_json::from_str::<Value>(line) {
                Ok(v) => return Some(v),
                Err(e) => tool_error(&format!("{} line {}: {e}", self.path, self.n)),
            }
        }
    }
}
pub fn read_ndjson(path: &str) -> NdCases {
    let f = std::fs::File::open(path).unwrap_or_else(|e| tool_error(&format!("open {path}: {e}")));
    NdCases { lines: BufReader::new(f).lines(), path: path.to_string(), n: 0 }
}

pub struct NdWriter(std::io::BufWriter<std::fs::File>);
impl NdWriter {
    pub fn create(path: &str) -> Self {
        let f = std::fs::File::create(path)
            .unwrap_or_else(|e| tool_error(&format!("create {path}: {e}")));
        NdWriter(std::io::BufWriter::new(f))
    }
    pub fn line(&mut self, v: &Value) {
        serde_json::to_writer(&mut self.0, v).unwrap();
        self.0.write_all(b"\n").unwrap();
    }
    pub fn finish(mut self) {
        self.0.flush().unwrap();
    }
}

/// A failure of the tooling itself (never a verdict): exit code 2.
pub fn tool_error(msg: &str) -> ! {
    eprintln!("TOOL-ERROR: {msg}");
    std::process::exit(2)
}

/// Every integer that crosses into TLC must fit its 32-bit integers with room to spare.
pub fn tlc_int(x: i64) -> i64 {
    if x.abs() >= (1 << 30) && x != NULL {
        tool_error(&format!("integer {x} out of the range TLC can read"));
    }
    x
}

pub fn get_i64(v: &Value, k: &str) -> i64 {
    v.get(k)
        .and_then(|x| x.as_i64())
        .unwrap_or_else(|| tool_error(&format!("missing integer field {k} in {v}")))
}
pub fn get_str<'a>(v: &'a Value, k: &str) -> &'a str {
    v.get(k)
        .and_then(|x| x.as_str())
        .unwrap_or_else(|| tool_error(&format!("missing string field {k} in {v}")))
}
pub fn get_ints(v: &Value, k: &str) -> Vec<i64> {
    v.get(k)
        .and_then(|x| x.as_array())
        .unwrap_or_else(|| tool_error(&format!("missing array field {k} in {v}")))
        .iter()
        .map(|x| x.as_i64().unwrap_or_else(|| tool_error("non-integer in array")))
        .collect()
}
pub fn opt_i64(v: &Value, k: &str) -> Option<i64> {
    v.get(k).and_then(|x| x.as_i64())
}

/// Parse `--key value` style arguments.
pub struct Args(pub Vec<String>);
impl Args {
    pub fn from_env() -> Self {
        Args(std::env::args().skip(1).collect())
    }
    pub fn cmd(&self) -> &str {
        self.0.first().map(|s| s.as_str()).unwrap_or("")
    }
    pub fn get(&self, key: &str) -> Option<&str> {
        let k = format!("--{key}");
        self.0.iter().position(|a| *a == k).and_then(|i| self.0.get(i + 1)).map(|s| s.as_str())
    }
    pub fn req(&self, key: &str) -> &str {
        self.get(key).unwrap_or_else(|| tool_error(&format!("missing --{key}")))
    }
    pub fn num(&self, key: &str, default: u64) -> u64 {
        self.get(key).map(|s| s.parse().unwrap_or_else(|_| tool_error("bad number"))).unwrap_or(default)
    }
    pub fn flag(&self, key: &str) -> bool {
        let k = format!("--{key}");
        self.0.iter().any(|a| *a == k)
    }
}

/// `Iterator::any` / `Iterator::all` under names that do not collide with the aggregation
/// traits tevec's prelude puts on every iterator
pub fn any_of<I: IntoIterator>(it: I, f: impl FnMut(I::Item) -> bool) -> bool {
    let mut f = f;
    Iterator::any(&mut it.into_iter(), |x| f(x))
}
pub fn all_of<I: IntoIterator>(it: I, f: impl FnMut(I::Item) -> bool) -> bool {
    let mut f = f;
    Iterator::all(&mut it.into_iter(), |x| f(x))
}
