//! What a harness run tells the driver: mismatches (one JSON line each, with a stable key),
//! counters, the largest rounding deviation seen, and a few sample cases.
use std::collections::BTreeMap;

use serde_json::{Value, json};

use crate::util::NdWriter;

pub struct Report {
    out: NdWriter,
    pub prop: String,
    /// cases replayed (behaviours)
    pub cases: u64,
    /// (case, matrix cell) executions
    pub cells: u64,
    /// element comparisons made
    pub compared: u64,
    /// comparisons skipped because the property leaves the value open
    pub any_skipped: u64,
    pub max_dev: f64,
    pub mismatches: u64,
    max_mismatch_lines: u64,
    samples: Vec<Value>,
    per_op: BTreeMap<String, (u64, u64)>, // op -> (specified comparisons, mismatches)
    pub panics_as_data: u64,
}

impl Report {
    pub fn new(prop: &str, out_path: &str) -> Self {
        Report {
            out: NdWriter::create(out_path),
            prop: prop.to_string(),
            cases: 0,
            cells: 0,
            compared: 0,
            any_skipped: 0,
            max_dev: 0.0,
            mismatches: 0,
            max_mismatch_lines: 400,
            samples: Vec::new(),
            per_op: BTreeMap::new(),
            panics_as_data: 0,
        }
    }

    pub fn sample(&mut self, v: Value) {
        if self.samples.len() < 6 {
            self.samples.push(v);
        }
    }

    pub fn ok(&mut self, op: &str, dev: f64) {
        self.compared += 1;
        if dev > self.max_dev {
            self.max_dev = dev;
        }
        self.per_op.entry(op.to_string()).or_default().0 += 1;
    }

    pub fn skipped(&mut self) {
        self.any_skipped += 1;
    }

    /// `site`: coarse call-site class (function + parameter class); `key`: exact identity of the
    /// failing case (function | parameters | input); `cell`: matrix cell it failed in.
    pub fn mismatch(&mut self, op: &str, site: &str, key: &str, cell: &str, detail: &str, case: &Value) {
        self.mismatches += 1;
        let e = self.per_op.entry(op.to_string()).or_default();
        e.0 += 1;
        e.1 += 1;
        if self.mismatches <= self.max_mismatch_lines {
            self.out.line(&json!({
                "t": "mismatch", "prop": self.prop, "op": op, "site": site, "key": key,
                "cell": cell, "detail": detail, "case": case,
            }));
        }
    }

    pub fn finish(mut self) {
        let per_op: serde_json::Map<String, Value> = self
            .per_op
            .iter()
            .map(|(k, v)| (k.clone(), json!({"compared": v.0, "mismatches": v.1})))
            .collect();
        self.out.line(&json!({
            "t": "stats", "prop": self.prop, "cases": self.cases, "cells": self.cells,
            "compared": self.compared, "any_skipped": self.any_skipped,
            "max_dev": self.max_dev, "mismatches": self.mismatches,
            "panics_as_data": self.panics_as_data,
            "per_op": per_op, "samples": self.samples,
        }));
        self.out.finish();
    }
}

use crate::exp::{Exp, Obs, Unit, satisfies, satisfies_unit};

impl Report {
    /// compare one scalar observation with its expectation
    pub fn check(&mut self, fname: &str, key: &str, cell: &str, exp: &Exp, obs: Obs, case: &Value) -> bool {
        self.check_tol(fname, key, cell, exp, obs, 1e-9, false, case)
    }
    #[allow(clippy::too_many_arguments)]
    pub fn check_tol(&mut self, fname: &str, key: &str, cell: &str, exp: &Exp, obs: Obs, tol: f64, null_as_zero: bool, case: &Value) -> bool {
        self.cells += 1;
        if exp.is_any() {
            self.skipped();
            return true;
        }
        match satisfies(exp, obs, tol, null_as_zero) {
            Ok(d) => {
                self.ok(fname, d);
                true
            },
            Err(d) => {
                self.mismatch(fname, fname, key, cell, &d, case);
                false
            },
        }
    }
    /// compare one scalar observation, made on the series measured in another unit, with the
    /// expectation multiplied by unit^degree
    pub fn check_unit(&mut self, fname: &str, key: &str, cell: &str, exp: &Exp, obs: Obs, un: Unit, case: &Value) -> bool {
        self.cells += 1;
        if exp.is_any() {
            self.skipped();
            return true;
        }
        match satisfies_unit(exp, obs, un, false) {
            Ok(d) => {
                self.ok(fname, d);
                true
            },
            Err(d) => {
                self.mismatch(fname, fname, key, cell, &d, case);
                false
            },
        }
    }
    /// a panic (or an Err where a value is required) observed in place of a result
    pub fn fail(&mut self, fname: &str, key: &str, cell: &str, what: &str, case: &Value) {
        self.cells += 1;
        self.mismatch(fname, fname, key, cell, what, case);
    }
}
