//! Shared machinery of the conformance harnesses: expectation vocabulary, observation
//! projection, instrumented containers, panic capture, reporting.
pub mod exp;
pub mod outbuf;
pub mod report;
pub mod spy;
pub mod tok;
pub mod util;

pub use exp::*;
pub use outbuf::*;
pub use report::*;
pub use spy::*;
pub use tok::*;
pub use util::*;
