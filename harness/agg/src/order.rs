//! Spec -> impl replay of OrderStats.tla cases (`op = order`): quantiles, percentile-of-score,
//! ranks, partitions and arg-partitions.
use serde_json::Value;
use tevec::prelude::*;
use tvh_common::*;

fn o_f(x: f64) -> Obs {
    if x.is_nan() { Obs::Null } else { Obs::F(x) }
}

fn qmethod(m: &str) -> QuantileMethod {
    match m {
        "linear" => QuantileMethod::Linear,
        "lower" => QuantileMethod::Lower,
        "higher" => QuantileMethod::Higher,
        _ => QuantileMethod::MidPoint,
    }
}
fn pmethod(m: &str) -> PercentileOfMethod {
    match m {
        "rank" => PercentileOfMethod::Rank,
        "weak" => PercentileOfMethod::Weak,
        _ => PercentileOfMethod::Strict,
    }
}

fn spy_faults(rep: &mut Report, f: &str, key: &str, cell: &str, case: &Value) {
    let faults = safety_faults(&take_log());
    if !faults.is_empty() {
        rep.fail(f, key, cell, &format!("memory-safety envelope broken: {}", faults.join("; ")), case);
    }
}

pub fn replay(args: &Args) {
    let cases = read_ndjson(args.req("in"));
    let mut rep = Report::new(args.get("prop").unwrap_or("C12"), args.req("out"));
    let only: Vec<String> = args.get("only").map(|s| s.split(',').map(|x| x.to_string()).collect()).unwrap_or_default();
    let want = |k: &str| only.is_empty() || any_of(only.iter(), |x| x == k);
    for v in cases {
        let v = &v;
        if get_str(v, "op") != "order" {
            continue;
        }
        rep.cases += 1;
        if rep.cases % 700 == 1 {
            rep.sample(serde_json::json!({"op": "order", "s": v["s"], "quant_head": v["quant"][0], "part_head": v["part"][0]}));
        }
        let s = get_ints(v, "s");
        let skey = format!("s={s:?}");
        let nullfree = !has_null(&s);
        let vf: Vec<f64> = enc_vec(&s);
        let vo: Vec<Option<f64>> = enc_vec(&s);
        let voi: Vec<Option<i32>> = enc_vec(&s);
        let sp = Spy::new(1, vf.clone());
        // a String series: "None" is the null of String, and the valid names straddle it
        // lexicographically (a plain lexicographic comparator would sort the null into the middle)
        const NAMES: [&str; 12] = ["Ann", "Bob", "Cy", "Dee", "Pam", "Quinn", "Rex", "Sue", "Tom", "Una", "zed", "zoe"];
        let sname = |x: i64| -> String { if x == NULL { "None".to_string() } else { NAMES[(x + 4).clamp(0, 11) as usize].to_string() } };
        let names_ok = all_of(s.iter(), |x| *x == NULL || (-4..=7).contains(x));
        let vs: Vec<String> = s.iter().map(|x| sname(*x)).collect();
        // the same series with its nulls written as a NaN whose sign bit is set: the same null
        let vn: Vec<f64> = enc_vec_negnan(&s);
        // time-valued series: NaT is the null (the i64 minimum underneath - a comparator on the raw
        // representation would sort it FIRST), valid instants on both sides of the epoch
        let vdt: Vec<DateTime<unit::Nanosecond>> = s.iter().map(|x| if *x == NULL { DateTime::nat() } else { DateTime::new(*x) }).collect();
        let vdm: Vec<DateTime<unit::Millisecond>> = s.iter().map(|x| if *x == NULL { DateTime::nat() } else { DateTime::new(*x * 86_400_000) }).collect();
        let vtd: Vec<TimeDelta> = s.iter().map(|x| if *x == NULL { TimeDelta::nat() } else { TimeDelta::from(*x) }).collect();
        let vtm: Vec<Time> = s.iter().map(|x| if *x == NULL { Time::nat() } else { Time::from_i64(*x + 1000) }).collect();

        // ---- q just off a grid point (OrderStats.tla QuantileNear): beyond rounding, far below the grid spacing ----
        if want("quant") {
            if let Some(qs) = v.get("quant_near").and_then(|q| q.as_array()) {
                for q in qs {
                    let (qn, qd, sg) = (q["q"][0].as_i64().unwrap(), q["q"][1].as_i64().unwrap(), q["sg"].as_i64().unwrap());
                    let m = q["m"].as_str().unwrap();
                    let e = Exp::parse(&q["e"]);
                    let qf = qn as f64 / qd as f64 + sg as f64 * 2e-11;
                    let key = format!("vquantile|q={qn}/{qd}{}2e-11,{m}|{skey}", if sg > 0 { "+" } else { "-" });
                    macro_rules! run {
                        ($cell:expr, $x:expr) => {{
                            match catch(|| $x.vquantile(qf, qmethod(m))) {
                                Ok(Ok(r)) => { rep.check("vquantile", &key, $cell, &e, o_f(r), v); },
                                Ok(Err(err)) => rep.fail("vquantile", &key, $cell, &format!("error for q in [0,1]: {err}"), v),
                                Err(p) => rep.fail("vquantile", &key, $cell, &format!("panicked: {p}"), v),
                            }
                        }};
                    }
                    run!("Vec<f64>", vf);
                    run!("Vec<Option<i32>>", voi);
                }
            }
        }

        // ---- quantiles --------------------------------------------------------------
        if want("quant") {
            for q in v["quant"].as_array().unwrap() {
                let (qn, qd) = (q["q"][0].as_i64().unwrap(), q["q"][1].as_i64().unwrap());
                let m = q["m"].as_str().unwrap();
                let e = Exp::parse(&q["e"]);
                let qf = qn as f64 / qd as f64;
                let key = format!("vquantile|q={qn}/{qd},{m}|{skey}");
                macro_rules! run {
                    ($cell:expr, $x:expr) => {{
                        match catch(|| $x.vquantile(qf, qmethod(m))) {
                            Ok(Ok(r)) => { rep.check("vquantile", &key, $cell, &e, o_f(r), v); },
                            Ok(Err(err)) => rep.fail("vquantile", &key, $cell, &format!("error for q in [0,1]: {err}"), v),
                            Err(p) => rep.fail("vquantile", &key, $cell, &format!("panicked: {p}"), v),
                        }
                    }};
                }
                run!("Vec<f64>", vf);
                if !nullfree {
                    run!("Vec<f64> (nulls as -NaN)", vn);
                }
                run!("Vec<Option<f64>>", vo);
                run!("Vec<Option<i32>>", voi);
                clear_log();
                run!("Spy<f64>", sp);
                spy_faults(&mut rep, "vquantile", &key, "Spy<f64>", v);
                if nullfree {
                    let vi: Vec<i32> = enc_vec(&s);
                    run!("Vec<i32>", vi);
                    if all_of(s.iter(), |x| *x >= 0) {
                        let vu: Vec<u64> = s.iter().map(|x| *x as u64).collect();
                        run!("Vec<u64>", vu);
                        let vz: Vec<usize> = s.iter().map(|x| *x as usize).collect();
                        run!("Vec<usize>", vz);
                    }
                }
                // ---- the same series in other units of measurement (OrderStats.tla QuantileHomogeneous) ----
                if let Some(d) = v.get("deg").and_then(|d| d["quantile"].as_i64()) {
                    let ma = max_abs(&s);
                    macro_rules! urun {
                        ($T:ty, $u:expr) => {{
                            if <$T as InElem>::fits(ma, $u) {
                                let f = ($u as f64).powi(d as i32);
                                let un = Unit { factor: f, floor: f * (ma.max(1) as f64).powi(d as i32) };
                                let x: Vec<$T> = enc_vec_unit(&s, $u);
                                let cell = format!("Vec<{}>@unit={:e}", <$T as InElem>::NAME, $u);
                                match catch(|| x.vquantile(qf, qmethod(m))) {
                                    Ok(Ok(r)) => { rep.check_unit("vquantile", &key, &cell, &e, o_f(r), un, v); },
                                    Ok(Err(err)) => rep.fail("vquantile", &key, &cell, &format!("error for q in [0,1]: {err}"), v),
                                    Err(p) => rep.fail("vquantile", &key, &cell, &format!("panicked: {p}"), v),
                                }
                            }
                        }};
                    }
                    urun!(f64, 123467.8_f64);
                    urun!(f64, 1.3e-4_f64);
                    urun!(Option<f64>, 1e300_f64);
                    urun!(Option<i32>, 400_000_000.0_f64);
                    if nullfree {
                        urun!(i32, 400_000_000.0_f64);
                        urun!(i64, 1_500_000_000_000_000_000.0_f64);
                    }
                }
                if qn * 2 == qd && m == "linear" {
                    let key = format!("vmedian|{skey}");
                    match catch(|| vf.vmedian()) {
                        Ok(r) => { rep.check("vmedian", &key, "Vec<f64>", &e, o_f(r), v); },
                        Err(p) => rep.fail("vmedian", &key, "Vec<f64>", &format!("panicked: {p}"), v),
                    }
                }
            }
        }

        // ---- percentile of score ------------------------------------------------------
        if want("pct_of") {
            for p in v["pct_of"].as_array().unwrap() {
                let x = p["x"].as_i64().unwrap();
                let m = p["m"].as_str().unwrap();
                let e = Exp::parse(&p["e"]);
                let key = format!("vpercentile_of|x={x},{m}|{skey}");
                match catch(|| vf.titer().vpercentile_of(f64::enc(x), pmethod(m))) {
                    Ok(r) => { rep.check("vpercentile_of", &key, "Vec<f64>.titer()", &e, o_f(r), v); },
                    Err(pn) => rep.fail("vpercentile_of", &key, "Vec<f64>.titer()", &format!("panicked: {pn}"), v),
                }
                match catch(|| vo.clone().vpercentile_of(<Option<f64>>::enc(x), pmethod(m))) {
                    Ok(r) => { rep.check("vpercentile_of", &key, "Vec<Option<f64>> (owned)", &e, o_f(r), v); },
                    Err(pn) => rep.fail("vpercentile_of", &key, "Vec<Option<f64>> (owned)", &format!("panicked: {pn}"), v),
                }
                if nullfree && x != NULL {
                    let vi: Vec<i32> = enc_vec(&s);
                    match catch(|| vi.titer().vpercentile_of(x as i32, pmethod(m))) {
                        Ok(r) => { rep.check("vpercentile_of", &key, "Vec<i32>.titer()", &e, o_f(r), v); },
                        Err(pn) => rep.fail("vpercentile_of", &key, "Vec<i32>.titer()", &format!("panicked: {pn}"), v),
                    }
                }
            }
        }

        // ---- ranks ----------------------------------------------------------------------
        if want("ranks") {
            for r in v["ranks"].as_array().unwrap() {
                let (rev, pct) = (r["rev"].as_bool().unwrap(), r["pct"].as_bool().unwrap());
                let es = Exp::parse_seq(&r["e"]);
                let key = format!("vrank|pct={pct},rev={rev}|{skey}");
                macro_rules! run {
                    ($cell:expr, $O:ty, $OT:ty, $x:expr) => {{
                        rep.cells += 1;
                        match catch(|| $x.vrank::<$O, $OT>(pct, rev)) {
                            Err(p) => rep.fail("vrank", &key, $cell, &format!("panicked: {p}"), v),
                            Ok(out) => {
                                let out: Vec<$OT> = out.titer().collect();
                                if out.len() != es.len() {
                                    rep.fail("vrank", &key, $cell, &format!("{} ranks for {} elements", out.len(), es.len()), v);
                                } else {
                                    let mut bad = None;
                                    for (i, (g, e)) in out.iter().zip(&es).enumerate() {
                                        if let Err(d) = check_elem(e, g) {
                                            bad = Some(format!("position {i}: {d}"));
                                            break;
                                        }
                                    }
                                    match bad {
                                        None => rep.ok("vrank", 0.0),
                                        Some(d) => rep.mismatch("vrank", "vrank", &key, $cell, &d, v),
                                    }
                                }
                            },
                        }
                    }};
                }
                run!("Vec<f64>->Vec<f64>", Vec<f64>, f64, vf);
                if !nullfree {
                    run!("Vec<f64> (nulls as -NaN)->Vec<f64>", Vec<f64>, f64, vn);
                }
                if names_ok {
                    run!("Vec<String>->Vec<f64>", Vec<f64>, f64, vs);
                }
                run!("Vec<DateTime<ns>>->Vec<f64>", Vec<f64>, f64, vdt);
                run!("Vec<DateTime<ms>>->Vec<f64>", Vec<f64>, f64, vdm);
                run!("Vec<TimeDelta>->Vec<f64>", Vec<f64>, f64, vtd);
                run!("Vec<Time>->Vec<f64>", Vec<f64>, f64, vtm);
                run!("Vec<Option<f64>>->Vec<Option<f64>>", Vec<Option<f64>>, Option<f64>, vo);
                run!("Vec<Option<i32>>->Vec<f64>", Vec<f64>, f64, voi);
                clear_log();
                run!("Spy<f64>->SpyOut<f64>", SpyOut<f64>, f64, sp);
                spy_faults(&mut rep, "vrank", &key, "Spy<f64>->SpyOut<f64>", v);
                if nullfree {
                    let vi: Vec<i32> = enc_vec(&s);
                    run!("Vec<i32>->Vec<f64>", Vec<f64>, f64, vi);
                }
            }
        }

        // ---- partitions -----------------------------------------------------------------
        if want("part") {
            for p in v["part"].as_array().unwrap() {
                let k = p["k"].as_i64().unwrap() as usize;
                let rev = p["rev"].as_bool().unwrap();
                let want_vals = get_ints(p, "want");
                for sort in [false, true] {
                    let key = format!("vpartition|k={k},sort={sort},rev={rev}|{skey}");
                    let judge_vals = |got: Vec<i64>| -> Result<(), String> {
                        if got.len() != k + 1 {
                            return Err(format!("{} entries for k = {k} (want k+1 = {})", got.len(), k + 1));
                        }
                        if sort {
                            if got != want_vals {
                                return Err(format!("got {got:?}, want {want_vals:?}"));
                            }
                        } else {
                            let (mut a, mut b) = (got.clone(), want_vals.clone());
                            a.sort();
                            b.sort();
                            if a != b {
                                return Err(format!("got the multiset {got:?}, want {want_vals:?}"));
                            }
                        }
                        Ok(())
                    };
                    macro_rules! runp {
                        ($cell:expr, $x:expr, $dec:expr) => {{
                            rep.cells += 1;
                            match catch(|| {
                                // plain safe iteration; the announced length is checked separately
                                let it = $x.vpartition(k, sort, rev);
                                let hint = it.size_hint();
                                let items: Vec<i64> = it.map($dec).collect();
                                (hint, items)
                            }) {
                                Err(pn) => rep.fail("vpartition", &key, $cell, &format!("panicked: {pn}"), v),
                                Ok((hint, items)) => {
                                    if hint.1 != Some(items.len()) {
                                        rep.mismatch("vpartition", "vpartition", &key, $cell,
                                            &format!("announced {:?} items, yielded {}", hint, items.len()), v);
                                    } else {
                                        match judge_vals(items) {
                                            Ok(()) => rep.ok("vpartition", 0.0),
                                            Err(d) => rep.mismatch("vpartition", "vpartition", &key, $cell, &d, v),
                                        }
                                    }
                                },
                            }
                        }};
                    }
                    runp!("Vec<f64>", vf, |x: f64| if x.is_nan() { NULL } else { x as i64 });
                    if !nullfree {
                        runp!("Vec<f64> (nulls as -NaN)", vn, |x: f64| if x.is_nan() { NULL } else { x as i64 });
                    }
                    if names_ok {
                        runp!("Vec<String>", vs, |x: String| if x == "None" { NULL } else { NAMES.iter().position(|n| *n == x).map(|p| p as i64 - 4).unwrap_or(-777) });
                    }
                    runp!("Vec<DateTime<ns>>", vdt, |x: DateTime<unit::Nanosecond>| if x.is_nat() { NULL } else { x.into_i64() });
                    runp!("Vec<DateTime<ms>>", vdm, |x: DateTime<unit::Millisecond>| if x.is_nat() { NULL } else { x.into_i64() / 86_400_000 });
                    runp!("Vec<TimeDelta>", vtd, |x: TimeDelta| if x.is_nat() { NULL } else { x.inner.num_nanoseconds().unwrap() });
                    runp!("Vec<Time>", vtm, |x: Time| if x.is_nat() { NULL } else { x.into_i64() - 1000 });
                    runp!("Vec<Option<f64>>", vo, |x: Option<f64>| x.map(|y| y as i64).unwrap_or(NULL));
                    runp!("Vec<Option<i32>>", voi, |x: Option<i32>| x.map(|y| y as i64).unwrap_or(NULL));
                    // element types without a null: every request that needs no padding (k + 1 <= len) must
                    // work; padding with a null is impossible there (DESIGN 5.8)
                    if nullfree && k + 1 <= s.len() {
                        let vi: Vec<i32> = enc_vec(&s);
                        runp!("Vec<i32>", vi, |x: i32| x as i64);
                        let vl: Vec<i64> = enc_vec(&s);
                        runp!("Vec<i64>", vl, |x: i64| x);
                        if all_of(s.iter(), |x| *x >= 0) {
                            let vu: Vec<usize> = s.iter().map(|x| *x as usize).collect();
                            runp!("Vec<usize>", vu, |x: usize| x as i64);
                            let v8: Vec<u8> = s.iter().map(|x| *x as u8).collect();
                            runp!("Vec<u8>", v8, |x: u8| x as i64);
                        }
                    }
                    clear_log();
                    runp!("Spy<f64>", sp, |x: f64| if x.is_nan() { NULL } else { x as i64 });
                    spy_faults(&mut rep, "vpartition", &key, "Spy<f64>", v);

                    // arg-partition: indices of such elements
                    let akey = format!("varg_partition|k={k},sort={sort},rev={rev}|{skey}");
                    let n_valid = want_vals.iter().filter(|x| **x != NULL).count();
                    let judge_idx = |idx: Vec<i32>| -> Result<(), String> {
                        if idx.len() != k + 1 {
                            return Err(format!("{} entries for k = {k} (want k+1 = {})", idx.len(), k + 1));
                        }
                        let real: Vec<i32> = idx.iter().cloned().filter(|i| *i != -1).collect();
                        if real.len() != n_valid {
                            return Err(format!("{} indices and {} paddings, want {} indices: {idx:?}", real.len(), idx.len() - real.len(), n_valid));
                        }
                        let mut seen = std::collections::BTreeSet::new();
                        let mut vals = Vec::new();
                        for i in &real {
                            if *i < 0 || *i as usize >= s.len() {
                                return Err(format!("index {i} out of range: {idx:?}"));
                            }
                            if s[*i as usize] == NULL {
                                return Err(format!("index {i} refers to a null element: {idx:?}"));
                            }
                            if !seen.insert(*i) {
                                return Err(format!("index {i} returned twice: {idx:?}"));
                            }
                            vals.push(s[*i as usize]);
                        }
                        let mut wv: Vec<i64> = want_vals.iter().cloned().filter(|x| *x != NULL).collect();
                        if sort {
                            if vals != wv {
                                return Err(format!("indices {idx:?} select {vals:?}, want {wv:?} in this order"));
                            }
                            // padding only after the real indices
                            if any_of(idx.iter().skip(real.len()), |i| *i != -1) {
                                return Err(format!("padding not at the end: {idx:?}"));
                            }
                        } else {
                            vals.sort();
                            wv.sort();
                            if vals != wv {
                                return Err(format!("indices {idx:?} select the multiset {vals:?}, want {wv:?}"));
                            }
                        }
                        Ok(())
                    };
                    macro_rules! runa {
                        ($cell:expr, $x:expr) => {{
                            rep.cells += 1;
                            match catch(|| {
                                let it = $x.varg_partition(k, sort, rev);
                                let hint = it.size_hint();
                                let items: Vec<i32> = it.collect();
                                (hint, items)
                            }) {
                                Err(pn) => rep.fail("varg_partition", &akey, $cell, &format!("panicked: {pn}"), v),
                                Ok((hint, items)) => {
                                    if hint.1 != Some(items.len()) {
                                        rep.mismatch("varg_partition", "varg_partition", &akey, $cell,
                                            &format!("announced {:?} items, yielded {}", hint, items.len()), v);
                                    } else {
                                        match judge_idx(items) {
                                            Ok(()) => rep.ok("varg_partition", 0.0),
                                            Err(d) => rep.mismatch("varg_partition", "varg_partition", &akey, $cell, &d, v),
                                        }
                                    }
                                },
                            }
                        }};
                    }
                    runa!("Vec<f64>", vf);
                    runa!("Vec<Option<f64>>", vo);
                    clear_log();
                    runa!("Spy<f64>", sp);
                    spy_faults(&mut rep, "varg_partition", &akey, "Spy<f64>", v);
                    if nullfree {
                        let vi: Vec<i32> = enc_vec(&s);
                        runa!("Vec<i32>", vi);
                    }
                }
            }
        }
    }
    rep.finish();
}
