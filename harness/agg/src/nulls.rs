//! C08 on the real code, as relations between runs:
//!  (i)  encoding independence: the NaN-coded and the None-coded series give bit-identical results;
//!  (ii) null transparency: deleting the null elements (pairwise for two series) changes nothing.
use serde_json::{Value, json};
use tevec::prelude::*;
use tvh_common::*;

fn b(x: f64) -> u64 {
    if x.is_nan() { u64::MAX } else { x.to_bits() }
}
fn bo(x: Option<f64>) -> u64 {
    x.map(b).unwrap_or(u64::MAX)
}

/// every null-aware aggregation / order statistic of a one-series case, as bit patterns
fn battery_f64(v: &[f64], mp: usize) -> Result<Vec<(&'static str, u64)>, String> {
    catch(|| {
        let mut o: Vec<(&'static str, u64)> = vec![
            ("count_valid", v.titer().count_valid() as u64),
            ("vsum", bo(v.titer().vsum())),
            ("vmean", b(v.titer().vmean())),
            ("vvar", b(v.titer().vvar(mp))),
            ("vstd", b(v.titer().vstd(mp))),
            ("vskew", b(v.titer().vskew(mp))),
            ("vkurt", b(v.titer().vkurt(mp))),
            ("vmin", bo(v.titer().vmin())),
            ("vmax", bo(v.titer().vmax())),
            ("vfirst", bo(v.titer().vfirst())),
            ("vlast", bo(v.titer().vlast())),
        ];
        let vv = v.to_vec();
        for (name, q) in [("q0", 0.0), ("q25", 0.25), ("q50", 0.5), ("q2/3", 2.0 / 3.0), ("q90", 0.9), ("q100", 1.0)] {
            o.push((name, b(vv.vquantile(q, QuantileMethod::Linear).unwrap())));
        }
        o.push(("q1/3,lower", b(vv.vquantile(1.0 / 3.0, QuantileMethod::Lower).unwrap())));
        o.push(("q75,midpoint", b(vv.vquantile(0.75, QuantileMethod::MidPoint).unwrap())));
        for x in [0.0, 1.0, 2.0] {
            o.push(("pct_of(rank)", b(v.titer().vpercentile_of(x, PercentileOfMethod::Rank))));
            o.push(("pct_of(weak)", b(v.titer().vpercentile_of(x, PercentileOfMethod::Weak))));
        }
        o
    })
}

fn battery_opt(v: &[Option<f64>], mp: usize) -> Result<Vec<(&'static str, u64)>, String> {
    catch(|| {
        let mut o: Vec<(&'static str, u64)> = vec![
            ("count_valid", v.titer().count_valid() as u64),
            ("vsum", bo(v.titer().vsum())),
            ("vmean", b(v.titer().vmean())),
            ("vvar", b(v.titer().vvar(mp))),
            ("vstd", b(v.titer().vstd(mp))),
            ("vskew", b(v.titer().vskew(mp))),
            ("vkurt", b(v.titer().vkurt(mp))),
            ("vmin", bo(v.titer().vmin())),
            ("vmax", bo(v.titer().vmax())),
            ("vfirst", bo(v.titer().vfirst().flatten())),
            ("vlast", bo(v.titer().vlast().flatten())),
        ];
        let vv = v.to_vec();
        for (name, q) in [("q0", 0.0), ("q25", 0.25), ("q50", 0.5), ("q2/3", 2.0 / 3.0), ("q90", 0.9), ("q100", 1.0)] {
            o.push((name, b(vv.vquantile(q, QuantileMethod::Linear).unwrap())));
        }
        o.push(("q1/3,lower", b(vv.vquantile(1.0 / 3.0, QuantileMethod::Lower).unwrap())));
        o.push(("q75,midpoint", b(vv.vquantile(0.75, QuantileMethod::MidPoint).unwrap())));
        for x in [0.0, 1.0, 2.0] {
            o.push(("pct_of(rank)", b(v.titer().vpercentile_of(Some(x), PercentileOfMethod::Rank))));
            o.push(("pct_of(weak)", b(v.titer().vpercentile_of(Some(x), PercentileOfMethod::Weak))));
        }
        o
    })
}

fn battery_pair(a: &[f64], c: &[f64], mp: usize) -> Result<Vec<(&'static str, u64)>, String> {
    catch(|| {
        vec![
            ("vcov", b(a.titer().vcov(c.titer(), mp))),
            ("vcorr_pearson", b(a.titer().vcorr_pearson::<f64, _, _>(c.titer(), mp))),
        ]
    })
}
fn battery_pair_opt(a: &[Option<f64>], c: &[Option<f64>], mp: usize) -> Result<Vec<(&'static str, u64)>, String> {
    catch(|| {
        vec![
            ("vcov", bo(a.titer().vcov(c.titer(), mp))),
            ("vcorr_pearson", bo(a.titer().vcorr_pearson::<Option<f64>, _, _>(c.titer(), mp))),
        ]
    })
}

fn relate(rep: &mut Report, what: &str, key: &str, x: Result<Vec<(&'static str, u64)>, String>, y: Result<Vec<(&'static str, u64)>, String>, case: &Value) {
    match (x, y) {
        (Ok(x), Ok(y)) => {
            for ((n1, a), (_, c)) in x.iter().zip(&y) {
                rep.cells += 1;
                if a == c {
                    rep.ok(n1, 0.0);
                } else {
                    rep.mismatch(n1, n1, &format!("{n1}|{key}"), what,
                        &format!("{n1}: {:?} vs {:?}", f64::from_bits(*a), f64::from_bits(*c)), case);
                }
            }
        },
        (Err(e), _) | (_, Err(e)) => rep.fail("battery", key, what, &format!("panicked: {e}"), case),
    }
}

pub fn replay(args: &Args) {
    let cases = read_ndjson(args.req("in"));
    let mut rep = Report::new(args.get("prop").unwrap_or("C08"), args.req("out"));
    for v in cases {
        let v = &v;
        match get_str(v, "op") {
            "agg" => {
                let s = get_ints(v, "s");
                let mp = get_i64(v, "mp") as usize;
                rep.cases += 1;
                if rep.cases % 2000 == 1 {
                    rep.sample(json!({"op": "null-relations", "s": s, "mp": mp}));
                }
                let key = format!("mp={mp}|s={s:?}");
                let vf: Vec<f64> = enc_vec(&s);
                let vo: Vec<Option<f64>> = enc_vec(&s);
                relate(&mut rep, "NaN-coded vs None-coded", &key, battery_f64(&vf, mp), battery_opt(&vo, mp), v);
                if has_null(&s) {
                    let kept: Vec<i64> = s.iter().cloned().filter(|x| *x != NULL).collect();
                    let kf: Vec<f64> = enc_vec(&kept);
                    relate(&mut rep, "with nulls vs nulls deleted", &key, battery_f64(&vf, mp), battery_f64(&kf, mp), v);
                    let ko: Vec<Option<f64>> = enc_vec(&kept);
                    relate(&mut rep, "with Nones vs Nones deleted", &key, battery_opt(&vo, mp), battery_opt(&ko, mp), v);
                }
            },
            "agg2" => {
                let s = get_ints(v, "s");
                let t = get_ints(v, "t");
                let mp = get_i64(v, "mp") as usize;
                rep.cases += 1;
                let key = format!("mp={mp}|s={s:?},t={t:?}");
                let (a, c): (Vec<f64>, Vec<f64>) = (enc_vec(&s), enc_vec(&t));
                let (ao, co): (Vec<Option<f64>>, Vec<Option<f64>>) = (enc_vec(&s), enc_vec(&t));
                relate(&mut rep, "NaN-coded vs None-coded", &key, battery_pair(&a, &c, mp), battery_pair_opt(&ao, &co, mp), v);
                if has_null(&s) || has_null(&t) {
                    let pairs: Vec<(i64, i64)> = s.iter().cloned().zip(t.iter().cloned()).filter(|(x, y)| *x != NULL && *y != NULL).collect();
                    let ka: Vec<f64> = pairs.iter().map(|p| p.0 as f64).collect();
                    let kc: Vec<f64> = pairs.iter().map(|p| p.1 as f64).collect();
                    relate(&mut rep, "pairwise deletion", &key, battery_pair(&a, &c, mp), battery_pair(&ka, &kc, mp), v);
                }
            },
            _ => {},
        }
    }
    rep.finish();
}
