//! Spec -> impl replay of Agg.tla cases (`op = agg`, `op = agg2`).
use std::collections::BTreeMap;

use serde_json::Value;
use tevec::prelude::*;
use tvh_common::*;

fn exps(v: &Value) -> BTreeMap<String, Exp> {
    v["exp"].as_object().unwrap().iter().map(|(k, e)| (k.clone(), Exp::parse(e))).collect()
}

fn o_f(x: f64) -> Obs {
    if x.is_nan() { Obs::Null } else { Obs::F(x) }
}
fn o_of<T: Into<f64>>(x: Option<T>) -> Obs {
    match x {
        None => Obs::Null,
        Some(v) => o_f(v.into()),
    }
}
fn o_oi(x: Option<i32>) -> Obs {
    x.map(|v| Obs::I(v as i64)).unwrap_or(Obs::Null)
}
fn o_ou(x: Option<usize>) -> Obs {
    x.map(|v| Obs::I(v as i64)).unwrap_or(Obs::Null)
}

/// one encoding of the series, one iterator source
macro_rules! agg_cell {
    ($rep:expr, $case:expr, $key:expr, $e:expr, $mp:expr, $cell:expr, $mk:expr, $sum_obs:expr, $first_obs:expr) => {{
        let (rep, case, e, mp, cell): (&mut Report, &Value, &BTreeMap<String, Exp>, usize, &str) = ($rep, $case, $e, $mp, $cell);
        let key = |f: &str| format!("{f}|mp={mp}|{}", $key);
        macro_rules! run {
            ($f:expr, $name:expr, $body:expr, $obs:expr) => {{
                match catch(|| $body) {
                    Ok(v) => {
                        rep.check($f, &key($f), cell, &e[$name], $obs(v), case);
                    },
                    Err(m) => rep.fail($f, &key($f), cell, &format!("panicked: {m}"), case),
                }
            }};
        }
        run!("count_valid", "count_valid", $mk.count_valid(), |v: usize| Obs::I(v as i64));
        run!("count_none", "count_none", $mk.count_none(), |v: usize| Obs::I(v as i64));
        run!("vfirst", "vfirst", $mk.vfirst(), $first_obs);
        run!("vlast", "vlast", $mk.vlast(), $first_obs);
        run!("vsum", "vsum", $mk.vsum(), $sum_obs);
        run!("vmean", "vmean", $mk.vmean(), o_f);
        run!("vmean_var", "vmean_var_mean", $mk.vmean_var(mp).0, |m: f64| o_f(m));
        run!("vmean_var", "vvar", $mk.vmean_var(mp).1, o_f);
        run!("vvar", "vvar", $mk.vvar(mp), o_f);
        run!("vstd", "vstd", $mk.vstd(mp), o_f);
        run!("vskew", "vskew", $mk.vskew(mp), o_f);
        run!("vkurt", "vkurt", $mk.vkurt(mp), o_f);
        run!("vmin", "vmin", $mk.vmin(), $sum_obs);
        run!("vmax", "vmax", $mk.vmax(), $sum_obs);
        run!("vargmin", "vargmin", $mk.vargmin(), o_ou);
        run!("vargmax", "vargmax", $mk.vargmax(), o_ou);
    }};
}

/// The degree tables TLC emits from Laws3.tla (`op = laws3`).
pub struct Laws3 {
    pub deg: BTreeMap<String, i32>,
    pub dega: BTreeMap<String, i32>,
    pub degb: BTreeMap<String, i32>,
}
impl Laws3 {
    pub fn load(path: &str) -> Laws3 {
        for v in read_ndjson(path) {
            if get_str(&v, "op") == "laws3" {
                let tab = |f: &str| -> BTreeMap<String, i32> {
                    v[f].as_object()
                        .unwrap_or_else(|| tool_error("laws3 table missing"))
                        .iter()
                        .map(|(k, d)| (k.clone(), d.as_i64().unwrap() as i32))
                        .collect()
                };
                return Laws3 { deg: tab("deg"), dega: tab("dega"), degb: tab("degb") };
            }
        }
        tool_error(&format!("no laws3 record in {path}"))
    }
    pub fn unit(&self, k: &str, u: f64, maxabs: i64) -> Unit {
        let d = *self.deg.get(k).unwrap_or_else(|| tool_error(&format!("laws3 has no degree for {k}")));
        let factor = u.powi(d);
        Unit { factor, floor: factor * (maxabs.max(1) as f64).powi(d) }
    }
    pub fn unit2(&self, k: &str, ua: f64, ub: f64, ma: i64, mb: i64) -> Unit {
        let (da, db) = (self.dega[k], self.degb[k]);
        let factor = ua.powi(da) * ub.powi(db);
        Unit { factor, floor: factor * (ma.max(1) as f64).powi(da) * (mb.max(1) as f64).powi(db.abs()) * 10.0 }
    }
}

const U_F64_BIG: f64 = 123467.8;
const U_F64_SMALL: f64 = 1.3e-4;
const U_F32_BIG: f64 = 1234.5;
const U_I32_BIG: f64 = 400_000_000.0;
const U_I64_BIG: f64 = 1_500_000_000_000_000_000.0;

/// the scale-bearing aggregations of one series measured in the unit `u`
macro_rules! agg_unit_cell {
    ($rep:expr, $case:expr, $key:expr, $e:expr, $mp:expr, $cell:expr, $mk:expr, $sum_obs:expr, $first_obs:expr, $laws:expr, $u:expr, $maxabs:expr, $with_sum:expr) => {{
        let (rep, case, e, mp, laws): (&mut Report, &Value, &BTreeMap<String, Exp>, usize, &Laws3) = ($rep, $case, $e, $mp, $laws);
        let cell = format!("{}@unit={:e}", $cell, $u);
        let key = |f: &str| format!("{f}|mp={mp}|{}", $key);
        macro_rules! run {
            ($f:expr, $name:expr, $body:expr, $obs:expr) => {{
                match catch(|| $body) {
                    Ok(v) => {
                        rep.check_unit($f, &key($f), &cell, &e[$name], $obs(v), laws.unit($name, $u, $maxabs), case);
                    },
                    Err(m) => rep.fail($f, &key($f), &cell, &format!("panicked: {m}"), case),
                }
            }};
        }
        // a sum is accumulated in the element type by design: not replayed in a unit that makes
        // it leave an integer type
        if $with_sum {
            run!("vsum", "vsum", $mk.vsum(), $sum_obs);
        }
        run!("vfirst", "vfirst", $mk.vfirst(), $first_obs);
        run!("vlast", "vlast", $mk.vlast(), $first_obs);
        run!("vmean", "vmean", $mk.vmean(), o_f);
        run!("vmean_var", "vmean_var_mean", $mk.vmean_var(mp).0, |m: f64| o_f(m));
        run!("vmean_var", "vvar", $mk.vmean_var(mp).1, o_f);
        run!("vvar", "vvar", $mk.vvar(mp), o_f);
        run!("vstd", "vstd", $mk.vstd(mp), o_f);
        run!("vskew", "vskew", $mk.vskew(mp), o_f);
        run!("vkurt", "vkurt", $mk.vkurt(mp), o_f);
        run!("vmin", "vmin", $mk.vmin(), $sum_obs);
        run!("vmax", "vmax", $mk.vmax(), $sum_obs);
    }};
}

pub fn replay(args: &Args) {
    let cases = read_ndjson(args.req("in"));
    let laws = args.get("laws").map(Laws3::load);
    let mut rep = Report::new(args.get("prop").unwrap_or("C11"), args.req("out"));
    for v in cases {
        let v = &v;
        match get_str(v, "op") {
            "agg" => {
                rep.cases += 1;
                if rep.cases % 1500 == 1 {
                    rep.sample(v.clone());
                }
                replay_agg(&mut rep, v, laws.as_ref())
            },
            "agg_inf" => {
                rep.cases += 1;
                if rep.cases % 500 == 1 {
                    rep.sample(v.clone());
                }
                replay_agg_inf(&mut rep, v)
            },
            "agg2" => {
                rep.cases += 1;
                if rep.cases % 1500 == 1 {
                    rep.sample(v.clone());
                }
                replay_agg2(&mut rep, v, laws.as_ref())
            },
            _ => {},
        }
    }
    rep.finish();
}

fn replay_agg(rep: &mut Report, v: &Value, laws: Option<&Laws3>) {
    let s = get_ints(v, "s");
    let mp = get_i64(v, "mp") as usize;
    let e = exps(v);
    let skey = format!("s={s:?}");
    let nullfree = !has_null(&s);

    let vf: Vec<f64> = enc_vec(&s);
    let vo: Vec<Option<f64>> = enc_vec(&s);
    let voi: Vec<Option<i32>> = enc_vec(&s);
    let of64 = |x: Option<f64>| o_of(x);
    let ooptf = |x: Option<Option<f64>>| o_of(x.flatten());
    // sources: borrowed iterator, owned (consumed), option view
    agg_cell!(rep, v, skey, &e, mp, "Vec<f64>.titer()", vf.titer(), of64, of64);
    agg_cell!(rep, v, skey, &e, mp, "Vec<f64> (owned)", vf.clone(), of64, of64);
    if !nullfree {
        // the nulls written as a NaN whose sign bit is set: the same null (Casts.tla NEGNAN)
        let vn = enc_vec_negnan(&s);
        agg_cell!(rep, v, skey, &e, mp, "Vec<f64>(nulls as -NaN).titer()", vn.titer(), of64, of64);
    }
    agg_cell!(rep, v, skey, &e, mp, "Vec<f64>.opt()", vf.opt().titer(), of64, ooptf);
    // sources whose size hint has a lower bound below the number of items (any iterator is a legal
    // source; the thresholds are about VALID OBSERVATIONS, not about what the source announces)
    agg_cell!(rep, v, skey, &e, mp, "Vec<f64>.titer().filter(all)", vf.titer().filter(|_| true), of64, of64);
    agg_cell!(rep, v, skey, &e, mp, "Vec<Option<f64>>.into_iter().filter_map(Some)", vo.clone().into_iter().filter_map(Some), of64, ooptf);
    agg_cell!(rep, v, skey, &e, mp, "Vec<f64>.titer().flat_map(once)", vf.titer().flat_map(Some), of64, of64);
    agg_cell!(rep, v, skey, &e, mp, "Vec<Option<f64>>.titer()", vo.titer(), of64, ooptf);
    agg_cell!(rep, v, skey, &e, mp, "Vec<Option<f64>> (owned)", vo.clone(), of64, ooptf);
    agg_cell!(rep, v, skey, &e, mp, "Vec<Option<i32>>.titer()", voi.titer(), o_oi, |x: Option<Option<i32>>| o_oi(x.flatten()));
    if nullfree {
        let vi: Vec<i32> = enc_vec(&s);
        agg_cell!(rep, v, skey, &e, mp, "Vec<i32>.titer()", vi.titer(), o_oi, o_oi);
        agg_cell!(rep, v, skey, &e, mp, "Vec<i32>.opt()", vi.opt().titer(), o_oi, |x: Option<Option<i32>>| o_oi(x.flatten()));
        let vl: Vec<i64> = enc_vec(&s);
        agg_cell!(rep, v, skey, &e, mp, "Vec<i64> (owned)", vl.clone(), |x: Option<i64>| x.map(Obs::I).unwrap_or(Obs::Null),
            |x: Option<i64>| x.map(Obs::I).unwrap_or(Obs::Null));
    }

    // ---- the same series in other units of measurement (Laws3.tla) ----
    if let Some(l) = laws {
        let ma = max_abs(&s);
        let oi64 = |x: Option<i64>| x.map(|v| Obs::F(v as f64)).unwrap_or(Obs::Null);
        let oi32 = |x: Option<i32>| x.map(|v| Obs::F(v as f64)).unwrap_or(Obs::Null);
        let ooi32 = |x: Option<Option<i32>>| oi32(x.flatten());
        let of32 = |x: Option<f32>| o_of(x);
        let vb: Vec<f64> = enc_vec_unit(&s, U_F64_BIG);
        agg_unit_cell!(rep, v, skey, &e, mp, "Vec<f64>.titer()", vb.titer(), of64, of64, l, U_F64_BIG, ma, true);
        let vs: Vec<f64> = enc_vec_unit(&s, U_F64_SMALL);
        agg_unit_cell!(rep, v, skey, &e, mp, "Vec<f64> (owned)", vs.clone(), of64, of64, l, U_F64_SMALL, ma, true);
        let vob: Vec<Option<f64>> = enc_vec_unit(&s, U_F64_BIG);
        agg_unit_cell!(rep, v, skey, &e, mp, "Vec<Option<f64>>.titer()", vob.titer(), of64, ooptf, l, U_F64_BIG, ma, false);
        if <f32 as InElem>::fits(ma, U_F32_BIG) {
            let v32: Vec<f32> = enc_vec_unit(&s, U_F32_BIG);
            agg_unit_cell!(rep, v, skey, &e, mp, "Vec<f32>.titer()", v32.titer(), of32, of32, l, U_F32_BIG, ma, true);
        }
        if <i32 as InElem>::fits(ma, U_I32_BIG) {
            let voi: Vec<Option<i32>> = enc_vec_unit(&s, U_I32_BIG);
            agg_unit_cell!(rep, v, skey, &e, mp, "Vec<Option<i32>>.titer()", voi.titer(), oi32, ooi32, l, U_I32_BIG, ma, false);
            if nullfree {
                let vi: Vec<i32> = enc_vec_unit(&s, U_I32_BIG);
                agg_unit_cell!(rep, v, skey, &e, mp, "Vec<i32>.titer()", vi.titer(), oi32, oi32, l, U_I32_BIG, ma, false);
            }
        }
        if nullfree && <i64 as InElem>::fits(ma, U_I64_BIG) {
            let vl: Vec<i64> = enc_vec_unit(&s, U_I64_BIG);
            agg_unit_cell!(rep, v, skey, &e, mp, "Vec<i64> (owned)", vl.clone(), oi64, oi64, l, U_I64_BIG, ma, false);
        }
    }

    // unsigned element types (all values >= 0): a subtraction taken in the element type underflows
    // as soon as a smaller element follows a larger one
    if nullfree && all_of(s.iter(), |x| *x >= 0) {
        let ou64 = |x: Option<u64>| x.map(|v| Obs::I(v as i64)).unwrap_or(Obs::Null);
        let ousz = |x: Option<usize>| x.map(|v| Obs::I(v as i64)).unwrap_or(Obs::Null);
        let vu: Vec<u64> = s.iter().map(|x| *x as u64).collect();
        agg_cell!(rep, v, skey, &e, mp, "Vec<u64>.titer()", vu.titer(), ou64, ou64);
        let vz: Vec<usize> = s.iter().map(|x| *x as usize).collect();
        agg_cell!(rep, v, skey, &e, mp, "Vec<usize> (owned)", vz.clone(), ousz, ousz);
        let vou: Vec<Option<u64>> = s.iter().map(|x| Some(*x as u64)).collect();
        agg_cell!(rep, v, skey, &e, mp, "Vec<Option<u64>>.titer()", vou.titer(), ou64, |x: Option<Option<u64>>| ou64(x.flatten()));
    }

    // ---- the fold primitives themselves (iter_traits.rs) and the one-step helpers (number.rs) ----
    if let Some(calls) = v.get("calls").and_then(|c| c.as_array()) {
        let want: Vec<i64> = calls.iter().map(|x| x.as_i64().unwrap()).collect();
        let fk = |f: &str| format!("{f}|{skey}");
        let mut judge_calls = |f: &str, cell: &str, r: Result<(Vec<i64>, Option<usize>), String>| {
            rep.cells += 1;
            match r {
                Ok((got, n)) if got == want && n.map(|n| n == want.len()).unwrap_or(true) => rep.ok(f, 0.0),
                Ok((got, n)) => rep.fail(f, &fk(f), cell, &format!("closure called with {got:?} (count {n:?}), the valid elements are {want:?}"), v),
                Err(m) => rep.fail(f, &fk(f), cell, &format!("panicked: {m}"), v),
            }
        };
        judge_calls("vfold", "Vec<f64>.titer()", catch(|| (vf.titer().vfold(Vec::new(), |mut acc, x| { acc.push(x as i64); acc }), None)));
        judge_calls("vfold", "Vec<Option<i32>> (owned)", catch(|| (voi.clone().vfold(Vec::new(), |mut acc, x| { acc.push(x.unwrap() as i64); acc }), None)));
        judge_calls("vfold_n", "Vec<f64>.titer()", catch(|| { let (n, a) = vf.titer().vfold_n(Vec::new(), |mut acc, x: f64| { acc.push(x as i64); acc }); (a, Some(n)) }));
        judge_calls("vfold_n", "Vec<Option<f64>>.titer()", catch(|| { let (n, a) = vo.titer().vfold_n(Vec::new(), |mut acc, x: f64| { acc.push(x as i64); acc }); (a, Some(n)) }));
        judge_calls("vfold_n", "Vec<f64>.opt()", catch(|| { let (n, a) = vf.opt().titer().vfold_n(Vec::new(), |mut acc, x: f64| { acc.push(x as i64); acc }); (a, Some(n)) }));
        judge_calls("vapply", "Vec<Option<i32>>.titer()", catch(|| { let mut a = Vec::new(); voi.titer().vapply(|x: i32| a.push(x as i64)); (a, None) }));
        judge_calls("vapply_n", "Vec<f64> (owned)", catch(|| { let mut a = Vec::new(); let n = vf.clone().vapply_n(|x: f64| a.push(x as i64)); (a, Some(n)) }));
        judge_calls("vapply_n", "Vec<Option<f64>>.titer()", catch(|| { let mut a = Vec::new(); let n = vo.titer().vapply_n(|x: f64| a.push(x as i64)); (a, Some(n)) }));
        // n_add / n_prod: accumulate and count exactly when the operand is valid; Kahan summation is exact here
        let nadd = get_ints(v, "nadd");
        let nprod = get_ints(v, "nprod");
        let mut judge_pair = |f: &str, cell: &str, r: Result<(f64, usize), String>, want: &[i64]| {
            rep.cells += 1;
            match r {
                Ok((acc, n)) if acc == want[0] as f64 && n as i64 == want[1] => rep.ok(f, 0.0),
                Ok((acc, n)) => rep.fail(f, &fk(f), cell, &format!("folded to ({acc}, {n}), want ({}, {})", want[0], want[1]), v),
                Err(m) => rep.fail(f, &fk(f), cell, &format!("panicked: {m}"), v),
            }
        };
        judge_pair("n_add", "f64", catch(|| { let mut n = 0usize; let mut acc = 0.0f64; for x in &vf { acc = acc.n_add(*x, &mut n); } (acc, n) }), &nadd);
        judge_pair("n_prod", "f64", catch(|| { let mut n = 0usize; let mut acc = 1.0f64; for x in &vf { acc = acc.n_prod(*x, &mut n); } (acc, n) }), &nprod);
        judge_pair("kh_sum", "f64", catch(|| {
            let (mut acc, mut c, mut n) = (0.0f64, 0.0f64, 0usize);
            for x in &vf { if !x.is_nan() { acc = acc.kh_sum(*x, &mut c); n += 1; } }
            if c != 0.0 { return (f64::NAN, n); }
            (acc, n)
        }), &nadd);
        if nullfree {
            let vi: Vec<i32> = enc_vec(&s);
            judge_pair("n_add", "i32", catch(|| { let mut n = 0usize; let mut acc = 0i32; for x in &vi { acc = acc.n_add(*x, &mut n); } (acc as f64, n) }), &nadd);
            judge_pair("n_prod", "i32", catch(|| { let mut n = 0usize; let mut acc = 1i32; for x in &vi { acc = acc.n_prod(*x, &mut n); } (acc as f64, n) }), &nprod);
            judge_pair("kh_sum", "i64", catch(|| { let (mut acc, mut c) = (0i64, 0i64); for x in &vi { acc = acc.kh_sum(*x as i64, &mut c); } (acc as f64 + c as f64, vi.len()) }), &nadd);
        }
        // min_with / max_with folded over the valid elements give the extremes
        let valid: Vec<f64> = want.iter().map(|x| *x as f64).collect();
        if !valid.is_empty() {
            let mn = valid.iter().fold(valid[0], |a, b| a.min_with(*b));
            let mx = valid.iter().fold(valid[0], |a, b| a.max_with(*b));
            rep.check("min_with", &fk("min_with"), "f64", &e["vmin"], Obs::F(mn), v);
            rep.check("max_with", &fk("max_with"), "f64", &e["vmax"], Obs::F(mx), v);
            let vi: Vec<i64> = want.clone();
            let mn = vi.iter().fold(vi[0], |a, b| a.min_with(*b));
            let mx = vi.iter().fold(vi[0], |a, b| a.max_with(*b));
            rep.check("min_with", &fk("min_with"), "i64", &e["vmin"], Obs::I(mn), v);
            rep.check("max_with", &fk("max_with"), "i64", &e["vmax"], Obs::I(mx), v);
        }
    }

    // counts of a given value (null counts the nulls)
    for (xk, want) in v["counts"].as_object().unwrap() {
        let x: i64 = xk.parse().unwrap();
        let want = Exp::Int(want.as_i64().unwrap());
        let key = format!("vcount_value|x={x}|{skey}");
        match catch(|| vf.titer().vcount_value(f64::enc(x))) {
            Ok(c) => { rep.check("vcount_value", &key, "Vec<f64>.titer()", &want, Obs::I(c as i64), v); },
            Err(m) => rep.fail("vcount_value", &key, "Vec<f64>.titer()", &format!("panicked: {m}"), v),
        }
        match catch(|| vo.titer().vcount_value(<Option<f64>>::enc(x))) {
            Ok(c) => { rep.check("vcount_value", &key, "Vec<Option<f64>>.titer()", &want, Obs::I(c as i64), v); },
            Err(m) => rep.fail("vcount_value", &key, "Vec<Option<f64>>.titer()", &format!("panicked: {m}"), v),
        }
        if nullfree && x != NULL {
            let vi: Vec<i32> = enc_vec(&s);
            let c = AggBasic::count_value(vi.titer(), x as i32);
            rep.check("count_value", &key, "Vec<i32>.titer()", &want, Obs::I(c as i64), v);
        }
    }

    // booleans: values 0 / non-zero
    if all_of(s.iter(), |x| *x == NULL || *x == 0 || *x == 1) {
        let vb: Vec<Option<bool>> = s.iter().map(|x| if *x == NULL { None } else { Some(*x == 1) }).collect();
        let key = format!("vany|{skey}");
        rep.check("vany", &key, "Vec<Option<bool>>", &e["vany"], Obs::I(vb.titer().vany() as i64), v);
        let key = format!("vall|{skey}");
        rep.check("vall", &key, "Vec<Option<bool>>", &e["vall"], Obs::I(vb.titer().vall() as i64), v);
        if nullfree {
            let b: Vec<bool> = s.iter().map(|x| *x == 1).collect();
            rep.check("vany", &format!("vany|{skey}"), "Vec<bool>", &e["vany"], Obs::I(b.titer().vany() as i64), v);
            rep.check("vall", &format!("vall|{skey}"), "Vec<bool>", &e["vall"], Obs::I(b.titer().vall() as i64), v);
            rep.check("any", &format!("any|{skey}"), "Vec<bool>", &e["vany"], Obs::I(AggBasic::any(b.titer()) as i64), v);
            rep.check("all", &format!("all|{skey}"), "Vec<bool>", &e["vall"], Obs::I(AggBasic::all(b.titer()) as i64), v);
        }
    }

    // null-unaware twins on null-free input (DESIGN 5.9)
    if nullfree {
        let vi: Vec<i32> = enc_vec(&s);
        let vfl: Vec<f64> = enc_vec(&s);
        let k = |f: &str| format!("{f}|{skey}");
        rep.check("first", &k("first"), "Vec<i32>", &e["vfirst"], o_oi(AggBasic::first(vi.titer())), v);
        rep.check("last", &k("last"), "Vec<i32>", &e["vlast"], o_oi(AggBasic::last(vi.titer())), v);
        rep.check("sum", &k("sum"), "Vec<i32>", &e["vsum"], o_oi(AggBasic::sum(vi.titer())), v);
        rep.check("n_sum", &k("n_sum"), "Vec<i32>", &e["count_valid"], Obs::I(AggBasic::n_sum(vi.titer()).0 as i64), v);
        rep.check("mean", &k("mean"), "Vec<i32>", &e["vmean"], o_of(AggBasic::mean(vi.titer())), v);
        rep.check("mean", &k("mean"), "Vec<f64>", &e["vmean"], o_of(AggBasic::mean(vfl.titer())), v);
        rep.check("max", &k("max"), "Vec<f64>", &e["vmax"], o_of(AggBasic::max(vfl.titer())), v);
        rep.check("min", &k("min"), "Vec<i32>", &e["vmin"], o_oi(AggBasic::min(vi.titer())), v);
        rep.check("argmax", &k("argmax"), "Vec<f64>", &e["vargmax"], o_ou(AggBasic::argmax(vfl.titer())), v);
        rep.check("argmin", &k("argmin"), "Vec<i32>", &e["vargmin"], o_ou(AggBasic::argmin(vi.titer())), v);
    }
}

fn replay_agg2(rep: &mut Report, v: &Value, laws: Option<&Laws3>) {
    let s = get_ints(v, "s");
    let t = get_ints(v, "t");
    let mp = get_i64(v, "mp") as usize;
    let e = exps(v);
    let skey = format!("mp={mp}|s={s:?},t={t:?}");
    let (a, b): (Vec<f64>, Vec<f64>) = (enc_vec(&s), enc_vec(&t));
    let (ao, bo): (Vec<Option<f64>>, Vec<Option<f64>>) = (enc_vec(&s), enc_vec(&t));
    let k = |f: &str| format!("{f}|{skey}");
    macro_rules! run {
        ($f:expr, $name:expr, $cell:expr, $body:expr, $obs:expr) => {{
            match catch(|| $body) {
                Ok(x) => { rep.check($f, &k($f), $cell, &e[$name], $obs(x), v); },
                Err(m) => rep.fail($f, &k($f), $cell, &format!("panicked: {m}"), v),
            }
        }};
    }
    run!("vcov", "vcov", "Vec<f64>x2", a.titer().vcov(b.titer(), mp), o_f);
    run!("vcov", "vcov", "Vec<Option<f64>>x2", ao.titer().vcov(bo.titer(), mp), |x: Option<f64>| o_of(x));
    run!("vcov", "vcov", "Vec<f64>+Vec<Option<f64>>", a.titer().vcov(bo.titer(), mp), o_f);
    run!("vcorr_pearson", "vcorr", "Vec<f64>x2", a.titer().vcorr_pearson::<f64, _, _>(b.titer(), mp), o_f);
    run!("vcorr_pearson", "vcorr", "Vec<Option<f64>>x2->Option<f64>", ao.titer().vcorr_pearson::<Option<f64>, _, _>(bo.titer(), mp), |x: Option<f64>| o_of(x));
    run!("vcorr_pearson", "vcorr", "owned Vec<f64>x2", a.clone().vcorr_pearson::<f64, _, _>(b.clone(), mp), o_f);
    // ---- the same two series in other units of measurement (Laws3.tla) ----
    if let Some(l) = laws {
        let (ma, mb) = (max_abs(&s), max_abs(&t));
        macro_rules! urun {
            ($f:expr, $name:expr, $T:ty, $ua:expr, $ub:expr) => {{
                if <$T as InElem>::fits(ma, $ua) && <$T as InElem>::fits(mb, $ub) {
                    let (ua, ub): (Vec<$T>, Vec<$T>) = (enc_vec_unit(&s, $ua), enc_vec_unit(&t, $ub));
                    let cell = format!("Vec<{}>x2@units={:e},{:e}", <$T as InElem>::NAME, $ua, $ub);
                    let un = l.unit2($name, $ua, $ub, ma, mb);
                    if $name == "vcov" {
                        match catch(|| ua.titer().vcov(ub.titer(), mp)) {
                            Ok(x) => { rep.check_unit($f, &k($f), &cell, &e[$name], o_f(x), un, v); },
                            Err(m) => rep.fail($f, &k($f), &cell, &format!("panicked: {m}"), v),
                        }
                    } else {
                        match catch(|| ua.titer().vcorr_pearson::<f64, _, _>(ub.titer(), mp)) {
                            Ok(x) => { rep.check_unit($f, &k($f), &cell, &e[$name], o_f(x), un, v); },
                            Err(m) => rep.fail($f, &k($f), &cell, &format!("panicked: {m}"), v),
                        }
                    }
                }
            }};
        }
        urun!("vcov", "vcov", f64, U_F64_BIG, U_F64_SMALL);
        urun!("vcov", "vcov", f64, U_F64_SMALL, U_F64_SMALL);
        urun!("vcov", "vcov", f32, U_F32_BIG, U_F32_BIG);
        urun!("vcorr_pearson", "vcorr", f64, U_F64_SMALL, U_F64_SMALL);
        urun!("vcorr_pearson", "vcorr", f64, U_F64_BIG, U_F64_SMALL);
        if !has_null(&s) && !has_null(&t) {
            urun!("vcov", "vcov", i32, U_I32_BIG, U_I32_BIG);
            urun!("vcorr_pearson", "vcorr", i32, U_I32_BIG, 1.0);
            urun!("vcorr_pearson", "vcorr", i64, U_I64_BIG, U_I64_BIG);
        }
    }

    // vfold2 visits exactly the pairwise-complete pairs, in order
    if let Some(c2) = v.get("calls2").and_then(|c| c.as_array()) {
        let wa: Vec<i64> = c2[0].as_array().unwrap().iter().map(|x| x.as_i64().unwrap()).collect();
        let wb: Vec<i64> = c2[1].as_array().unwrap().iter().map(|x| x.as_i64().unwrap()).collect();
        let want: Vec<(i64, i64)> = wa.into_iter().zip(wb).collect();
        let mut judge2 = |cell: &str, r: Result<Vec<(i64, i64)>, String>| {
            rep.cells += 1;
            match r {
                Ok(got) if got == want => rep.ok("vfold2", 0.0),
                Ok(got) => rep.fail("vfold2", &k("vfold2"), cell, &format!("closure called with {got:?}, the complete pairs are {want:?}"), v),
                Err(m) => rep.fail("vfold2", &k("vfold2"), cell, &format!("panicked: {m}"), v),
            }
        };
        judge2("Vec<f64>x2", catch(|| a.titer().vfold2(b.titer(), Vec::new(), |mut acc, x, y| { acc.push((x as i64, y as i64)); acc })));
        judge2("Vec<Option<f64>> + Vec<f64>", catch(|| ao.titer().vfold2(b.titer(), Vec::new(), |mut acc, x, y| { acc.push((x.unwrap() as i64, y as i64)); acc })));
        judge2("owned Vec<f64> + Vec<Option<f64>>", catch(|| a.clone().vfold2(bo.clone(), Vec::new(), |mut acc, x, y| { acc.push((x as i64, y.unwrap() as i64)); acc })));
    }

    // the second series as a mask over {0, 1, null}
    let mf: Vec<f64> = enc_vec(&t);
    let mb: Vec<Option<bool>> = t.iter().map(|x| if *x == NULL { None } else { Some(*x == 1) }).collect();
    run!("n_vsum_filter", "mask_n", "Vec<f64>, mask Vec<f64>", a.titer().n_vsum_filter(mf.titer()).0, |n: usize| Obs::I(n as i64));
    run!("n_vsum_filter", "mask_sum_raw", "Vec<f64>, mask Vec<Option<bool>>", a.titer().n_vsum_filter(mb.titer()).1, o_f);
    run!("n_sum_filter", "mask_sum", "Vec<f64>, mask Vec<Option<bool>>", a.titer().n_sum_filter(mb.titer()), |x: Option<f64>| o_of(x));
    run!("n_sum_filter", "mask_sum", "Vec<Option<f64>>, mask Vec<f64>", ao.titer().n_sum_filter(mf.titer()), |x: Option<f64>| o_of(x));
    run!("vmean_filter", "mask_mean", "Vec<f64>, mask Vec<Option<bool>>", a.titer().vmean_filter(mb.titer(), mp), o_f);
    run!("vmean_filter", "mask_mean", "Vec<Option<f64>>, mask Vec<f64>", ao.titer().vmean_filter(mf.titer(), mp), o_f);
}

/// float series holding infinities (Agg.tla InfAggOf): an infinity is a valid element
fn replay_agg_inf(rep: &mut Report, v: &Value) {
    let s = get_ints(v, "s");
    let (pinf, ninf) = (get_i64(v, "pinf"), get_i64(v, "ninf"));
    let e = exps(v);
    let skey = format!("s={}", format!("{s:?}").replace(&pinf.to_string(), "inf").replace(&NULL.to_string(), "null"));
    let encf = |x: i64| -> f64 { if x == NULL { f64::NAN } else if x == pinf { f64::INFINITY } else if x == ninf { f64::NEG_INFINITY } else { x as f64 } };
    let vf: Vec<f64> = s.iter().map(|x| encf(*x)).collect();
    let v32: Vec<f32> = vf.iter().map(|x| *x as f32).collect();
    let vo: Vec<Option<f64>> = s.iter().map(|x| if *x == NULL { None } else { Some(encf(*x)) }).collect();
    let vo32: Vec<Option<f32>> = vo.iter().map(|x| x.map(|y| y as f32)).collect();
    macro_rules! cell {
        ($cell:expr, $mk:expr, $val_obs:expr, $first_obs:expr) => {{
            let key = |f: &str| format!("{f}|{skey}");
            macro_rules! run {
                ($f:expr, $body:expr, $obs:expr) => {{
                    match catch(|| $body) {
                        Ok(x) => { rep.check($f, &key($f), $cell, &e[$f], $obs(x), v); },
                        Err(m) => rep.fail($f, &key($f), $cell, &format!("panicked: {m}"), v),
                    }
                }};
            }
            run!("count_valid", $mk.count_valid(), |n: usize| Obs::I(n as i64));
            run!("count_none", $mk.count_none(), |n: usize| Obs::I(n as i64));
            run!("vfirst", $mk.vfirst(), $first_obs);
            run!("vlast", $mk.vlast(), $first_obs);
            run!("vsum", $mk.vsum(), $val_obs);
            run!("vmean", $mk.vmean(), o_f);
            run!("vmin", $mk.vmin(), $val_obs);
            run!("vmax", $mk.vmax(), $val_obs);
            run!("vargmin", $mk.vargmin(), o_ou);
            run!("vargmax", $mk.vargmax(), o_ou);
        }};
    }
    let of64 = |x: Option<f64>| o_of(x);
    let of32 = |x: Option<f32>| o_of(x);
    cell!("Vec<f64>.titer()", vf.titer(), of64, of64);
    cell!("Vec<f64> (owned)", vf.clone(), of64, of64);
    cell!("Vec<f64>.opt()", vf.opt().titer(), of64, |x: Option<Option<f64>>| o_of(x.flatten()));
    cell!("Vec<Option<f64>>.titer()", vo.titer(), of64, |x: Option<Option<f64>>| o_of(x.flatten()));
    cell!("Vec<f32>.titer()", v32.titer(), of32, of32);
    cell!("Vec<Option<f32>> (owned)", vo32.clone(), of32, |x: Option<Option<f32>>| o_of(x.flatten()));
    // the null-unaware twins on null-free input
    if !has_null(&s) {
        let k = |f: &str| format!("{f}|{skey}");
        rep.check("max", &k("max"), "Vec<f64>", &e["vmax"], o_of(AggBasic::max(vf.titer())), v);
        rep.check("min", &k("min"), "Vec<f64>", &e["vmin"], o_of(AggBasic::min(vf.titer())), v);
        rep.check("argmax", &k("argmax"), "Vec<f64>", &e["vargmax"], o_ou(AggBasic::argmax(vf.titer())), v);
        rep.check("argmin", &k("argmin"), "Vec<f64>", &e["vargmin"], o_ou(AggBasic::argmin(vf.titer())), v);
    }
}
