//! Conformance harness for aggregations and order statistics (C08, C11, C12, parts of C20).
mod agg;
mod comp;
mod nulls;
mod order;

use tvh_common::*;

fn main() {
    guarded_main(run);
}

fn run() {
    let args = Args::from_env();
    match args.cmd() {
        "replay-agg" => agg::replay(&args),
        "replay-order" => order::replay(&args),
        "replay-nulls" => nulls::replay(&args),
        "replay-composite" => comp::replay(&args),
        other => tool_error(&format!("unknown command {other:?}")),
    }
}
