//! C20: half-life (with a watchdog), winsorize, Spearman on the real code.
use std::sync::mpsc;
use std::time::Duration;

use serde_json::Value;
use tevec::prelude::*;
use tvh_common::*;

pub fn replay(args: &Args) {
    let cases = read_ndjson(args.req("in"));
    let mut rep = Report::new(args.get("prop").unwrap_or("C20"), args.req("out"));
    for v in cases {
        let v = &v;
        match get_str(v, "op") {
            "half_life" => {
                rep.cases += 1;
                if rep.cases % 4000 == 1 {
                    rep.sample(v.clone());
                }
                if !half_life(&mut rep, v) {
                    // a call that does not return cannot be cancelled: report and stop here
                    rep.finish();
                    std::process::exit(0);
                }
            },
            "winsor" => {
                rep.cases += 1;
                if rep.cases % 1000 == 1 {
                    rep.sample(serde_json::json!({"op": "winsor", "s": v["s"], "sigma_head": v["sigma"][0]}));
                }
                winsor(&mut rep, v)
            },
            "spearman" => {
                rep.cases += 1;
                if rep.cases % 9000 == 1 {
                    rep.sample(v.clone());
                }
                spearman(&mut rep, v)
            },
            _ => {},
        }
    }
    rep.finish();
}

/// returns false if the call did not terminate
fn half_life(rep: &mut Report, v: &Value) -> bool {
    let s = get_ints(v, "s");
    let mp_raw = get_i64(v, "mp");
    let mp = if mp_raw < 0 { None } else { Some(mp_raw as usize) };
    let want = get_i64(v, "want");
    let key = format!("half_life|mp={mp_raw}|s={s:?}");
    let len = s.len() as i64;
    // Lags whose autocorrelation is exactly 1/2: the floating-point value may fall on either side.
    // TLC emits one behaviour per resolution; this one applies only if it resolves every tie the
    // way the library's own autocorrelation (vcorr_pearson of the series and its lag - the function
    // the property defines the half-life by) does on this input.
    let ties = get_ints(v, "ties");
    if !ties.is_empty() {
        let above = get_ints(v, "above");
        let vf: Vec<f64> = enc_vec(&s);
        let mpu = mp.unwrap_or(s.len() / 2);
        for k in &ties {
            let c = catch(|| vf.titer().vcorr_pearson::<f64, _, _>(vf.titer().vshift(*k as i32, None), mpu));
            let Ok(c) = c else {
                rep.mismatch("half_life", "half_life", &key, "autocorrelation", "vcorr_pearson panicked on the lagged series", v);
                return true;
            };
            if (c > 0.5) != (above[*k as usize - 1] == 1) {
                rep.skipped(); // the other resolution's behaviour covers this input
                return true;
            }
        }
    }
    let mut run = |cell: &str, f: Box<dyn FnOnce() -> usize + Send>| -> bool {
        rep.cells += 1;
        let (tx, rx) = mpsc::channel();
        std::thread::spawn(move || {
            let r = catch(f);
            let _ = tx.send(r);
        });
        match rx.recv_timeout(Duration::from_secs(120)) {
            Err(_) => {
                rep.mismatch("half_life", "half_life", &key, cell, "did not terminate within 120 s", v);
                return false;
            },
            Ok(Err(p)) => rep.mismatch("half_life", "half_life", &key, cell, &format!("panicked: {p}"), v),
            Ok(Ok(n)) => {
                let n = n as i64;
                let in_range = n >= 0 && n <= (len - 1).max(0) && (n != 0 || len < 2);
                if !in_range {
                    rep.mismatch("half_life", "half_life", &key, cell, &format!("returned {n} for a series of length {len}"), v);
                } else if want >= 0 && n != want {
                    rep.mismatch("half_life", "half_life", &key, cell,
                        &format!("returned {n}; the autocorrelation stays above 1/2 exactly up to lag {} so the half-life is {want}", want - 1), v);
                } else {
                    rep.ok("half_life", 0.0);
                }
            },
        }
        true
    };
    let vf: Vec<f64> = enc_vec(&s);
    let mut alive = run("Vec<f64>", Box::new(move || vf.half_life(mp)));
    if alive {
        let vo: Vec<Option<f64>> = enc_vec(&s);
        alive = run("Vec<Option<f64>>", Box::new(move || vo.half_life(mp)));
    }
    // integer element types cannot hold the null that lagging introduces (DESIGN 5.8): floats
    // and options only
    if alive {
        let vf32: Vec<f32> = enc_vec(&s);
        alive = run("Vec<f32>", Box::new(move || vf32.half_life(mp)));
    }
    alive
}

fn winsor(rep: &mut Report, v: &Value) {
    let s = get_ints(v, "s");
    let skey = format!("s={s:?}");
    let vf: Vec<f64> = enc_vec(&s);
    let vo: Vec<Option<f64>> = enc_vec(&s);
    let mut one = |name: &str, method: WinsorizeMethod, param: f64, ptxt: String, exps: Vec<Exp>| {
        let key = format!("winsorize({name})|{ptxt}|{skey}");
        let nullfree = !has_null(&s);
        let nonneg = nullfree && all_of(s.iter(), |x| *x >= 0);
        let mut cells: Vec<(&str, Result<TResult<Vec<f64>>, String>)> = vec![
            ("Vec<f64>", catch(|| vf.winsorize(method, Some(param)).map(|it| it.collect::<Vec<f64>>()))),
            ("Vec<Option<f64>>", catch(|| vo.winsorize(method, Some(param)).map(|it| it.collect::<Vec<f64>>()))),
        ];
        // integer element types, signed and UNSIGNED (a difference of two order statistics taken in
        // an unsigned type underflows when the larger one comes second)
        if nullfree {
            let vi: Vec<i32> = enc_vec(&s);
            cells.push(("Vec<i32>", catch(|| vi.winsorize(method, Some(param)).map(|it| it.collect::<Vec<f64>>()))));
            let vl: Vec<i64> = enc_vec(&s);
            cells.push(("Vec<i64>", catch(|| vl.winsorize(method, Some(param)).map(|it| it.collect::<Vec<f64>>()))));
        }
        if nonneg {
            let vu: Vec<u64> = s.iter().map(|x| *x as u64).collect();
            cells.push(("Vec<u64>", catch(|| vu.winsorize(method, Some(param)).map(|it| it.collect::<Vec<f64>>()))));
            let vz: Vec<usize> = s.iter().map(|x| *x as usize).collect();
            cells.push(("Vec<usize>", catch(|| vz.winsorize(method, Some(param)).map(|it| it.collect::<Vec<f64>>()))));
        }
        for (cell, r) in cells {
            rep.cells += 1;
            match r {
                Err(p) => rep.mismatch("winsorize", &format!("winsorize({name})"), &key, cell, &format!("panicked: {p}"), v),
                Ok(Err(e)) => rep.mismatch("winsorize", &format!("winsorize({name})"), &key, cell, &format!("error: {e}"), v),
                Ok(Ok(out)) => {
                    if out.len() != exps.len() {
                        rep.mismatch("winsorize", &format!("winsorize({name})"), &key, cell, &format!("{} values for {} inputs", out.len(), exps.len()), v);
                        continue;
                    }
                    let mut bad = None;
                    for (i, (g, e)) in out.iter().zip(&exps).enumerate() {
                        if let Err(d) = check_elem(e, g) {
                            bad = Some(format!("position {i}: {d} (result {out:?})"));
                            break;
                        }
                    }
                    // order preservation on the real output
                    if bad.is_none() {
                        for a in 0..s.len() {
                            for b in 0..s.len() {
                                if s[a] != NULL && s[b] != NULL && s[a] <= s[b] && out[a] > out[b] {
                                    bad = Some(format!("order not preserved between positions {a} and {b}: {out:?}"));
                                }
                            }
                        }
                    }
                    match bad {
                        None => rep.ok("winsorize", 0.0),
                        Some(d) => rep.mismatch("winsorize", &format!("winsorize({name})"), &key, cell, &d, v),
                    }
                },
            }
        }
    };
    for q in v["quantile"].as_array().unwrap() {
        let (qn, qd) = (q["q"][0].as_i64().unwrap(), q["q"][1].as_i64().unwrap());
        one("quantile", WinsorizeMethod::Quantile, qn as f64 / qd as f64, format!("q={qn}/{qd}"), Exp::parse_seq(&q["e"]));
    }
    for m in v["median"].as_array().unwrap() {
        let k = m["k"].as_i64().unwrap();
        one("median", WinsorizeMethod::Median, k as f64, format!("k={k}"), Exp::parse_seq(&m["e"]));
    }
    for m in v["sigma"].as_array().unwrap() {
        let k = m["k"].as_i64().unwrap();
        one("sigma", WinsorizeMethod::Sigma, k as f64, format!("k={k}"), Exp::parse_seq(&m["e"]));
    }
}

fn spearman(rep: &mut Report, v: &Value) {
    let s = get_ints(v, "s");
    let t = get_ints(v, "t");
    let mp_raw = get_i64(v, "mp");
    let mp = if mp_raw < 0 { None } else { Some(mp_raw as usize) };
    let e = Exp::parse(&v["e"]);
    let key = format!("vcorr(Spearman)|mp={mp_raw}|s={s:?},t={t:?}");
    let (a, b): (Vec<f64>, Vec<f64>) = (enc_vec(&s), enc_vec(&t));
    let of = |x: f64| if x.is_nan() { Obs::Null } else { Obs::F(x) };
    match catch(|| a.vcorr(&b, mp, CorrMethod::Spearman)) {
        Ok(r) => { rep.check("vcorr(Spearman)", &key, "Vec<f64>x2", &e, of(r), v); },
        Err(p) => rep.fail("vcorr(Spearman)", &key, "Vec<f64>x2", &format!("panicked: {p}"), v),
    }
    // invariance under strictly increasing transformations, on the real code
    let inc: Vec<f64> = a.iter().map(|x| 2.0 * x + 1.0).collect();
    let cube: Vec<f64> = b.iter().map(|x| x * x * x).collect();
    match (catch(|| a.vcorr(&b, mp, CorrMethod::Spearman)), catch(|| inc.vcorr(&cube, mp, CorrMethod::Spearman))) {
        (Ok(x), Ok(y)) => {
            rep.cells += 1;
            if x.to_bits() == y.to_bits() || (x.is_nan() && y.is_nan()) {
                rep.ok("vcorr(Spearman)", 0.0);
            } else {
                rep.mismatch("vcorr(Spearman)", "vcorr(Spearman)", &key, "x->2x+1, y->y^3", &format!("{x} before, {y} after a strictly increasing transformation"), v);
            }
        },
        _ => {},
    }
    let (ao, bo): (Vec<Option<f64>>, Vec<Option<f64>>) = (enc_vec(&s), enc_vec(&t));
    match catch(|| ao.vcorr(&bo, mp, CorrMethod::Spearman)) {
        Ok(r) => { rep.check("vcorr(Spearman)", &key, "Vec<Option<f64>>x2", &e, r.map(of).unwrap_or(Obs::Null), v); },
        Err(p) => rep.fail("vcorr(Spearman)", &key, "Vec<Option<f64>>x2", &format!("panicked: {p}"), v),
    }
    // Pearson through the same entry point equals vcorr_pearson
    match (catch(|| a.vcorr(&b, mp, CorrMethod::Pearson)), catch(|| a.titer().vcorr_pearson::<f64, _, _>(b.titer(), mp.unwrap_or(a.len() / 2)))) {
        (Ok(x), Ok(y)) => {
            rep.cells += 1;
            if x.to_bits() == y.to_bits() || (x.is_nan() && y.is_nan()) { rep.ok("vcorr(Pearson)", 0.0) } else {
                rep.mismatch("vcorr(Pearson)", "vcorr(Pearson)", &key, "Vec<f64>x2", &format!("{x} vs vcorr_pearson {y}"), v);
            }
        },
        _ => {},
    }
}
