//! Spec -> impl replay of MapOps.tla cases.
use serde_json::{Value, json};
use tevec::prelude::*;
use tvh_common::*;

const BIG: i64 = 1_000_000;
const TMIN: i64 = -1_000_000;
const TMAX: i64 = 1_000_000;

fn lag_of(n: i64) -> i32 {
    if n >= BIG {
        i32::MAX
    } else if n <= -BIG {
        i32::MIN
    } else {
        n as i32
    }
}

/// safe consumption of an iterator: items and the size hint announced before consumption
fn drain<I: Iterator>(it: I) -> ((usize, Option<usize>), Vec<I::Item>) {
    let h = it.size_hint();
    // never trust the hint here: plain iteration, bounded in case an iterator does not end
    let mut v = Vec::new();
    for x in it {
        v.push(x);
        if v.len() > 100_000 {
            break;
        }
    }
    (h, v)
}

/// compare a result sequence with integer-or-null expectations
fn cmp_seq<U: OutElem>(rep: &mut Report, f: &str, key: &str, cell: &str, got: Result<((usize, Option<usize>), Vec<U>), String>, want: &[Exp], case: &Value) {
    rep.cells += 1;
    match got {
        Err(p) => rep.mismatch(f, f, key, cell, &format!("panicked: {p}"), case),
        Ok((_, items)) => {
            if items.len() != want.len() {
                rep.mismatch(f, f, key, cell, &format!("{} elements for an input of {}", items.len(), want.len()), case);
                return;
            }
            for (i, (g, e)) in items.iter().zip(want).enumerate() {
                if e.is_any() {
                    rep.skipped();
                    continue;
                }
                if let Err(d) = check_elem(e, g) {
                    rep.mismatch(f, f, key, cell, &format!("position {i}: {d}"), case);
                    return;
                }
            }
            rep.ok(f, 0.0);
        },
    }
}

/// the same comparison for a series measured in another unit (MapOps.tla LagHomogeneous): the
/// expectation is multiplied by unit^degree
fn cmp_seq_unit<U: OutElem>(rep: &mut Report, f: &str, key: &str, cell: &str, got: Result<((usize, Option<usize>), Vec<U>), String>, want: &[Exp],
                            un: Unit, case: &Value) {
    rep.cells += 1;
    match got {
        Err(p) => rep.mismatch(f, f, key, cell, &format!("panicked: {p}"), case),
        Ok((_, items)) => {
            if items.len() != want.len() {
                rep.mismatch(f, f, key, cell, &format!("{} elements for an input of {}", items.len(), want.len()), case);
                return;
            }
            for (i, (g, e)) in items.iter().zip(want).enumerate() {
                if e.is_any() {
                    rep.skipped();
                    continue;
                }
                if let Err(d) = satisfies_unit(e, g.obs(), un, U::NULL_AS_ZERO) {
                    rep.mismatch(f, f, key, cell, &format!("position {i}: {d}"), case);
                    return;
                }
            }
            rep.ok(f, 0.0);
        },
    }
}

/// the two infinities as in-band symbols (MapOps.tla PINFM / NINFM)
const PINFM: i64 = 900_000;
const NINFM: i64 = -900_000;
fn opt_exps(v: &Value, k: &str) -> Vec<Exp> {
    get_ints(v, k).into_iter().map(|x| match x { PINFM => Exp::Inf(1), NINFM => Exp::Inf(-1), x => Exp::from_opt_int(x) }).collect()
}
/// a lag-operation element measured in the unit u
fn enc_lag(x: i64, u: f64) -> f64 {
    match x {
        NULL => f64::NAN,
        PINFM => f64::INFINITY,
        NINFM => f64::NEG_INFINITY,
        v => v as f64 * u,
    }
}

fn enc_f(x: i64) -> f64 {
    match x {
        NULL => f64::NAN,
        TMIN => f64::MIN,
        TMAX => f64::MAX,
        v => v as f64,
    }
}

pub fn replay(args: &Args) {
    let cases = read_ndjson(args.req("in"));
    let mut rep = Report::new(args.get("prop").unwrap_or("C13"), args.req("out"));
    let only: Vec<String> = args.get("only").map(|s| s.split(',').map(|x| x.to_string()).collect()).unwrap_or_default();
    let want = |k: &str| only.is_empty() || any_of(only.iter(), |x| x == k);
    for v in cases {
        let v = &v;
        let op = get_str(v, "op");
        if !want(op) {
            continue;
        }
        match op {
            "lag" => {
                rep.cases += 1;
                if rep.cases % 3000 == 1 {
                    rep.sample(v.clone());
                }
                lag(&mut rep, v)
            },
            "fill" => {
                rep.cases += 1;
                if rep.cases % 300 == 1 {
                    rep.sample(v.clone());
                }
                fill(&mut rep, v)
            },
            "clip" => {
                rep.cases += 1;
                if rep.cases % 3000 == 1 {
                    rep.sample(v.clone());
                }
                clip(&mut rep, v)
            },
            "uniq" => {
                rep.cases += 1;
                if rep.cases % 300 == 1 {
                    rep.sample(v.clone());
                }
                uniq(&mut rep, v)
            },
            "cut" => {
                rep.cases += 1;
                if rep.cases % 300 == 1 {
                    rep.sample(v.clone());
                }
                cut(&mut rep, v)
            },
            _ => {},
        }
    }
    rep.finish();
}

fn lag(rep: &mut Report, v: &Value) {
    let s = get_ints(v, "s");
    let n_raw = get_i64(v, "n");
    let n = lag_of(n_raw);
    let fill = get_i64(v, "fill");
    let key = |f: &str| format!("{f}|n={n},fill={}|s={s:?}", if fill == NULL { "null".to_string() } else { fill.to_string() });
    let has_inf = any_of(s.iter(), |x| *x == PINFM || *x == NINFM);
    // integer element types hold neither nulls nor infinities
    let nullfree = !has_null(&s) && !has_inf;
    let (e_shift, e_diff, e_pct) = (opt_exps(v, "shift"), opt_exps(v, "diff"), Exp::parse_seq(&v["pct"]));
    let vf: Vec<f64> = s.iter().map(|x| enc_lag(*x, 1.0)).collect();
    let vo: Vec<Option<f64>> = s.iter().map(|x| if *x == NULL { None } else { Some(enc_lag(*x, 1.0)) }).collect();
    let ff = f64::enc(fill);
    let fo = if fill == NULL { None } else { Some(ff) };

    // a lazily generated series LONGER than i32::MAX elements (the lag is an i32, the length is not):
    // the announced length and the first outputs against the positional definition.  Once per lag
    // (the empty-series case of the enumeration is the trigger).
    if s.is_empty() {
        for big in [1u64 << 31, (1u64 << 32) + 5] {
            let key = format!("vshift|n={n},fill={}|lazy series of {big} elements", if fill == NULL { "null".to_string() } else { fill.to_string() });
            rep.cells += 1;
            let r = catch(|| -> Result<(), String> {
                let it = (0..big).map(|j| j as f64).vshift(n, fo);
                let h = it.size_hint();
                if h != (big as usize, Some(big as usize)) {
                    return Err(format!("announces {h:?} for a series of {big} elements"));
                }
                for (i, got) in it.take(8).enumerate() {
                    let src = i as i128 - n as i128;
                    let want = if src < 0 || src >= big as i128 { if fill == NULL { f64::NAN } else { fill as f64 } } else { src as f64 };
                    if !(got == want || (got.is_nan() && want.is_nan())) {
                        return Err(format!("element {i} is {got}, the definition gives {want}"));
                    }
                }
                Ok(())
            });
            match r {
                Ok(Ok(())) => rep.ok("vshift", 0.0),
                Ok(Err(d)) => rep.mismatch("vshift", "vshift|lazy long series", &key, "Range<u64>.map()", &d, v),
                Err(p) => rep.mismatch("vshift", "vshift|lazy long series", &key, "Range<u64>.map()", &format!("panicked: {p}"), v),
            }
        }
    }
    // shift (explicit fill value) and vshift (optional fill value, default null)
    cmp_seq(rep, "shift", &key("shift"), "Vec<f64>.titer()", catch(|| drain(vf.titer().shift(n, ff))), &e_shift, v);
    cmp_seq(rep, "shift", &key("shift"), "Vec<Option<f64>>.titer()", catch(|| drain(vo.titer().shift(n, <Option<f64>>::enc(fill)))), &e_shift, v);
    cmp_seq(rep, "vshift", &key("vshift"), "Vec<f64>.titer()", catch(|| drain(vf.titer().vshift(n, fo))), &e_shift, v);
    cmp_seq(rep, "vshift", &key("vshift"), "Vec<Option<f64>>.titer()",
        catch(|| drain(vo.titer().vshift(n, if fill == NULL { None } else { Some(Some(ff)) }))), &e_shift, v);
    cmp_seq(rep, "vshift", &key("vshift"), "Spy<f64>.titer()", catch(|| drain(Spy::new(1, vf.clone()).titer().vshift(n, fo))), &e_shift, v);
    if nullfree && fill != NULL {
        let vi: Vec<i32> = enc_vec(&s);
        cmp_seq(rep, "shift", &key("shift"), "Vec<i32>.titer()", catch(|| drain(vi.titer().shift(n, fill as i32))), &e_shift, v);
        cmp_seq(rep, "vshift", &key("vshift"), "Vec<i32>.titer()", catch(|| drain(vi.titer().vshift(n, Some(fill as i32)))), &e_shift, v);
    }
    // vdiff / vpct_change on views
    cmp_seq(rep, "vdiff", &key("vdiff"), "Vec<f64>", catch(|| drain(vf.vdiff(n, fo))), &e_diff, v);
    cmp_seq(rep, "vdiff", &key("vdiff"), "Spy<f64>", catch(|| drain(Spy::new(1, vf.clone()).vdiff(n, fo))), &e_diff, v);
    {
        let dq: std::collections::VecDeque<f64> = vf.iter().cloned().collect();
        cmp_seq(rep, "vdiff", &key("vdiff"), "VecDeque<f64>", catch(|| drain(dq.vdiff(n, fo))), &e_diff, v);
        let arr = tevec::export::ndarray::Array1::from_vec(vf.clone());
        cmp_seq(rep, "vdiff", &key("vdiff"), "Array1<f64>", catch(|| drain(arr.vdiff(n, fo))), &e_diff, v);
        cmp_seq(rep, "vpct_change", &key("vpct_change"), "Array1<f64>", catch(|| drain(arr.vpct_change(n))), &e_pct, v);
    }
    if nullfree && fill != NULL {
        let vi: Vec<i32> = enc_vec(&s);
        cmp_seq(rep, "vdiff", &key("vdiff"), "Vec<i32>", catch(|| drain(vi.vdiff(n, Some(fill as i32)))), &e_diff, v);
    }
    // the value 0 has two encodings in a float type: with every zero written as -0.0 the results are the same
    // VALUES (MapOps.tla ZeroSignFree; a zero base of a percentage change is a zero base whatever its sign)
    if any_of(s.iter(), |x| *x == 0) {
        let vz: Vec<f64> = vf.iter().map(|x| if *x == 0.0 { -0.0 } else { *x }).collect();
        let voz: Vec<Option<f64>> = vz.iter().map(|x| if x.is_nan() { None } else { Some(*x) }).collect();
        cmp_seq(rep, "vshift", &key("vshift"), "Vec<f64>(zeros as -0.0).titer()", catch(|| drain(vz.titer().vshift(n, fo))), &e_shift, v);
        cmp_seq(rep, "vdiff", &key("vdiff"), "Vec<f64>(zeros as -0.0)", catch(|| drain(vz.vdiff(n, fo))), &e_diff, v);
        cmp_seq(rep, "vpct_change", &key("vpct_change"), "Vec<f64>(zeros as -0.0)", catch(|| drain(vz.vpct_change(n))), &e_pct, v);
        cmp_seq(rep, "vpct_change", &key("vpct_change"), "Vec<Option<f64>>(zeros as -0.0)", catch(|| drain(voz.vpct_change(n))), &e_pct, v);
    }
    // ---- the same series (and fill value) in other units of measurement ----
    if let Some(deg) = v.get("deg").and_then(|d| d.as_object()) {
        let d = |k: &str| deg[k].as_i64().unwrap() as i32;
        let finite: Vec<i64> = s.iter().cloned().filter(|x| *x != PINFM && *x != NINFM).collect();
        let maxabs = max_abs(&finite).max(if fill == NULL { 0 } else { fill.abs() });
        // 2^-1060 is a subnormal power of two (products and differences stay exact), 1e300 leaves
        // no headroom for squares, 123467.8 is not dyadic
        for u in [2.0_f64.powi(-1060), 1e300, 123467.8] {
            let un = |k: &str| { let f = u.powi(d(k)); Unit { factor: f, floor: f * (maxabs.max(1) as f64).powi(d(k)) } };
            let vu: Vec<f64> = s.iter().map(|x| enc_lag(*x, u)).collect();
            let fu = if fill == NULL { None } else { Some(fill as f64 * u) };
            let cell = format!("Vec<f64>@unit={u:e}");
            cmp_seq_unit(rep, "vshift", &key("vshift"), &cell, catch(|| drain(vu.titer().vshift(n, fu))), &e_shift, un("shift"), v);
            cmp_seq_unit(rep, "vdiff", &key("vdiff"), &cell, catch(|| drain(vu.vdiff(n, fu))), &e_diff, un("diff"), v);
            if fill == NULL {
                cmp_seq_unit(rep, "vpct_change", &key("vpct_change"), &cell, catch(|| drain(vu.vpct_change(n))), &e_pct, un("pct"), v);
                let vou: Vec<Option<f64>> = s.iter().map(|x| if *x == NULL { None } else { Some(enc_lag(*x, u)) }).collect();
                cmp_seq_unit(rep, "vpct_change", &key("vpct_change"), &format!("Vec<Option<f64>>@unit={u:e}"), catch(|| drain(vou.vpct_change(n))), &e_pct, un("pct"), v);
            }
        }
        if nullfree && fill == NULL && <i32 as InElem>::fits(maxabs, 400_000_000.0) {
            let u: f64 = 400_000_000.0;
            let f = u.powi(d("pct"));
            let vi: Vec<i32> = enc_vec_unit(&s, u);
            cmp_seq_unit(rep, "vpct_change", &key("vpct_change"), "Vec<i32>@unit=4e8", catch(|| drain(vi.vpct_change(n))), &e_pct, Unit { factor: f, floor: f }, v);
        }
    }
    if fill == NULL {
        cmp_seq(rep, "vpct_change", &key("vpct_change"), "Vec<f64>", catch(|| drain(vf.vpct_change(n))), &e_pct, v);
        cmp_seq(rep, "vpct_change", &key("vpct_change"), "Vec<Option<f64>>", catch(|| drain(vo.vpct_change(n))), &e_pct, v);
        if nullfree {
            let vi: Vec<i32> = enc_vec(&s);
            cmp_seq(rep, "vpct_change", &key("vpct_change"), "Vec<i32>", catch(|| drain(vi.vpct_change(n))), &e_pct, v);
        }
    }
}

fn fill(rep: &mut Report, v: &Value) {
    let s = get_ints(v, "s");
    let d = get_i64(v, "dflt");
    let key = |f: &str| format!("{f}|default={}|s={s:?}", if d == NULL { "null".to_string() } else { d.to_string() });
    let vf: Vec<f64> = enc_vec(&s);
    let vo: Vec<Option<f64>> = enc_vec(&s);
    let df = if d == NULL { None } else { Some(d as f64) };
    let dopt = if d == NULL { None } else { Some(Some(d as f64)) };
    let zero = |x: &f64| *x == 0.0;
    let zero_o = |x: &Option<f64>| *x == Some(0.0);
    cmp_seq(rep, "ffill", &key("ffill"), "Vec<f64>", catch(|| drain(vf.titer().ffill(df))), &opt_exps(v, "ffill"), v);
    cmp_seq(rep, "ffill", &key("ffill"), "Vec<Option<f64>>", catch(|| drain(vo.titer().ffill(dopt))), &opt_exps(v, "ffill"), v);
    cmp_seq(rep, "bfill", &key("bfill"), "Vec<f64>", catch(|| drain(vf.titer().bfill(df))), &opt_exps(v, "bfill"), v);
    cmp_seq(rep, "bfill", &key("bfill"), "Vec<Option<f64>>", catch(|| drain(vo.titer().bfill(dopt))), &opt_exps(v, "bfill"), v);
    cmp_seq(rep, "ffill_mask", &key("ffill_mask"), "Vec<f64>", catch(|| drain(vf.titer().ffill_mask(zero, df))), &opt_exps(v, "ffill0"), v);
    cmp_seq(rep, "bfill_mask", &key("bfill_mask"), "Vec<f64>", catch(|| drain(vf.titer().bfill_mask(zero, df))), &opt_exps(v, "bfill0"), v);
    cmp_seq(rep, "ffill_mask", &key("ffill_mask"), "Vec<Option<f64>>", catch(|| drain(vo.titer().ffill_mask(zero_o, dopt))), &opt_exps(v, "ffill0"), v);
    if d == NULL {
        cmp_seq(rep, "fill", &key("fill"), "Vec<f64>", catch(|| drain(vf.titer().fill(7.0))), &opt_exps(v, "fill7"), v);
        cmp_seq(rep, "fill", &key("fill"), "Vec<Option<f64>>", catch(|| drain(vo.titer().fill(Some(7.0)))), &opt_exps(v, "fill7"), v);
        cmp_seq(rep, "fill_mask", &key("fill_mask"), "Vec<f64>", catch(|| drain(vf.titer().fill_mask(zero, 7.0))), &opt_exps(v, "fill0"), v);
        cmp_seq(rep, "drop_none", &key("drop_none"), "Vec<f64>", catch(|| drain(vf.titer().drop_none())), &opt_exps(v, "dropped"), v);
        cmp_seq(rep, "drop_none", &key("drop_none"), "Vec<Option<f64>>", catch(|| drain(vo.titer().drop_none())), &opt_exps(v, "dropped"), v);
        let voi: Vec<Option<i32>> = enc_vec(&s);
        cmp_seq(rep, "drop_none", &key("drop_none"), "Vec<Option<i32>> (owned)", catch(|| drain(voi.clone().into_iter().drop_none())), &opt_exps(v, "dropped"), v);
        cmp_seq(rep, "vabs", &key("vabs"), "Vec<f64>", catch(|| drain(vf.titer().map(|x| -x).vabs())), &opt_exps(v, "abs"), v);
        cmp_seq(rep, "vabs", &key("vabs"), "Vec<Option<f64>>", catch(|| drain(vo.titer().map(|x| x.map(|y| -y)).vabs())), &opt_exps(v, "abs"), v);
        if !has_null(&s) {
            let vi: Vec<i32> = s.iter().map(|x| -(*x as i32)).collect();
            cmp_seq(rep, "abs", &key("abs"), "Vec<i32>", catch(|| drain(vi.titer().abs())), &opt_exps(v, "abs"), v);
            cmp_seq(rep, "vabs", &key("vabs"), "Vec<i32>", catch(|| drain(vi.titer().vabs())), &opt_exps(v, "abs"), v);
        }
    }
}

fn clip(rep: &mut Report, v: &Value) {
    let s = get_ints(v, "s");
    let (lo, hi) = (get_i64(v, "lo"), get_i64(v, "hi"));
    let key = format!("vclip|lo={lo},hi={hi}|s={s:?}");
    let want = opt_exps(v, "clip");
    let vf: Vec<f64> = enc_vec(&s);
    let vo: Vec<Option<f64>> = enc_vec(&s);
    cmp_seq(rep, "vclip", &key, "Vec<f64>", catch(|| drain(vf.titer().vclip(f64::enc(lo), f64::enc(hi)))), &want, v);
    cmp_seq(rep, "vclip", &key, "Vec<Option<f64>>", catch(|| drain(vo.titer().vclip(<Option<f64>>::enc(lo), <Option<f64>>::enc(hi)))), &want, v);
    let voi: Vec<Option<i32>> = enc_vec(&s);
    cmp_seq(rep, "vclip", &key, "Vec<Option<i32>>", catch(|| drain(voi.titer().vclip(<Option<i32>>::enc(lo), <Option<i32>>::enc(hi)))), &want, v);
    if !has_null(&s) && lo != NULL && hi != NULL {
        let vi: Vec<i32> = enc_vec(&s);
        cmp_seq(rep, "vclip", &key, "Vec<i32>", catch(|| drain(vi.titer().vclip(lo as i32, hi as i32))), &want, v);
    }
}

fn uniq(rep: &mut Report, v: &Value) {
    let s = get_ints(v, "s");
    let skey = format!("s={s:?}");
    let vf: Vec<f64> = enc_vec(&s);
    let vo: Vec<Option<i32>> = enc_vec(&s);
    let firsts: Vec<Exp> = get_ints(v, "firsts").into_iter().map(Exp::Int).collect();
    let lasts: Vec<Exp> = get_ints(v, "lasts").into_iter().map(Exp::Int).collect();
    let vals: Vec<Exp> = get_ints(v, "vals").into_iter().map(Exp::Int).collect();
    let k = |f: &str| format!("{f}|{skey}");
    cmp_seq(rep, "vsorted_unique_idx", &k("vsorted_unique_idx(First)"), "Vec<f64>", catch(|| drain(vf.titer().vsorted_unique_idx(Keep::First))), &firsts, v);
    cmp_seq(rep, "vsorted_unique_idx", &k("vsorted_unique_idx(Last)"), "Vec<f64>", catch(|| drain(vf.titer().vsorted_unique_idx(Keep::Last))), &lasts, v);
    cmp_seq(rep, "vsorted_unique_idx", &k("vsorted_unique_idx(First)"), "Vec<Option<i32>>", catch(|| drain(vo.titer().vsorted_unique_idx(Keep::First))), &firsts, v);
    cmp_seq(rep, "vsorted_unique_idx", &k("vsorted_unique_idx(Last)"), "Vec<Option<i32>>", catch(|| drain(vo.titer().vsorted_unique_idx(Keep::Last))), &lasts, v);
    cmp_seq(rep, "vsorted_unique", &k("vsorted_unique"), "Vec<f64>", catch(|| drain(vf.titer().vsorted_unique())), &vals, v);
    cmp_seq(rep, "vsorted_unique", &k("vsorted_unique"), "Vec<Option<i32>>", catch(|| drain(vo.titer().vsorted_unique())), &vals, v);
    if !has_null(&s) {
        let vi: Vec<i32> = enc_vec(&s);
        cmp_seq(rep, "vsorted_unique_idx", &k("vsorted_unique_idx(Last)"), "Vec<i32>", catch(|| drain(vi.titer().vsorted_unique_idx(Keep::Last))), &lasts, v);
    }
}

fn cut(rep: &mut Report, v: &Value) {
    let s = get_ints(v, "s");
    let bins = get_ints(v, "bins");
    let nl = get_i64(v, "nlabels") as usize;
    let right = v["right"].as_bool().unwrap();
    let bounds = v["bounds"].as_bool().unwrap();
    let call_ok = v["call_ok"].as_bool().unwrap();
    let exp = get_ints(v, "exp");
    let key = format!("vcut|bins={bins:?},labels={nl},right={right},bounds={bounds}");
    let site = format!("vcut|right={right},bounds={bounds}");

    // element type f64 with f64 labels (null label = NaN)
    {
        let vals: Vec<f64> = s.iter().map(|x| enc_f(*x)).collect();
        let b: Vec<f64> = bins.iter().map(|x| enc_f(*x)).collect();
        let labels: Vec<f64> = (0..nl).map(|i| 100.0 + i as f64).collect();
        let r = catch(|| {
            vals.titer().vcut(&b, &labels, right, bounds).map(|it| it.map(|x| x.map_err(|e| e.to_string())).collect::<Vec<Result<f64, String>>>())
        });
        judge_cut(rep, &site, &key, "f64 values, f64 labels", r, call_ok, &s, &exp, |x: &f64| if x.is_nan() { -2 } else { *x as i64 - 100 }, v);
    }
    // a label series that holds a null itself (first / last label): values of that bin get the null
    // label, which is a result - an error is for values outside all intervals only
    if nl >= 1 {
        for (field, nulllab) in [("exp_null_first", 0usize), ("exp_null_last", nl - 1)] {
            let expn = get_ints(v, field);
            let vals: Vec<f64> = s.iter().map(|x| enc_f(*x)).collect();
            let b: Vec<f64> = bins.iter().map(|x| enc_f(*x)).collect();
            let labels: Vec<f64> = (0..nl).map(|i| if i == nulllab { f64::NAN } else { 100.0 + i as f64 }).collect();
            let r = catch(|| {
                vals.titer().vcut(&b, &labels, right, bounds).map(|it| it.map(|x| x.map_err(|e| e.to_string())).collect::<Vec<Result<f64, String>>>())
            });
            judge_cut(rep, &site, &format!("{key},null label {nulllab}"), "f64 values, f64 labels (one null)", r, call_ok, &s, &expn,
                |x: &f64| if x.is_nan() { -2 } else { *x as i64 - 100 }, v);
            let labels: Vec<Option<i32>> = (0..nl).map(|i| if i == nulllab { None } else { Some(100 + i as i32) }).collect();
            let r = catch(|| {
                vals.titer().vcut(&b, &labels, right, bounds).map(|it| it.map(|x| x.map_err(|e| e.to_string())).collect::<Vec<Result<Option<i32>, String>>>())
            });
            judge_cut(rep, &site, &format!("{key},null label {nulllab}"), "f64 values, Option<i32> labels (one null)", r, call_ok, &s, &expn,
                |x: &Option<i32>| x.map(|y| y as i64 - 100).unwrap_or(-2), v);
        }
    }
    // element type i32 with Option<i32> labels (null label = None); no null values in an i32 series
    {
        let idx: Vec<usize> = (0..s.len()).filter(|i| s[*i] != NULL).collect();
        let vals: Vec<i32> = idx.iter().map(|i| match s[*i] { TMIN => i32::MIN, TMAX => i32::MAX, x => x as i32 }).collect();
        let b: Vec<i32> = bins.iter().map(|x| match *x { TMIN => i32::MIN, TMAX => i32::MAX, v => v as i32 }).collect();
        let labels: Vec<Option<i32>> = (0..nl).map(|i| Some(100 + i as i32)).collect();
        let s2: Vec<i64> = idx.iter().map(|i| s[*i]).collect();
        let e2: Vec<i64> = idx.iter().map(|i| exp[*i]).collect();
        let r = catch(|| {
            vals.titer().vcut(&b, &labels, right, bounds).map(|it| it.map(|x| x.map_err(|e| e.to_string())).collect::<Vec<Result<Option<i32>, String>>>())
        });
        judge_cut(rep, &site, &key, "i32 values, Option<i32> labels", r, call_ok, &s2, &e2, |x: &Option<i32>| x.map(|y| y as i64 - 100).unwrap_or(-2), v);
    }
    // optional values: Option<f64> with f64 labels
    {
        let vals: Vec<Option<f64>> = s.iter().map(|x| if *x == NULL { None } else { Some(enc_f(*x)) }).collect();
        let b: Vec<Option<f64>> = bins.iter().map(|x| Some(enc_f(*x))).collect();
        let labels: Vec<f64> = (0..nl).map(|i| 100.0 + i as f64).collect();
        let r = catch(|| {
            vals.titer().vcut(&b, &labels, right, bounds).map(|it| it.map(|x| x.map_err(|e| e.to_string())).collect::<Vec<Result<f64, String>>>())
        });
        judge_cut(rep, &site, &key, "Option<f64> values, f64 labels", r, call_ok, &s, &exp, |x: &f64| if x.is_nan() { -2 } else { *x as i64 - 100 }, v);
    }
}

#[allow(clippy::too_many_arguments)]
fn judge_cut<L>(rep: &mut Report, site: &str, key: &str, cell: &str, r: Result<TResult<Vec<Result<L, String>>>, String>, call_ok: bool,
                s: &[i64], exp: &[i64], dec: impl Fn(&L) -> i64, case: &Value) {
    rep.cells += 1;
    let f = "vcut";
    match r {
        Err(p) => rep.mismatch(f, site, key, cell, &format!("panicked: {p}"), case),
        Ok(Err(_)) if !call_ok => rep.ok(f, 0.0),
        Ok(Err(e)) => rep.mismatch(f, site, key, cell, &format!("call rejected although the label count matches: {e}"), case),
        Ok(Ok(_)) if !call_ok => rep.mismatch(f, site, key, cell, "call accepted although the label count does not match", case),
        Ok(Ok(items)) => {
            if items.len() != s.len() {
                rep.mismatch(f, site, key, cell, &format!("{} results for {} values", items.len(), s.len()), case);
                return;
            }
            for (i, (g, e)) in items.iter().zip(exp).enumerate() {
                let val = match s[i] { NULL => "null".to_string(), TMIN => "MIN".to_string(), TMAX => "MAX".to_string(), x => x.to_string() };
                let ok = match (g, *e) {
                    (Err(_), -1) => true,
                    (Ok(l), e) if e != -1 => dec(l) == e,
                    _ => false,
                };
                if !ok {
                    let got = match g { Err(e) => format!("Err({e})"), Ok(l) => format!("label {}", dec(l)) };
                    let wants = match *e { -1 => "an error".to_string(), -2 => "the null label".to_string(), k => format!("label {k}") };
                    rep.mismatch(f, site, &format!("{key}|value={val}"), cell, &format!("value {val}: got {got}, want {wants}"), case);
                    return;
                }
            }
            rep.ok(f, 0.0);
        },
    }
}

/// C06 for the lagging operations with n >= 0: the result on every prefix is bit-for-bit the
/// prefix of the result on the whole series
pub fn lag_prefix(args: &Args) {
    let cases = read_ndjson(args.req("in"));
    let mut rep = Report::new(args.get("prop").unwrap_or("C06"), args.req("out"));
    for v in cases {
        let v = &v;
        if get_str(v, "op") != "lag" {
            continue;
        }
        let s = get_ints(v, "s");
        let n_raw = get_i64(v, "n");
        if n_raw < 0 {
            continue;
        }
        let n = lag_of(n_raw);
        let fill = get_i64(v, "fill");
        rep.cases += 1;
        if rep.cases % 2000 == 1 {
            rep.sample(json!({"op": "lag-prefix-law", "s": s, "n": n, "fill": fill}));
        }
        let fo = if fill == NULL { None } else { Some(fill as f64) };
        let ff = f64::enc(fill);
        let run = |name: &str, xs: &[i64]| -> Result<Vec<u64>, String> {
            let vf: Vec<f64> = enc_vec(xs);
            catch(|| match name {
                "shift" => drain(vf.titer().shift(n, ff)).1.iter().map(|x| x.bits()).collect(),
                "vshift" => drain(vf.titer().vshift(n, fo)).1.iter().map(|x| x.bits()).collect(),
                "vdiff" => drain(vf.vdiff(n, fo)).1.iter().map(|x| x.bits()).collect(),
                _ => drain(vf.vpct_change(n)).1.iter().map(|x| x.bits()).collect(),
            })
        };
        for name in ["shift", "vshift", "vdiff", "vpct_change"] {
            let key = format!("{name}|n={n},fill={fill}|s={s:?}");
            rep.cells += 1;
            let whole = match run(name, &s) {
                Ok(w) => w,
                Err(e) => {
                    rep.mismatch(name, name, &key, "Vec<f64>", &format!("panicked on the whole series: {e}"), v);
                    continue;
                },
            };
            let mut bad = None;
            for k in 0..s.len() {
                match run(name, &s[..k]) {
                    Err(e) => {
                        bad = Some(format!("panicked on the prefix of length {k}: {e}"));
                        break;
                    },
                    Ok(p) => {
                        if p.len() != k {
                            bad = Some(format!("prefix of length {k} gave {} outputs", p.len()));
                            break;
                        }
                        if let Some(i) = (0..k.min(whole.len())).find(|&i| p[i] != whole[i]) {
                            bad = Some(format!("output {i} of the prefix of length {k} differs from the whole-series output"));
                            break;
                        }
                    },
                }
            }
            match bad {
                None => rep.ok(name, 0.0),
                Some(d) => rep.mismatch(name, name, &key, "Vec<f64>", &d, v),
            }
        }
    }
    rep.finish();
}
