//! Conformance harness for the mapping operations (C13, C14, lag part of C06, map part of C08).
mod mapops;

use tvh_common::*;

fn main() {
    guarded_main(run);
}

fn run() {
    let args = Args::from_env();
    match args.cmd() {
        "replay-map" => mapops::replay(&args),
        "replay-lag-prefix" => mapops::lag_prefix(&args),
        other => tool_error(&format!("unknown command {other:?}")),
    }
}
