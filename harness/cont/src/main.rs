//! Conformance harness for C07: every representation the specification enumerates is built as
//! the REAL container; its accessors must describe the logical sequence, and every function
//! family must give bit-identical results on every representation, output container and path.
use std::collections::VecDeque;
use std::sync::Arc;

use serde_json::Value;
use tevec::export::ndarray::{Array1, ArrayView1, s};
use tevec::prelude::*;
use tvh_common::*;

fn bits(x: f64) -> u64 {
    if x.is_nan() { u64::MAX } else { x.to_bits() }
}
fn obits<T: IsNone<Inner = f64>>(x: T) -> u64 {
    x.to_opt().map(bits).unwrap_or(u64::MAX)
}

pub trait SliceItems<T> {
    fn items(self) -> Vec<T>;
}
impl<T: Clone> SliceItems<T> for &[T] {
    fn items(self) -> Vec<T> {
        self.to_vec()
    }
}
impl<T: Clone> SliceItems<T> for std::collections::vec_deque::Iter<'_, T> {
    fn items(self) -> Vec<T> {
        self.cloned().collect()
    }
}
impl<T: Clone> SliceItems<T> for ArrayView1<'_, T> {
    fn items(self) -> Vec<T> {
        self.iter().cloned().collect()
    }
}
impl<T: Clone> SliceItems<Option<T>> for Vec<Option<T>> {
    fn items(self) -> Vec<Option<T>> {
        self
    }
}
#[cfg(feature = "pl")]
impl SliceItems<Option<f64>> for tevec::export::polars::prelude::Float64Chunked {
    fn items(self) -> Vec<Option<f64>> {
        self.into_iter().collect()
    }
}

/// the accessors of one container against the logical sequence (a panic of an accessor is data)
fn accessors<'a, T, V>(v: &'a V, logical: &[u64], contiguous: Option<bool>) -> Result<(), String>
where
    T: IsNone<Inner = f64> + Clone + Cast<f64> + 'a,
    V: Vec1View<T> + ?Sized,
    V::SliceOutput<'a>: SliceItems<T>,
{
    match catch(|| accessors_inner(v, logical, contiguous)) {
        Ok(r) => r,
        Err(p) => Err(format!("an accessor panicked: {p}")),
    }
}

fn accessors_inner<'a, T, V>(v: &'a V, logical: &[u64], contiguous: Option<bool>) -> Result<(), String>
where
    T: IsNone<Inner = f64> + Clone + Cast<f64> + 'a,
    V: Vec1View<T> + ?Sized,
    V::SliceOutput<'a>: SliceItems<T>,
{
    let n = logical.len();
    if v.len() != n {
        return Err(format!("len() = {}, logical length {n}", v.len()));
    }
    if v.is_empty() != (n == 0) {
        return Err("is_empty() disagrees with len()".into());
    }
    for i in 0..n + 2 {
        match v.get(i) {
            Ok(x) if i < n && obits(x.clone()) == logical[i] => {},
            Err(_) if i >= n => {},
            Ok(x) => return Err(format!("get({i}) = {:?}-bits, logical {:?}", obits(x), logical.get(i))),
            Err(e) => return Err(format!("get({i}) failed inside the sequence: {e}")),
        }
        let vg = v.vget(i).map(bits).unwrap_or(u64::MAX);
        let want = if i < n { logical[i] } else { u64::MAX };
        if vg != want {
            return Err(format!("vget({i}) disagrees with the logical sequence"));
        }
    }
    let fwd: Vec<u64> = v.titer().map(obits).collect();
    if fwd != logical {
        return Err(format!("forward iteration yields {fwd:?}, logical {logical:?}"));
    }
    let back: Vec<u64> = v.titer().rev().map(obits).collect();
    if back.iter().rev().cloned().collect::<Vec<_>>() != logical {
        return Err("backward iteration disagrees with the logical sequence".to_string());
    }
    // derived views of the same sequence (Containers.tla AUvGet / AToOptIter): element and iteration as
    // options, and the casting iterators
    let nullbits = bits(f64::NAN);
    let as_opt = |b: u64| if b == nullbits { None } else { Some(b) };
    for i in 0..n {
        if unsafe { v.uvget(i) }.map(bits) != as_opt(logical[i]) {
            return Err(format!("uvget({i}) disagrees with the logical sequence"));
        }
    }
    let oi: Vec<Option<u64>> = v.to_opt_iter().map(|x| x.map(bits)).collect();
    if oi != logical.iter().map(|b| as_opt(*b)).collect::<Vec<_>>() {
        return Err(format!("to_opt_iter() yields {oi:?}, logical {logical:?}"));
    }
    let ic: Vec<u64> = v.iter_cast::<f64>().map(|x| if x.is_nan() { nullbits } else { bits(x) }).collect();
    if ic != logical {
        return Err(format!("iter_cast::<f64>() yields {ic:?}, logical {logical:?}"));
    }
    let oc: Vec<Option<u64>> = v.opt_iter_cast::<f64>().map(|x| x.map(bits)).collect();
    if oc != oi {
        return Err(format!("opt_iter_cast::<f64>() yields {oc:?}, to_opt_iter() {oi:?}"));
    }
    let (lo, up) = v.titer().size_hint();
    if lo != n || up != Some(n) {
        return Err(format!("iterator announces ({lo}, {up:?}) for {n} elements"));
    }
    for a in 0..=n {
        for b in a..=n {
            let sl: Vec<u64> = v.slice(a, b).map_err(|e| format!("slice({a},{b}): {e}"))?.items().into_iter().map(obits).collect();
            if sl != logical[a..b] {
                return Err(format!("slice({a},{b}) yields {sl:?}, logical {:?}", &logical[a..b]));
            }
            let us: Vec<u64> = unsafe { v.uslice(a, b) }.map_err(|e| format!("uslice({a},{b}): {e}"))?.items().into_iter().map(obits).collect();
            if us != logical[a..b] {
                return Err(format!("uslice({a},{b}) disagrees with the logical sequence"));
            }
        }
    }
    for i in 0..n {
        if obits(unsafe { v.uget(i) }) != logical[i] {
            return Err(format!("uget({i}) disagrees with the logical sequence"));
        }
    }
    match (v.try_as_slice(), contiguous) {
        (None, Some(true)) => {}, // offering the view is optional
        (None, _) => {},
        (Some(sl), _) => {
            let got: Vec<u64> = sl.iter().cloned().map(obits).collect();
            if got != logical {
                return Err(format!("try_as_slice() offers {got:?} which is not the logical sequence {logical:?}"));
            }
        },
    }
    Ok(())
}

/// one representative of every function family, results as bit patterns
fn battery<T, V>(v: &V) -> Result<Vec<(&'static str, Vec<u64>)>, String>
where
    T: IsNone<Inner = f64> + Clone + Cast<f64> + PartialEq + PartialOrd,
    V: Vec1View<T>,
    f64: Cast<T::Cast<f64>>,
{
    let fb = |x: Vec<f64>| -> Vec<u64> { x.into_iter().map(bits).collect() };
    catch(|| {
        let mut o: Vec<(&'static str, Vec<u64>)> = Vec::new();
        // rolling
        o.push(("ts_vsum", fb(v.ts_vsum::<Vec<f64>, f64>(3, Some(1)))));
        o.push(("ts_vmean", fb(v.ts_vmean::<Vec<f64>, f64>(2, None))));
        o.push(("ts_vewm", fb(v.ts_vewm::<Vec<f64>, f64>(3, Some(1)))));
        o.push(("ts_vwma", fb(v.ts_vwma::<Vec<f64>, f64>(3, Some(2)))));
        o.push(("ts_vstd", fb(v.ts_vstd::<Vec<f64>, f64>(3, Some(2)))));
        o.push(("ts_vskew", fb(v.ts_vskew::<Vec<f64>, f64>(4, None))));
        o.push(("ts_vkurt", fb(v.ts_vkurt::<Vec<f64>, f64>(5, None))));
        o.push(("ts_vmin", fb(v.ts_vmin::<Vec<f64>, f64>(3, Some(1)))));
        o.push(("ts_vmax", fb(v.ts_vmax::<Vec<f64>, f64>(2, Some(1)))));
        o.push(("ts_vargmin", fb(v.ts_vargmin::<Vec<f64>, f64>(3, Some(1)))));
        o.push(("ts_vargmax", fb(v.ts_vargmax::<Vec<f64>, f64>(3, Some(2)))));
        o.push(("ts_vrank", fb(v.ts_vrank::<Vec<f64>, f64>(3, Some(1), true, false))));
        o.push(("ts_vzscore", fb(v.ts_vzscore::<Vec<f64>, f64>(3, Some(2)))));
        o.push(("ts_vminmaxnorm", fb(v.ts_vminmaxnorm::<Vec<f64>, f64>(3, Some(1)))));
        o.push(("ts_vreg", fb(v.ts_vreg::<Vec<f64>, f64>(3, Some(2)))));
        o.push(("ts_vreg_slope", fb(v.ts_vreg_slope::<Vec<f64>, f64>(4, Some(2)))));
        o.push(("ts_vcov", fb(v.ts_vcov::<Vec<f64>, f64, _, _>(v, 3, Some(2)))));
        o.push(("ts_vcorr", fb(v.ts_vcorr::<Vec<f64>, f64, _, _>(v, 3, Some(2)))));
        o.push(("ts_vregx_beta", fb(v.ts_vregx_beta::<Vec<f64>, f64, _, _>(v, 3, Some(2)))));
        o.push(("ts_vregx_resid_std", fb(v.ts_vregx_resid_std::<Vec<f64>, f64, _, _>(v, 3, Some(2)))));
        // custom drivers (window <= len: with a longer window what is reported as removed at the
        // final position is left open by C02 and legitimately differs between driver bodies)
        let mut acc = 0.0;
        let wn = |w: usize| w.min(v.len()).max(1);
        o.push(("rolling_apply", fb(v.rolling_apply::<Vec<f64>, f64, _>(wn(2), |rm, x| {
            acc += x.to_opt().unwrap_or(0.5) - rm.and_then(|r| r.to_opt()).unwrap_or(0.25);
            acc
        }, None).unwrap())));
        o.push(("rolling_apply_idx", fb(v.rolling_apply_idx::<Vec<f64>, f64, _>(wn(3), |st, end, x| {
            st.map(|s| s as f64).unwrap_or(-1.0) * 100.0 + end as f64 * 10.0 + x.to_opt().unwrap_or(0.5)
        }, None).unwrap())));
        // mapping
        o.push(("vshift(+1)", v.titer().vshift(1, None).map(obits).collect()));
        o.push(("vshift(-2)", v.titer().vshift(-2, None).map(obits).collect()));
        o.push(("ffill", v.titer().ffill(None).map(obits).collect()));
        o.push(("bfill", v.titer().bfill(None).map(obits).collect()));
        o.push(("vpct_change", v.vpct_change(1).map(bits).collect()));
        o.push(("vrank", fb(v.vrank::<Vec<f64>, f64>(false, false))));
        o.push(("vrank(pct,rev)", fb(v.vrank::<Vec<f64>, f64>(true, true))));
        o.push(("vpartition", v.vpartition(1, true, false).map(obits).collect()));
        {
            // arg-partition with sort: the selected VALUES are determined
            let idx: Vec<i32> = v.varg_partition(1, true, true).collect();
            o.push(("varg_partition(values)", idx.iter().map(|i| if *i < 0 { u64::MAX } else { obits(v.get(*i as usize).unwrap()) }).collect()));
        }
        // aggregation
        o.push(("count_valid", vec![v.titer().count_valid() as u64]));
        o.push(("vsum", vec![v.titer().vsum().map(bits).unwrap_or(u64::MAX)]));
        o.push(("vmean", vec![bits(v.titer().vmean())]));
        o.push(("vstd", vec![bits(v.titer().vstd(2))]));
        o.push(("vskew", vec![bits(v.titer().vskew(3))]));
        o.push(("vkurt", vec![bits(v.titer().vkurt(4))]));
        o.push(("vmin", vec![v.titer().vmin().map(bits).unwrap_or(u64::MAX)]));
        o.push(("vmax", vec![v.titer().vmax().map(bits).unwrap_or(u64::MAX)]));
        o.push(("vargmax", vec![v.titer().vargmax().map(|x| x as u64).unwrap_or(u64::MAX)]));
        o.push(("vquantile", vec![bits(v.vquantile(0.3, QuantileMethod::Linear).unwrap()), bits(v.vquantile(0.8, QuantileMethod::Lower).unwrap())]));
        o.push(("vmedian", vec![bits(v.vmedian())]));
        o.push(("vcorr(Spearman)", vec![obits(v.vcorr(v, Some(2), CorrMethod::Spearman))]));
        o.push(("half_life", vec![v.half_life(Some(2)) as u64]));
        o
    })
}

/// float-only functions (need arithmetic on the element type)
fn battery_f64<V: Vec1View<f64>>(v: &V) -> Result<Vec<(&'static str, Vec<u64>)>, String> {
    catch(|| {
        vec![
            ("vdiff(+1)", v.vdiff(1, None).map(bits).collect()),
            ("vdiff(-1)", v.vdiff(-1, Some(0.5)).map(bits).collect()),
            ("ts_sum", v.ts_sum::<Vec<f64>, f64>(3, Some(1)).into_iter().map(bits).collect()),
            ("ts_std", v.ts_std::<Vec<f64>, f64>(3, None).into_iter().map(bits).collect()),
            ("ts_ewm", v.ts_ewm::<Vec<f64>, f64>(3, None).into_iter().map(bits).collect()),
        ]
    })
}

/// output containers and paths for a few kernels: all must equal the Vec / returned result
fn out_matrix<T, V>(v: &V) -> Result<(), String>
where
    T: IsNone<Inner = f64> + Clone,
    V: Vec1View<T>,
{
    let r = catch(|| -> Result<(), String> {
        let base: Vec<u64> = v.ts_vstd::<Vec<f64>, f64>(3, Some(2)).into_iter().map(bits).collect();
        let n = v.len();
        let same = |name: &str, got: Vec<u64>| -> Result<(), String> {
            if got == base { Ok(()) } else { Err(format!("ts_vstd into {name} differs from the returned Vec<f64>")) }
        };
        same("VecDeque<f64>/ret", v.ts_vstd::<VecDeque<f64>, f64>(3, Some(2)).into_iter().map(bits).collect())?;
        same("Array1<f64>/ret", v.ts_vstd::<Array1<f64>, f64>(3, Some(2)).into_iter().map(bits).collect())?;
        same("Vec<Option<f64>>/ret", v.ts_vstd::<Vec<Option<f64>>, Option<f64>>(3, Some(2)).into_iter().map(|x| x.map(bits).unwrap_or(u64::MAX)).collect())?;
        {
            let mut buf = Vec::<f64>::uninit(n);
            let r = v.ts_vstd_to::<Vec<f64>, f64>(3, Some(2), Some(Vec::<f64>::uninit_ref_mut(&mut buf)));
            if r.is_some() {
                return Err("a caller-buffer call returned a container".into());
            }
            same("Vec<f64>/to", unsafe { buf.assume_init() }.into_iter().map(bits).collect())?;
        }
        {
            let mut buf = VecDeque::<f64>::uninit(n);
            v.ts_vstd_to::<VecDeque<f64>, f64>(3, Some(2), Some(VecDeque::<f64>::uninit_ref_mut(&mut buf)));
            same("VecDeque<f64>/to", unsafe { buf.assume_init() }.into_iter().map(bits).collect())?;
        }
        {
            let mut buf = Array1::<f64>::uninit(n);
            v.ts_vstd_to::<Array1<f64>, f64>(3, Some(2), Some(<Array1<f64> as Vec1<f64>>::uninit_ref_mut(&mut buf)));
            same("Array1<f64>/to", unsafe { buf.assume_init() }.into_iter().map(bits).collect())?;
        }
        // a fallible mapping (vcut, one value outside every bin) collected into each container:
        // the same Ok / Err outcome and the same labels whatever the container
        {
            let edges: Vec<T> = [-1.0e9, 0.0, 1.0e9].iter().map(|x| T::from_inner(*x)).collect();
            let labels = [1.0_f64, 2.0];
            let probe = |with_outlier: bool| -> (Result<Vec<u64>, String>, Result<Vec<u64>, String>, Result<Vec<u64>, String>, Result<Vec<u64>, String>) {
                let mk = || v.titer().map(move |x| if with_outlier && x.clone().to_opt().is_some() { T::from_inner(f64::MAX) } else { x });
                let a = mk().vcut(&edges, &labels, true, false).and_then(|it| it.try_collect_vec1::<Vec<f64>>()).map(|o| o.into_iter().map(bits).collect()).map_err(|e| e.to_string());
                let b = mk().vcut(&edges, &labels, true, false).and_then(|it| it.try_collect_vec1::<VecDeque<f64>>()).map(|o| o.into_iter().map(bits).collect()).map_err(|e| e.to_string());
                let c = mk().vcut(&edges, &labels, true, false).and_then(|it| it.try_collect_vec1::<Array1<f64>>()).map(|o| o.into_iter().map(bits).collect()).map_err(|e| e.to_string());
                let d = mk().vcut(&edges, &labels, true, false).and_then(|it| it.try_collect_trusted_vec1::<Array1<f64>>()).map(|o| o.into_iter().map(bits).collect()).map_err(|e| e.to_string());
                (a, b, c, d)
            };
            for with_outlier in [false, true] {
                let (a, b, c, d) = probe(with_outlier);
                for (name, r) in [("VecDeque<f64>", &b), ("Array1<f64>", &c), ("Array1<f64> (trusted)", &d)] {
                    match (&a, r) {
                        (Ok(x), Ok(y)) if x == y => {},
                        (Err(_), Err(_)) => {},
                        _ => return Err(format!("vcut collected into {name} gives {:?}, into Vec<f64> {:?}", r.as_ref().map(|x| x.len()), a.as_ref().map(|x| x.len()))),
                    }
                }
            }
        }
        // index driver into other containers
        let b2: Vec<u64> = v.ts_vargmax::<Vec<f64>, f64>(3, Some(1)).into_iter().map(bits).collect();
        let g2: Vec<u64> = v.ts_vargmax::<VecDeque<f64>, f64>(3, Some(1)).into_iter().map(bits).collect();
        if b2 != g2 {
            return Err("ts_vargmax into VecDeque<f64> differs from Vec<f64>".into());
        }
        Ok(())
    });
    match r {
        Ok(x) => x,
        Err(p) => Err(format!("panicked: {p}")),
    }
}

const FILL: f64 = -777.015625;

/// The mutable accessors of one container (Containers.tla SetOneOK, ApplyMutWith): checked
/// get_mut, the mutable contiguous view, apply_mut_with.  `vals` is the logical content.
fn mut_accessors<'a, V: Vec1Mut<'a, f64>>(v: &mut V, vals: &[f64], contiguous: bool) -> Result<(), String> {
    let r = catch(move || -> Result<(), String> {
        let n = vals.len();
        let mut model: Vec<f64> = vals.to_vec();
        let same = |v: &V, model: &[f64], what: &str| -> Result<(), String> {
            let got: Vec<u64> = (0..model.len()).map(|i| v.get(i).map(bits).unwrap_or(1)).collect();
            let want: Vec<u64> = model.iter().map(|x| bits(*x)).collect();
            if got == want && v.len() == model.len() { Ok(()) } else { Err(format!("after {what} the container reads {got:?}, the logical sequence is {want:?}")) }
        };
        for i in n..n + 2 {
            if v.get_mut(i).is_some() {
                return Err(format!("get_mut({i}) is present beyond the length {n}"));
            }
        }
        for i in 0..n {
            match v.get_mut(i) {
                None => return Err(format!("get_mut({i}) is absent inside the sequence")),
                Some(slot) => {
                    if bits(*slot) != bits(model[i]) {
                        return Err(format!("get_mut({i}) points at another element"));
                    }
                    *slot = 5000.0 + i as f64;
                    model[i] = 5000.0 + i as f64;
                },
            }
            same(v, &model, &format!("an assignment through get_mut({i})"))?;
        }
        match v.try_as_slice_mut() {
            None => {},
            Some(sl) => {
                if !contiguous && n > 1 {
                    let g: Vec<u64> = sl.iter().map(|x| bits(*x)).collect();
                    if g != model.iter().map(|x| bits(*x)).collect::<Vec<_>>() {
                        return Err("try_as_slice_mut() offers memory that is not the logical sequence".into());
                    }
                }
                if sl.len() != n {
                    return Err(format!("try_as_slice_mut() has {} elements, the sequence {n}", sl.len()));
                }
                for (k, x) in sl.iter_mut().enumerate() {
                    if bits(*x) != bits(model[k]) {
                        return Err(format!("try_as_slice_mut()[{k}] is not logical element {k}"));
                    }
                    *x = 7000.0 + k as f64;
                    model[k] = 7000.0 + k as f64;
                }
            },
        }
        same(v, &model, "writing through try_as_slice_mut()")?;
        let other: Vec<f64> = (0..n).map(|i| 0.5 + i as f64).collect();
        match v.apply_mut_with(&other, |a: &mut f64, b: f64| *a = *a * 2.0 + b) {
            Err(e) => return Err(format!("apply_mut_with rejected an operand of equal length: {e}")),
            Ok(()) => {
                for i in 0..n {
                    model[i] = model[i] * 2.0 + other[i];
                }
            },
        }
        same(v, &model, "apply_mut_with")?;
        let longer: Vec<f64> = (0..n + 1).map(|i| i as f64).collect();
        if v.apply_mut_with(&longer, |a: &mut f64, b: f64| *a += b).is_ok() {
            return Err("apply_mut_with accepted an operand of another length".into());
        }
        same(v, &model, "a rejected apply_mut_with")?;
        Ok(())
    });
    match r {
        Ok(x) => x,
        Err(p) => Err(format!("panicked: {p}")),
    }
}

/// sort_unstable_by on an owned container (Containers.tla SortOK): the logical sequence becomes its
/// sorted permutation, whatever the layout (through the contiguous view or by copy and write-back)
fn sort_in_place<V>(v: &mut V, want_desc: &[f64], rank: &std::collections::HashMap<u64, i64>) -> Result<(), String>
where
    V: Vec1<f64> + for<'a> Vec1Mut<'a, f64>,
{
    let r = catch(move || -> Result<(), String> {
        // descending in the specification's own order of the payload (the float coding of the payload is
        // deliberately not monotone)
        v.sort_unstable_by(|a, b| rank[&bits(*b)].cmp(&rank[&bits(*a)])).map_err(|e| format!("sort_unstable_by failed: {e}"))?;
        let got: Vec<u64> = (0..v.len()).map(|i| v.get(i).map(bits).unwrap_or(1)).collect();
        let want: Vec<u64> = want_desc.iter().map(|x| bits(*x)).collect();
        if got != want || v.len() != want.len() {
            return Err(format!("after sort_unstable_by(descending) the container reads {:?}, want {want_desc:?}",
                (0..v.len()).map(|i| v.get(i).unwrap_or(f64::NAN)).collect::<Vec<_>>()));
        }
        let it: Vec<u64> = v.titer().map(bits).collect();
        if it != want {
            return Err("after sort_unstable_by iteration and get disagree".into());
        }
        Ok(())
    });
    match r {
        Ok(x) => x,
        Err(p) => Err(format!("panicked: {p}")),
    }
}

/// The representation as a place results are WRITTEN to (Containers.tla, WriteCell): a
/// caller-supplied ring with this capacity and head, filled through the `*_to` twins.
fn out_as_ring(vals: &Vec<f64>, cap: usize, head: usize) -> Result<(), String> {
    use std::mem::MaybeUninit;
    let r = catch(|| -> Result<(), String> {
        let n = vals.len();
        let base: Vec<u64> = vals.ts_vstd::<Vec<f64>, f64>(3, Some(2)).into_iter().map(bits).collect();
        let base2: Vec<u64> = vals.ts_vrank::<Vec<f64>, f64>(3, Some(1), false, false).into_iter().map(bits).collect();
        for which in 0..2 {
            let mut d: VecDeque<MaybeUninit<f64>> = VecDeque::with_capacity(cap.max(n));
            let real_cap = d.capacity().max(1);
            for _ in 0..(head % real_cap) {
                d.push_back(MaybeUninit::new(FILL));
                d.pop_front();
            }
            for _ in 0..n {
                d.push_back(MaybeUninit::new(FILL));
            }
            let ret = if which == 0 {
                vals.ts_vstd_to::<VecDeque<f64>, f64>(3, Some(2), Some(&mut d))
            } else {
                vals.ts_vrank_to::<VecDeque<f64>, f64>(3, Some(1), false, false, Some(&mut d))
            };
            if ret.is_some() {
                return Err("a caller-buffer call returned a container".into());
            }
            let got: Vec<u64> = d.into_iter().map(|c| bits(unsafe { c.assume_init() })).collect();
            if got != *(if which == 0 { &base } else { &base2 }) {
                return Err(format!("{} written into the supplied ring differs from the returned Vec<f64>", if which == 0 { "ts_vstd_to" } else { "ts_vrank_to" }));
            }
        }
        Ok(())
    });
    match r {
        Ok(x) => x,
        Err(p) => Err(format!("panicked: {p}")),
    }
}

/// ... and a caller-supplied strided / reversed view of a larger array; the cells of the array
/// that do not belong to the view must come back untouched.
fn out_as_view(vals: &Vec<f64>, bn: usize, off: isize, step: isize) -> Result<(), String> {
    use std::mem::MaybeUninit;
    let r = catch(|| -> Result<(), String> {
        let n = vals.len();
        let base: Vec<u64> = vals.ts_vstd::<Vec<f64>, f64>(3, Some(2)).into_iter().map(bits).collect();
        let base2: Vec<u64> = vals.ts_vrank::<Vec<f64>, f64>(3, Some(1), false, false).into_iter().map(bits).collect();
        for which in 0..2 {
            let mut arr: Array1<MaybeUninit<f64>> = Array1::from_shape_fn(bn, |_| MaybeUninit::new(FILL));
            {
                let view = if n == 0 {
                    arr.slice_mut(s![0..0])
                } else if step > 0 {
                    let end = off + (n as isize - 1) * step + 1;
                    arr.slice_mut(s![off..end;step])
                } else {
                    let lo = off + (n as isize - 1) * step;
                    arr.slice_mut(s![lo..off + 1;step])
                };
                let ret = if which == 0 {
                    vals.ts_vstd_to::<Array1<f64>, f64>(3, Some(2), Some(view))
                } else {
                    vals.ts_vrank_to::<Array1<f64>, f64>(3, Some(1), false, false, Some(view))
                };
                if ret.is_some() {
                    return Err("a caller-buffer call returned a container".into());
                }
            }
            let all: Vec<f64> = arr.iter().map(|c| unsafe { c.assume_init() }).collect();
            let live: Vec<usize> = (0..n).map(|i| (off + i as isize * step) as usize).collect();
            for (p, x) in all.iter().enumerate() {
                if !live.contains(&p) && bits(*x) != bits(FILL) {
                    return Err(format!("cell {p} of the underlying array is outside the supplied view (cells {live:?}) and was overwritten"));
                }
            }
            let got: Vec<u64> = live.iter().map(|p| bits(all[*p])).collect();
            if got != *(if which == 0 { &base } else { &base2 }) {
                return Err(format!("{} written into the supplied view differs from the returned Vec<f64>", if which == 0 { "ts_vstd_to" } else { "ts_vrank_to" }));
            }
        }
        Ok(())
    });
    match r {
        Ok(x) => x,
        Err(p) => Err(format!("panicked: {p}")),
    }
}

fn enc_logical(l: &[i64]) -> (Vec<f64>, Vec<u64>) {
    // payload values scaled so that statistics are not trivially integral
    let v: Vec<f64> = l.iter().map(|x| if *x == NULL { f64::NAN } else { (*x as f64) * 0.5 - 3.0 * ((*x % 3) as f64) }).collect();
    let b = v.iter().map(|x| bits(*x)).collect();
    (v, b)
}

struct Ctx<'a> {
    rep: &'a mut Report,
    case: &'a Value,
    key: String,
    reference: Vec<(&'static str, Vec<u64>)>,
    reference_f: Vec<(&'static str, Vec<u64>)>,
}

impl Ctx<'_> {
    fn judge(&mut self, cell: &str, what: &str, r: Result<(), String>) {
        self.rep.cells += 1;
        match r {
            Ok(()) => self.rep.ok(what, 0.0),
            Err(d) => self.rep.mismatch(what, &format!("{what}|{}", cell.split('(').next().unwrap_or(cell)), &format!("{what}|{}", self.key), cell, &d, self.case),
        }
    }
    fn compare(&mut self, cell: &str, got: Result<Vec<(&'static str, Vec<u64>)>, String>, float_only: bool) {
        let reference = if float_only { &self.reference_f } else { &self.reference };
        match got {
            Err(p) => {
                self.rep.cells += 1;
                self.rep.mismatch("functions", &format!("functions|{}", cell.split('(').next().unwrap_or(cell)), &format!("functions|{}", self.key), cell, &format!("panicked: {p}"), self.case);
            },
            Ok(g) => {
                for ((name, a), (_, b)) in g.iter().zip(reference.iter()) {
                    self.rep.cells += 1;
                    if a == b {
                        self.rep.ok(name, 0.0);
                    } else {
                        self.rep.mismatch(name, &format!("{name}|{}", cell.split('(').next().unwrap_or(cell)), &format!("{name}|{}", self.key), cell,
                            &format!("result differs from the Vec<f64> result: {:?} vs {:?}", a.iter().map(|x| f64::from_bits(*x)).collect::<Vec<_>>(), b.iter().map(|x| f64::from_bits(*x)).collect::<Vec<_>>()), self.case);
                    }
                }
            },
        }
    }
}

fn replay(args: &Args) {
    let cases = read_ndjson(args.req("in"));
    let mut rep = Report::new(args.get("prop").unwrap_or("C07"), args.req("out"));
    for v in cases {
        let v = &v;
        if get_str(v, "op") != "cont" {
            continue;
        }
        rep.cases += 1;
        if rep.cases % 200 == 1 {
            rep.sample(v.clone());
        }
        let kind = get_str(v, "rep");
        let par = get_ints(v, "par");
        let logical_i = get_ints(v, "logical");
        let contiguous = v["contiguous"].as_bool().unwrap();
        let (vals, lbits) = enc_logical(&logical_i);
        let sorted_desc: Vec<f64> = enc_logical(&get_ints(v, "sorted_desc")).0;
        let rank: std::collections::HashMap<u64, i64> = lbits.iter().cloned().zip(logical_i.iter().cloned()).collect();
        let key = format!("{kind}{par:?}|logical={logical_i:?}");
        let reference = battery::<f64, _>(&vals).unwrap_or_else(|p| tool_error(&format!("reference battery panicked on Vec<f64>: {p} ({key})")));
        let reference_f = battery_f64(&vals).unwrap_or_else(|p| tool_error(&format!("reference battery panicked: {p}")));
        let mut cx = Ctx { rep: &mut rep, case: v, key: key.clone(), reference, reference_f };
        match kind {
            "vec" => {
                cx.judge("Vec<f64>", "accessors", accessors::<f64, _>(&vals, &lbits, Some(true)));
                cx.judge("Vec<f64>", "outputs", out_matrix::<f64, _>(&vals));
                cx.judge("Vec<f64>", "mutable accessors", mut_accessors(&mut vals.clone(), &vals, true));
                cx.judge("Array1<f64>", "mutable accessors", mut_accessors(&mut Array1::from_vec(vals.clone()), &vals, true));
                cx.judge("Array1<f64>", "sort_unstable_by", sort_in_place(&mut Array1::from_vec(vals.clone()), &sorted_desc, &rank));
                cx.judge("Vec<f64>", "sort_unstable_by", sort_in_place(&mut vals.clone(), &sorted_desc, &rank));
                let sl: &[f64] = &vals;
                cx.judge("[f64]", "accessors", accessors::<f64, [f64]>(sl, &lbits, Some(true)));
                let arc = Arc::new(vals.clone());
                cx.judge("Arc<Vec<f64>>", "accessors", accessors::<f64, _>(&arc, &lbits, Some(true)));
                cx.compare("Arc<Vec<f64>>", battery::<f64, _>(&arc), false);
                cx.compare("Arc<Vec<f64>>", battery_f64(&arc), true);
                cx.judge("Arc<Vec<f64>>", "outputs", out_matrix::<f64, _>(&arc));
                macro_rules! arr {
                    ($($n:literal),*) => {$(
                        if vals.len() == $n {
                            let a: [f64; $n] = vals.clone().try_into().unwrap();
                            cx.judge(concat!("[f64; ", $n, "]"), "accessors", accessors::<f64, _>(&a, &lbits, None));
                            cx.compare(concat!("[f64; ", $n, "]"), battery::<f64, _>(&a), false);
                            cx.compare(concat!("[f64; ", $n, "]"), battery_f64(&a), true);
                        }
                    )*};
                }
                arr!(0, 1, 2, 3, 4, 5, 6);
                let ov = vals.opt();
                let ol: Vec<u64> = lbits.clone();
                cx.judge("OptIter<Vec<f64>>", "accessors", accessors::<Option<f64>, _>(&ov, &ol, None));
                cx.compare("OptIter<Vec<f64>>", battery::<Option<f64>, _>(&ov), false);
                cx.judge("OptIter<Vec<f64>>", "outputs", out_matrix::<Option<f64>, _>(&ov));
                let vopt: Vec<Option<f64>> = vals.iter().map(|x| if x.is_nan() { None } else { Some(*x) }).collect();
                cx.judge("Vec<Option<f64>>", "accessors", accessors::<Option<f64>, _>(&vopt, &lbits, Some(true)));
                cx.compare("Vec<Option<f64>>", battery::<Option<f64>, _>(&vopt), false);
            },
            "ring" => {
                let (cap, head) = (par[0] as usize, par[1] as usize);
                let mut d: VecDeque<f64> = VecDeque::with_capacity(cap);
                let real_cap = d.capacity().max(1);
                // rotate the ring: the write position advances by one per push/pop pair
                for _ in 0..(head % real_cap) {
                    d.push_back(0.0);
                    d.pop_front();
                }
                for x in &vals {
                    d.push_back(*x);
                }
                let wrapped = !d.as_slices().1.is_empty();
                let cell = format!("VecDeque<f64>(cap {real_cap}, head {head}, {})", if wrapped { "wrapped" } else { "contiguous" });
                cx.judge(&cell, "accessors", accessors::<f64, _>(&d, &lbits, Some(!wrapped)));
                cx.compare(&cell, battery::<f64, _>(&d), false);
                cx.compare(&cell, battery_f64(&d), true);
                cx.judge(&cell, "outputs", out_matrix::<f64, _>(&d));
                cx.judge(&format!("Vec<f64>->{cell} as caller buffer"), "written", out_as_ring(&vals, cap, head));
                cx.judge(&cell, "mutable accessors", mut_accessors(&mut d.clone(), &vals, !wrapped));
                cx.judge(&cell, "sort_unstable_by", sort_in_place(&mut d.clone(), &sorted_desc, &rank));
                let arc = Arc::new(d.clone());
                cx.compare(&format!("Arc<{cell}>"), battery::<f64, _>(&arc), false);
                // (the option view is not offered for VecDeque: its slice type is not iterable as TIter)
            },
            "strided" => {
                let (bn, off, step, n) = (par[0] as usize, par[1] as isize, par[2] as isize, par[3] as usize);
                // the base buffer carries the logical values at off + i*step and a filler elsewhere
                let mut base = vec![-777.25_f64; bn];
                for i in 0..n {
                    base[(off + i as isize * step) as usize] = vals[i];
                }
                let arr = Array1::from_vec(base);
                let view: ArrayView1<f64> = if n == 0 {
                    arr.slice(s![0..0])
                } else if step > 0 {
                    let end = off + (n as isize - 1) * step + 1;
                    arr.slice(s![off..end;step])
                } else {
                    let lo = off + (n as isize - 1) * step;
                    arr.slice(s![lo..off + 1;step])
                };
                if view.len() != n {
                    tool_error(&format!("harness built a view of length {} for {key}", view.len()));
                }
                let cell = format!("ArrayView1<f64>(step {step})");
                cx.judge(&cell, "accessors", accessors::<f64, _>(&view, &lbits, Some(contiguous)));
                cx.compare(&cell, battery::<f64, _>(&view), false);
                cx.compare(&cell, battery_f64(&view), true);
                cx.judge(&cell, "outputs", out_matrix::<f64, _>(&view));
                cx.judge(&format!("Vec<f64>->ArrayViewMut1<f64>(step {step}) as caller buffer"), "written", out_as_view(&vals, bn, off, step));
                {
                    let mut arr2 = arr.clone();
                    let mut vm = if n == 0 {
                        arr2.slice_mut(s![0..0])
                    } else if step > 0 {
                        let end = off + (n as isize - 1) * step + 1;
                        arr2.slice_mut(s![off..end;step])
                    } else {
                        let lo = off + (n as isize - 1) * step;
                        arr2.slice_mut(s![lo..off + 1;step])
                    };
                    cx.judge(&format!("ArrayViewMut1<f64>(step {step})"), "mutable accessors", mut_accessors(&mut vm, &vals, contiguous));
                }
                // the OWNED array of the same layout: slicing an owned array by move keeps the whole
                // buffer and the stride (a reversed or stepped owned array; `invert_axis`,
                // `slice_collapse` and `to_owned()` of a reversed view give the same kind of object)
                {
                    let moved: Array1<f64> = if n == 0 {
                        arr.clone().slice_move(s![0..0])
                    } else if step > 0 {
                        let end = off + (n as isize - 1) * step + 1;
                        arr.clone().slice_move(s![off..end;step])
                    } else {
                        let lo = off + (n as isize - 1) * step;
                        arr.clone().slice_move(s![lo..off + 1;step])
                    };
                    let cell = format!("Array1<f64>(owned, step {step})");
                    cx.judge(&cell, "accessors", accessors::<f64, _>(&moved, &lbits, Some(contiguous)));
                    cx.compare(&cell, battery::<f64, _>(&moved), false);
                    cx.compare(&cell, battery_f64(&moved), true);
                    cx.judge(&cell, "outputs", out_matrix::<f64, _>(&moved));
                    cx.judge(&cell, "mutable accessors", mut_accessors(&mut moved.clone(), &vals, contiguous));
                    cx.judge(&cell, "sort_unstable_by", sort_in_place(&mut moved.clone(), &sorted_desc, &rank));
                    let arc = Arc::new(moved);
                    cx.compare(&format!("Arc<{cell}>"), battery::<f64, _>(&arc), false);
                }
                {
                    // to_owned() copies a stepped view into standard layout but keeps the negative
                    // stride of a view that is contiguous in memory
                    let owned = view.to_owned();
                    let std_layout = owned.as_slice().is_some() || n == 0;
                    let cell = format!("Array1<f64>(to_owned of step {step})");
                    cx.judge(&cell, "accessors", accessors::<f64, _>(&owned, &lbits, Some(std_layout)));
                    cx.compare(&cell, battery::<f64, _>(&owned), false);
                    cx.judge(&cell, "outputs", out_matrix::<f64, _>(&owned));
                    let arc = Arc::new(owned);
                    cx.compare(&format!("Arc<{cell}>"), battery::<f64, _>(&arc), false);
                }
            },
            "chunked" => {
                #[cfg(feature = "pl")]
                {
                    use tevec::export::polars::prelude::*;
                    let (c1, c2) = (par[0] as usize, par[1] as usize);
                    let opt: Vec<Option<f64>> = vals.iter().map(|x| if x.is_nan() { None } else { Some(*x) }).collect();
                    let mut ca = Float64Chunked::from_slice_options("".into(), &opt[..c1]);
                    if c2 > c1 {
                        ca.append(&Float64Chunked::from_slice_options("".into(), &opt[c1..c2])).unwrap();
                    }
                    if opt.len() > c2 {
                        ca.append(&Float64Chunked::from_slice_options("".into(), &opt[c2..])).unwrap();
                    }
                    let cell = format!("Float64Chunked({} chunk(s))", ca.chunks().len());
                    cx.judge(&cell, "accessors", accessors::<Option<f64>, _>(&ca, &lbits, None));
                    cx.compare(&cell, battery::<Option<f64>, _>(&ca), false);
                    // Polars output containers: three separate matrix cells
                    for (cell2, r) in dyn_cells(&ca) {
                        cx.judge(cell2, "dynamic layer", r);
                    }
                    for (cell2, r) in polars_out(&ca, &vals) {
                        cx.rep.cells += 1;
                        match r {
                            Ok(()) => cx.rep.ok("outputs", 0.0),
                            Err(d) => {
                                // the call-site class of the failure is part of the site, so that a
                                // different failure in the same cell is a different site
                                let class = if d.contains("do not support set in given index") { "panic: uset unimplemented" }
                                            else if d.contains("panicked") { "panic" } else { "wrong result" };
                                let key = format!("outputs|{cell2}|{}", cx.key);
                                cx.rep.mismatch("outputs", &format!("outputs|{cell2}|{class}"), &key, cell2, &d, cx.case);
                            },
                        }
                    }
                }
                #[cfg(not(feature = "pl"))]
                {
                    // without the Polars feature the chunked representation is exercised through the
                    // option encoding only
                    let vopt: Vec<Option<f64>> = vals.iter().map(|x| if x.is_nan() { None } else { Some(*x) }).collect();
                    cx.compare("Vec<Option<f64>> (chunked stand-in)", battery::<Option<f64>, _>(&vopt), false);
                }
            },
            _ => {},
        }
    }
    rep.finish();
}

#[cfg(feature = "pl")]
fn polars_out(ca: &tevec::export::polars::prelude::Float64Chunked, vals: &Vec<f64>) -> Vec<(&'static str, Result<(), String>)> {
    use tevec::export::polars::prelude::*;
    let base: Vec<u64> = vals.ts_vsum::<Vec<f64>, f64>(2, Some(1)).into_iter().map(bits).collect();
    let flat = |r: Result<Result<(), String>, String>| match r {
        Ok(x) => x,
        Err(p) => Err(format!("panicked: {p}")),
    };
    let mut out = Vec::new();
    out.push(("Float64Chunked->Float64Chunked", flat(catch(|| {
        let o: Float64Chunked = ca.ts_vsum(2, Some(1));
        let got: Vec<u64> = o.into_iter().map(|x| x.map(bits).unwrap_or(u64::MAX)).collect();
        if got == base { Ok(()) } else { Err("ts_vsum differs from the Vec<f64> result".into()) }
    }))));
    out.push(("Float64Chunked->Vec<f64>", flat(catch(|| {
        let o: Vec<f64> = ca.ts_vsum(2, Some(1));
        if o.into_iter().map(bits).collect::<Vec<_>>() == base { Ok(()) } else { Err("ts_vsum differs from the Vec<f64> result".into()) }
    }))));
    out.push(("Float64Chunked->Float64Chunked (index driver)", flat(catch(|| {
        let b2: Vec<u64> = vals.ts_vargmax::<Vec<f64>, f64>(3, Some(1)).into_iter().map(bits).collect();
        let o: Float64Chunked = ca.ts_vargmax(3, Some(1));
        let got: Vec<u64> = o.into_iter().map(|x| x.map(bits).unwrap_or(u64::MAX)).collect();
        if got == b2 { Ok(()) } else { Err("ts_vargmax differs from the Vec<f64> result".into()) }
    }))));
    // fast-path input (Vec) -> Polars output
    out.push(("Vec<f64>(fast path)->Float64Chunked", flat(catch(|| {
        let o: Float64Chunked = vals.ts_vsum(2, Some(1));
        let got: Vec<u64> = o.into_iter().map(|x| x.map(bits).unwrap_or(u64::MAX)).collect();
        if got == base { Ok(()) } else { Err("ts_vsum differs from the Vec<f64> result".into()) }
    }))));
    // non-fast-path input (VecDeque) -> Polars output
    out.push(("VecDeque<f64>->Float64Chunked", flat(catch(|| {
        let d: VecDeque<f64> = vals.iter().cloned().collect();
        let o: Float64Chunked = d.ts_vsum(2, Some(1));
        let got: Vec<u64> = o.into_iter().map(|x| x.map(bits).unwrap_or(u64::MAX)).collect();
        if got == base { Ok(()) } else { Err("ts_vsum differs from the Vec<f64> result".into()) }
    }))));
    out
}

/// The dynamic layer (tea-dyn, tea-rolling/src/dynamic): a named, dtype-tagged Polars Series forwards to the
/// static kernel of its dtype (Containers.tla DynCall): same values as the static call on the extracted
/// column, the name and the dtype kept, an error - not a panic - for a dtype without kernels, and a second
/// operand of another dtype converted to the first one's.
#[cfg(feature = "pl")]
fn dyn_cells(ca: &tevec::export::polars::prelude::Float64Chunked) -> Vec<(&'static str, Result<(), String>)> {
    use tevec::export::polars::prelude::*;
    let flat = |r: Result<Result<(), String>, String>| match r {
        Ok(x) => x,
        Err(p) => Err(format!("panicked: {p}")),
    };
    let fb = |c: &Float64Chunked| -> Vec<u64> { c.into_iter().map(|x| x.map(bits).unwrap_or(u64::MAX)).collect() };
    let mut out = Vec::new();
    let ser = ca.clone().into_series().with_name("px".into());
    macro_rules! same_f64 {
        ($cell:expr, $dyn:ident, $stat:ident) => {
            out.push(($cell, flat(catch(|| {
                let d: Series = ser.$dyn(3, Some(2)).map_err(|e| format!("dynamic call failed: {e}"))?;
                if d.name().as_str() != "px" { return Err(format!("the name became {:?}", d.name())); }
                let dc = d.f64().map_err(|e| format!("the result is not a Float64 column: {e}"))?;
                let st: Float64Chunked = ca.$stat(3, Some(2));
                if fb(dc) != fb(&st) { return Err(format!("dynamic {} differs from the static {}", stringify!($dyn), stringify!($stat))); }
                Ok(())
            }))));
        };
    }
    same_f64!("Series(f64).ts_mean", ts_mean, ts_vmean);
    same_f64!("Series(f64).ts_ewm", ts_ewm, ts_vewm);
    same_f64!("Series(f64).ts_std", ts_std, ts_vstd);
    same_f64!("Series(f64).ts_skew", ts_skew, ts_vskew);
    same_f64!("Series(f64).ts_kurt", ts_kurt, ts_vkurt);
    same_f64!("Series(f64).ts_zscore", ts_zscore, ts_vzscore);
    // the integer dtypes forward to the kernels of their own dtype (the result stays in that dtype)
    out.push(("Series(i32).ts_mean / ts_zscore", flat(catch(|| {
        let vi: Vec<Option<i32>> = ca.into_iter().map(|x| x.map(|y| (y * 2.0) as i32)).collect();
        let ci = Int32Chunked::from_slice_options("qty".into(), &vi);
        let si = ci.clone().into_series();
        let d = si.ts_mean(3, Some(2)).map_err(|e| format!("dynamic call failed: {e}"))?;
        let st: Int32Chunked = ci.ts_vmean(3, Some(2));
        if d.name().as_str() != "qty" { return Err(format!("the name became {:?}", d.name())); }
        let dc = d.i32().map_err(|e| format!("the result is not an Int32 column: {e}"))?;
        if dc.into_iter().collect::<Vec<_>>() != st.into_iter().collect::<Vec<_>>() { return Err("dynamic ts_mean differs from the static ts_vmean on Int32".into()); }
        let d = si.ts_zscore(3, Some(2)).map_err(|e| format!("dynamic call failed: {e}"))?;
        let st: Int32Chunked = ci.ts_vzscore(3, Some(2));
        if d.i32().map_err(|e| e.to_string())?.into_iter().collect::<Vec<_>>() != st.into_iter().collect::<Vec<_>>() { return Err("dynamic ts_zscore differs from the static ts_vzscore on Int32".into()); }
        Ok(())
    }))));
    // a dtype without kernels is an error, not a panic
    out.push(("Series(bool).ts_mean", flat(catch(|| {
        let b = BooleanChunked::from_slice("flag".into(), &[true, false, true]).into_series();
        match b.ts_mean(2, Some(1)) { Err(_) => Ok(()), Ok(_) => Err("a boolean column was accepted".into()) }
    }))));
    // two operands: same dtype, and a regressor of another dtype (converted to the first one's)
    let opt: Vec<Option<f64>> = ca.into_iter().collect();
    let xs: Vec<Option<f64>> = (0..opt.len()).map(|i| Some(((i * 7) % 5) as f64)).collect();
    let xf = Float64Chunked::from_slice_options("x".into(), &xs);
    let want: Float64Chunked = ca.ts_vregx_beta(&xf, 3, Some(2));
    out.push(("Series(f64).ts_regx_beta(Series(f64))", flat(catch(|| {
        let d = ser.ts_regx_beta(xf.clone().into_series(), 3, Some(2)).map_err(|e| format!("dynamic call failed: {e}"))?;
        if d.name().as_str() != "px" { return Err(format!("the name became {:?}", d.name())); }
        if fb(d.f64().map_err(|e| e.to_string())?) != fb(&want) { return Err("dynamic ts_regx_beta differs from the static ts_vregx_beta".into()); }
        Ok(())
    }))));
    out.push(("Series(f64).ts_regx_beta(Series(i32))", flat(catch(|| {
        let xi = Int32Chunked::from_slice_options("x".into(), &xs.iter().map(|x| x.map(|y| y as i32)).collect::<Vec<_>>()).into_series();
        let d = ser.ts_regx_beta(xi, 3, Some(2)).map_err(|e| format!("dynamic call failed: {e}"))?;
        if fb(d.f64().map_err(|e| e.to_string())?) != fb(&want) { return Err("with an Int32 regressor the result differs from the static call on the converted column".into()); }
        Ok(())
    }))));
    out
}

fn main() {
    guarded_main(run);
}

fn run() {
    let args = Args::from_env();
    match args.cmd() {
        "replay-cont" => replay(&args),
        other => tool_error(&format!("unknown command {other:?}")),
    }
}
