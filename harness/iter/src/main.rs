//! Conformance harness for trusted-length iterators, generators and collectors (C09, C19).
mod gens;
mod iters;

use tvh_common::*;

fn main() {
    guarded_main(run);
}

fn run() {
    let args = Args::from_env();
    match args.cmd() {
        "replay-iter" => iters::replay(&args),
        "record-iter" => iters::record(&args),
        "replay-gen" => gens::replay(&args),
        other => tool_error(&format!("unknown command {other:?}")),
    }
}
