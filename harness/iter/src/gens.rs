//! C19 placeholder module (filled in below).
use tvh_common::*;
pub fn replay(_args: &Args) {
    tool_error("replay-gen not built yet");
}
