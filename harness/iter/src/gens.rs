//! C19: generators, collectors and the uninitialised-buffer writer on the real code.
use std::collections::VecDeque;

use serde_json::Value;
use tevec::export::ndarray::Array1;
use tevec::prelude::*;
use tvh_common::*;

fn seq_eq_f(got: &[f64], want: &[f64]) -> Result<(), String> {
    if got.len() != want.len() {
        return Err(format!("{} elements {:?}, want {} {:?}", got.len(), got, want.len(), want));
    }
    for (i, (g, w)) in got.iter().zip(want).enumerate() {
        if (g - w).abs() > 1e-12 * w.abs().max(1.0) {
            return Err(format!("element {i} is {g}, want {w} (got {got:?}, want {want:?})"));
        }
    }
    Ok(())
}

pub fn replay(args: &Args) {
    let cases = read_ndjson(args.req("in"));
    let mut rep = Report::new(args.get("prop").unwrap_or("C19"), args.req("out"));
    for v in cases {
        let v = &v;
        let op = get_str(v, "op");
        match op {
            "range" => range(&mut rep, v),
            "linspace" => linspace(&mut rep, v),
            "collect" => collect(&mut rep, v),
            "writer" => writer(&mut rep, v),
            _ => continue,
        }
        rep.cases += 1;
        if rep.cases % 300 == 1 {
            rep.sample(v.clone());
        }
    }
    rep.finish();
}

fn judge(rep: &mut Report, f: &str, key: &str, cell: &str, r: Result<Result<(), String>, String>, case: &Value) {
    rep.cells += 1;
    match r {
        Ok(Ok(())) => rep.ok(f, 0.0),
        Ok(Err(d)) => rep.mismatch(f, f, key, cell, &d, case),
        Err(p) => rep.mismatch(f, f, key, cell, &format!("panicked: {p}"), case),
    }
}

fn range(rep: &mut Report, v: &Value) {
    let (a, b, step) = (get_i64(v, "a"), get_i64(v, "b"), get_i64(v, "step"));
    let want = get_ints(v, "want");
    let key = format!("range|a={a},b={b},step={step}");
    let wf: Vec<f64> = want.iter().map(|x| *x as f64).collect();
    // integers
    judge(rep, "range", &key, "Vec<i32>", catch(|| {
        let got: Vec<i32> = Vec1Create::range(Some(a as i32), b as i32, Some(step as i32));
        seq_eq_f(&got.iter().map(|x| *x as f64).collect::<Vec<_>>(), &wf)
    }), v);
    judge(rep, "range", &key, "VecDeque<i64>", catch(|| {
        let got: VecDeque<i64> = Vec1Create::range(Some(a), b, Some(step));
        seq_eq_f(&got.iter().map(|x| *x as f64).collect::<Vec<_>>(), &wf)
    }), v);
    if a >= 0 && b >= 0 && step > 0 {
        judge(rep, "range", &key, "Vec<usize>", catch(|| {
            let got: Vec<usize> = Vec1Create::range(Some(a as usize), b as usize, Some(step as usize));
            seq_eq_f(&got.iter().map(|x| *x as f64).collect::<Vec<_>>(), &wf)
        }), v);
        if a == 0 && step == 1 {
            judge(rep, "range", &format!("{key}(defaults)"), "Vec<i32>", catch(|| {
                let got: Vec<i32> = Vec1Create::range(None, b as i32, None);
                seq_eq_f(&got.iter().map(|x| *x as f64).collect::<Vec<_>>(), &wf)
            }), v);
        }
    }
    // floats: the same progression, and the same divided by 4 (dyadic: exact in binary)
    judge(rep, "range", &key, "Vec<f64>", catch(|| {
        let got: Vec<f64> = Vec1Create::range(Some(a as f64), b as f64, Some(step as f64));
        seq_eq_f(&got, &wf)
    }), v);
    judge(rep, "range", &format!("{key}(/4)"), "Array1<f64>", catch(|| {
        let got: Array1<f64> = Vec1Create::range(Some(a as f64 / 4.0), b as f64 / 4.0, Some(step as f64 / 4.0));
        seq_eq_f(&got.to_vec(), &wf.iter().map(|x| x / 4.0).collect::<Vec<_>>())
    }), v);
    judge(rep, "range", &format!("{key}(/4)"), "Vec<Option<f64>>", catch(|| {
        let got: Vec<Option<f64>> = Vec1Create::range(Some(a as f64 / 4.0), b as f64 / 4.0, Some(step as f64 / 4.0));
        seq_eq_f(&got.iter().map(|x| x.unwrap_or(f64::NAN)).collect::<Vec<_>>(), &wf.iter().map(|x| x / 4.0).collect::<Vec<_>>())
    }), v);
    judge(rep, "range", &key, "Vec<f32>", catch(|| {
        let got: Vec<f32> = Vec1Create::range(Some(a as f32), b as f32, Some(step as f32));
        seq_eq_f(&got.iter().map(|x| *x as f64).collect::<Vec<_>>(), &wf)
    }), v);
}

fn linspace(rep: &mut Report, v: &Value) {
    let (a, b, n) = (get_i64(v, "a"), get_i64(v, "b"), get_i64(v, "n") as usize);
    let want = Exp::parse_seq(&v["want"]);
    let key = format!("linspace|a={a},b={b},n={n}");
    let wf: Vec<f64> = want.iter().map(|e| e.value().unwrap()).collect();
    judge(rep, "linspace", &key, "Vec<f64>", catch(|| {
        let got: Vec<f64> = Vec1Create::linspace(Some(a as f64), b as f64, n);
        seq_eq_f(&got, &wf)
    }), v);
    judge(rep, "linspace", &key, "VecDeque<f64>", catch(|| {
        let got: VecDeque<f64> = Vec1Create::linspace(Some(a as f64), b as f64, n);
        seq_eq_f(&got.iter().cloned().collect::<Vec<_>>(), &wf)
    }), v);
    // integers: n elements starting at a with a constant step
    judge(rep, "linspace", &key, "Vec<i32>", catch(|| {
        let got: Vec<i32> = Vec1Create::linspace(Some(a as i32), b as i32, n);
        if got.len() != n {
            return Err(format!("{} elements for n = {n}", got.len()));
        }
        if n >= 1 && got[0] != a as i32 {
            return Err(format!("starts at {} instead of {a}", got[0]));
        }
        if n >= 3 && any_of(got.windows(2), |w| w[1] - w[0] != got[1] - got[0]) {
            return Err(format!("step not constant: {got:?}"));
        }
        Ok(())
    }), v);
    // full
    judge(rep, "full", &format!("full|len={n},v={a}"), "Vec<f64>/Array1<i32>", catch(|| {
        let f: Vec<f64> = Vec1::full(n, a as f64);
        let g: Array1<i32> = Vec1::full(n, a as i32);
        let e: Vec<f64> = Vec1::empty();
        if f.len() != n || any_of(f.iter(), |x| *x != a as f64) || g.len() != n || any_of(g.iter(), |x| *x != a as i32) || !e.is_empty() {
            return Err(format!("full({n}, {a}) = {f:?} / {g:?}, empty() = {e:?}"));
        }
        Ok(())
    }), v);
}

fn collect(rep: &mut Report, v: &Value) {
    let items = get_ints(v, "items");
    let first_error = get_i64(v, "first_error");
    let n = items.len();
    let src = v["src"].as_str().unwrap_or("exact");
    let key = format!("collect|src={src}|items={items:?}");
    let vals: Vec<f64> = items.iter().map(|x| if *x == -1 { f64::NAN } else { *x as f64 }).collect();
    let same = |got: &[f64]| -> Result<(), String> {
        if got.len() != n || !all_of(got.iter().zip(&vals), |(g, w)| g.to_bits() == w.to_bits() || (g.is_nan() && w.is_nan())) {
            Err(format!("collected {got:?}, want {vals:?}"))
        } else {
            Ok(())
        }
    };
    // trusted sources whose size hint has a lower bound below the number of items they yield
    // (the TrustedLen contract fixes the upper bound only)
    if src != "exact" {
        let hint = get_ints(v, "hint");
        macro_rules! source {
            () => {{
                match src {
                    "scan" => Box::new(vals.clone().into_iter().scan((), |_, x| Some(x))) as Box<dyn TrustedLen<Item = f64>>,
                    "scan_of_map" => Box::new(vals.clone().into_iter().map(|x| x).scan(0usize, |k, x| { *k += 1; Some(x) })) as Box<dyn TrustedLen<Item = f64>>,
                    // the crate's own wrapper around a source with an inexact hint, alone and under
                    // enumerate().rev() (driven from the back: std reads len() of the wrapper)
                    "trust_of_filter" => Box::new(vals.clone().into_iter().filter(|_| true).to_trust(n)) as Box<dyn TrustedLen<Item = f64>>,
                    "trust_enum_rev" => {
                        let mut r = vals.clone();
                        r.reverse();
                        Box::new(r.into_iter().filter(|_| true).to_trust(n).enumerate().rev().map(|(_, x)| x)) as Box<dyn TrustedLen<Item = f64>>
                    },
                    _ => Box::new(vals.clone().into_iter().rev().rev()) as Box<dyn TrustedLen<Item = f64>>,
                }
            }};
        }
        let (lo, up) = source!().size_hint();
        if (lo as i64, up.map(|x| x as i64)) != (hint[0], Some(hint[1])) {
            if src.starts_with("trust") {
                // the wrapper is the library's: announcing anything else than its declared length is the fault
                judge(rep, "to_trust", &key, "size_hint", Ok(Err(format!("the wrapper announces ({lo}, {up:?}), declared {n}"))), v);
                return;
            }
            tool_error(&format!("source {src} announces ({lo}, {up:?}), the specification models {hint:?}"));
        }
        judge(rep, "collect_trusted_vec1", &key, "Vec<f64>", catch(|| same(&source!().collect_trusted_vec1::<Vec<f64>>())), v);
        judge(rep, "collect_trusted_vec1", &key, "VecDeque<f64>", catch(|| same(&source!().collect_trusted_vec1::<VecDeque<f64>>().into_iter().collect::<Vec<_>>())), v);
        judge(rep, "collect_trusted_vec1", &key, "Array1<f64>", catch(|| same(&source!().collect_trusted_vec1::<Array1<f64>>().to_vec())), v);
        judge(rep, "collect_trusted_to_vec", &key, "Vec<f64>", catch(|| same(&source!().collect_trusted_to_vec())), v);
        judge(rep, "try_collect_trusted_vec1", &key, "Vec<f64>", catch(|| {
            let r: TResult<Vec<f64>> = source!().map(Ok).try_collect_trusted_vec1::<Vec<f64>>();
            r.map_err(|e| e.to_string()).and_then(|g| same(&g))
        }), v);
        return;
    }
    judge(rep, "collect_vec1", &key, "Vec<f64>", catch(|| same(&vals.clone().into_iter().collect_vec1::<Vec<f64>>())), v);
    judge(rep, "collect_vec1", &key, "VecDeque<f64>", catch(|| same(&vals.clone().into_iter().collect_vec1::<VecDeque<f64>>().into_iter().collect::<Vec<_>>())), v);
    judge(rep, "collect_trusted_vec1", &key, "Vec<f64>", catch(|| same(&vals.clone().into_iter().collect_trusted_vec1::<Vec<f64>>())), v);
    judge(rep, "collect_trusted_vec1", &key, "Array1<f64>", catch(|| same(&vals.clone().into_iter().collect_trusted_vec1::<Array1<f64>>().to_vec())), v);
    judge(rep, "collect_trusted_vec1", &key, "VecDeque<f64>", catch(|| same(&vals.titer().collect_trusted_vec1::<VecDeque<f64>>().into_iter().collect::<Vec<_>>())), v);
    judge(rep, "collect_vec1_with_len", &key, "Vec<f64>", catch(|| same(&vals.clone().into_iter().filter(|_| true).collect_vec1_with_len::<Vec<f64>>(n))), v);
    // an element type of size ZERO (the `()` results of a validation pass): the collectors are parametric in
    // the element type, the length is all there is to preserve (Generators.tla, ZeroSized)
    {
        let unit_ok = |got: usize| -> Result<(), String> { if got == n { Ok(()) } else { Err(format!("collected {got} unit items, want {n}")) } };
        judge(rep, "collect_trusted_vec1", &key, "Vec<()>", catch(|| unit_ok(std::iter::repeat_n((), n).collect_trusted_vec1::<Vec<()>>().len())), v);
        judge(rep, "collect_trusted_vec1", &key, "VecDeque<()>", catch(|| unit_ok(std::iter::repeat_n((), n).collect_trusted_vec1::<VecDeque<()>>().len())), v);
        judge(rep, "collect_trusted_to_vec", &key, "Vec<()>", catch(|| unit_ok(std::iter::repeat_n((), n).collect_trusted_to_vec().len())), v);
        judge(rep, "collect_vec1", &key, "Vec<()>", catch(|| unit_ok(std::iter::repeat_n((), n).collect_vec1::<Vec<()>>().len())), v);
        judge(rep, "collect_vec1_with_len", &key, "Vec<()>", catch(|| unit_ok(std::iter::repeat_n((), n).filter(|_| true).collect_vec1_with_len::<Vec<()>>(n).len())), v);
        judge(rep, "full", &key, "Vec<()>", catch(|| unit_ok(<Vec<()> as Vec1<()>>::full(n, ()).len())), v);
        judge(rep, "try_collect_trusted_to_vec", &key, "Vec<()>", catch(|| {
            let r: TResult<Vec<()>> = std::iter::repeat_n((), n).map(Ok).try_collect_trusted_to_vec();
            r.map_err(|e| e.to_string()).and_then(|g| unit_ok(g.len()))
        }), v);
    }
    // optional items -> null-encoded
    let opt: Vec<Option<f64>> = items.iter().map(|x| if *x == -1 { None } else { Some(*x as f64) }).collect();
    judge(rep, "collect_vec1_opt", &key, "Vec<f64>", catch(|| same(&opt.clone().into_iter().collect_vec1_opt::<Vec<f64>>())), v);
    judge(rep, "collect_vec1_opt", &key, "Array1<f64>", catch(|| same(&opt.clone().into_iter().collect_vec1_opt::<Array1<f64>>().to_vec())), v);
    // ... and into element types that have no null: possible exactly when no item is missing
    if first_error == 0 {
        let oi: Vec<Option<i32>> = items.iter().map(|x| Some(*x as i32)).collect();
        let want: Vec<i64> = items.clone();
        let same_i = |got: Vec<i64>| -> Result<(), String> { if got == want { Ok(()) } else { Err(format!("collected {got:?}, want {want:?}")) } };
        judge(rep, "collect_vec1_opt", &key, "Vec<i32>", catch(|| same_i(oi.clone().into_iter().collect_vec1_opt::<Vec<i32>>().into_iter().map(|x| x as i64).collect())), v);
        judge(rep, "collect_vec1_opt", &key, "VecDeque<i32>", catch(|| same_i(oi.clone().into_iter().collect_vec1_opt::<VecDeque<i32>>().into_iter().map(|x| x as i64).collect())), v);
        let ou: Vec<Option<usize>> = items.iter().map(|x| Some(*x as usize)).collect();
        judge(rep, "collect_vec1_opt", &key, "Array1<usize>", catch(|| same_i(ou.clone().into_iter().collect_vec1_opt::<Array1<usize>>().into_iter().map(|x| x as i64).collect())), v);
        let ob: Vec<Option<bool>> = items.iter().map(|x| Some(*x % 2 == 0)).collect();
        judge(rep, "collect_vec1_opt", &key, "Vec<bool>", catch(|| {
            let got: Vec<bool> = ob.clone().into_iter().collect_vec1_opt::<Vec<bool>>();
            if got == items.iter().map(|x| *x % 2 == 0).collect::<Vec<_>>() { Ok(()) } else { Err(format!("collected {got:?}")) }
        }), v);
    }
    // fallible: the first error wins
    let fallible = || -> Vec<TResult<f64>> {
        items.iter().enumerate().map(|(i, x)| if *x == -1 { Err(terr!("e{}", i + 1)) } else { Ok(*x as f64) }).collect()
    };
    let judge_try = |r: TResult<Vec<f64>>| -> Result<(), String> {
        match (r, first_error) {
            (Ok(got), 0) => same(&got),
            (Err(e), k) if k > 0 => {
                let m = e.to_string();
                if m.contains(&format!("e{k}")) && !m.contains(&format!("e{}", k + 2)) { Ok(()) } else { Err(format!("error {m:?} is not the first one (e{k})")) }
            },
            (Ok(got), k) => Err(format!("Ok({got:?}) although item {k} is an error")),
            (Err(e), _) => Err(format!("Err({e}) although no item is an error")),
        }
    };
    judge(rep, "try_collect_vec1", &key, "Vec<f64>", catch(|| judge_try(fallible().try_collect_vec1::<Vec<f64>>())), v);
    judge(rep, "try_collect_trusted_vec1", &key, "Vec<f64>", catch(|| judge_try(fallible().try_collect_trusted_vec1::<Vec<f64>>())), v);
    judge(rep, "try_collect_vec1", &key, "VecDeque<f64>", catch(|| judge_try(fallible().try_collect_vec1::<VecDeque<f64>>().map(|d| d.into_iter().collect()))), v);
    judge(rep, "try_collect_trusted_vec1", &key, "Array1<f64>", catch(|| judge_try(fallible().try_collect_trusted_vec1::<Array1<f64>>().map(|d| d.to_vec()))), v);
    judge(rep, "try_collect_vec1", &key, "Array1<f64>", catch(|| judge_try(fallible().try_collect_vec1::<Array1<f64>>().map(|d| d.to_vec()))), v);
}

fn writer(rep: &mut Report, v: &Value) {
    let (bl, il) = (get_i64(v, "bl") as usize, get_i64(v, "il") as usize);
    let outcome = get_str(v, "outcome");
    let src = get_ints(v, "src");
    let key = format!("write_trust_iter|buffer={bl},iter={il}");
    let items: Vec<f64> = (0..il).map(|i| 100.0 + i as f64).collect();
    // instrumented buffer: every write is logged
    judge(rep, "write_trust_iter", &key, "SpyOut<f64>", catch(|| {
        clear_log();
        let mut u = SpyOut::<f64>::uninit(bl);
        let r = items.titer().write(&mut SpyOut::<f64>::uninit_ref_mut(&mut u));
        let log = take_log();
        let writes: Vec<usize> = log.iter().filter_map(|e| if let Ev::Uset { i } = e { Some(*i) } else { None }).collect();
        let faults = safety_faults(&log);
        if !faults.is_empty() {
            return Err(format!("memory-safety envelope broken: {}", faults.join("; ")));
        }
        match (r, outcome) {
            (Ok(()), "ok") => {
                let mut w = writes.clone();
                w.sort();
                if w != (0..bl).collect::<Vec<_>>() {
                    return Err(format!("Ok but the slots written are {writes:?} for a buffer of {bl}"));
                }
                let out = unsafe { u.assume_init() }.0;
                let want: Vec<f64> = src.iter().map(|i| 100.0 + *i as f64).collect();
                if out != want { Err(format!("buffer holds {out:?}, want {want:?}")) } else { Ok(()) }
            },
            (Err(_), "error") => {
                if writes.is_empty() { Ok(()) } else { Err(format!("length mismatch reported after writing slots {writes:?}")) }
            },
            (Ok(()), _) => Err("Ok although the lengths do not match".into()),
            (Err(e), _) => Err(format!("Err({e}) although the lengths match")),
        }
    }), v);
    // ordinary buffer, pre-filled with a sentinel
    judge(rep, "write_trust_iter", &key, "Vec<MaybeUninit<f64>>", catch(|| {
        let mut u = Vec::<f64>::uninit(bl);
        for s in u.iter_mut() {
            s.write(-7.0);
        }
        let r = {
            let mut rf = Vec::<f64>::uninit_ref_mut(&mut u);
            items.titer().write(&mut rf)
        };
        let out: Vec<f64> = unsafe { u.assume_init() };
        match (r.is_ok(), outcome) {
            (true, "ok") => {
                let want: Vec<f64> = src.iter().map(|i| 100.0 + *i as f64).collect();
                if out != want { Err(format!("buffer holds {out:?}, want {want:?}")) } else { Ok(()) }
            },
            (false, "error") => if all_of(out.iter(), |x| *x == -7.0) { Ok(()) } else { Err(format!("length mismatch reported after partial writes: {out:?}")) },
            (ok, _) => Err(format!("returned ok={ok}, specification says {outcome}")),
        }
    }), v);
    // the same writer fed by trusted sources that announce a lower bound of 0 (Generators.tla Hint):
    // element-wise / broadcast / error is decided by the length the contract fixes (the upper bound)
    judge(rep, "write_trust_iter", &format!("{key}|src=scan"), "Vec<MaybeUninit<f64>>", catch(|| {
        let mut u = Vec::<f64>::uninit(bl);
        for s in u.iter_mut() {
            s.write(-7.0);
        }
        let r = {
            let mut rf = Vec::<f64>::uninit_ref_mut(&mut u);
            items.clone().into_iter().scan((), |_, x| Some(x)).write(&mut rf)
        };
        let out: Vec<f64> = unsafe { u.assume_init() };
        match (r.is_ok(), outcome) {
            (true, "ok") => {
                let want: Vec<f64> = src.iter().map(|i| 100.0 + *i as f64).collect();
                if out != want { Err(format!("buffer holds {out:?}, want {want:?}")) } else { Ok(()) }
            },
            (false, "error") => if all_of(out.iter(), |x| *x == -7.0) { Ok(()) } else { Err(format!("length mismatch reported after partial writes: {out:?}")) },
            (ok, _) => Err(format!("returned ok={ok}, specification says {outcome}")),
        }
    }), v);
    judge(rep, "write_trust_iter", &format!("{key}|src=scan"), "VecDeque<MaybeUninit<f64>>", catch(|| {
        let mut u = VecDeque::<f64>::uninit(bl);
        for s in u.iter_mut() {
            s.write(-7.0);
        }
        let r = items.clone().into_iter().map(|x| x + 0.0).scan(0usize, |k, x| { *k += 1; Some(x) }).write(&mut VecDeque::<f64>::uninit_ref_mut(&mut u));
        let out: Vec<f64> = unsafe { u.assume_init() }.into_iter().collect();
        match (r.is_ok(), outcome) {
            (true, "ok") => {
                let want: Vec<f64> = src.iter().map(|i| 100.0 + *i as f64).collect();
                if out != want { Err(format!("buffer holds {out:?}, want {want:?}")) } else { Ok(()) }
            },
            (false, "error") => Ok(()),
            (ok, _) => Err(format!("returned ok={ok}, specification says {outcome}")),
        }
    }), v);
    // the checked single-slot writer of an uninitialised buffer: inside the buffer it writes that
    // slot, outside it reports an error (and writes nothing)
    if il == 0 {
        macro_rules! set_cell {
            ($O:ty, $cell:expr) => {
                judge(rep, "uninit.set", &format!("uninit.set|buffer={bl}"), $cell, catch(|| {
                    let mut u = <$O as Vec1<f64>>::uninit(bl);
                    for i in 0..bl {
                        if let Err(e) = u.set(i, 300.0 + i as f64) {
                            return Err(format!("set({i}) rejected inside a buffer of {bl}: {e}"));
                        }
                    }
                    for i in bl..bl + 2 {
                        if u.set(i, -1.0).is_ok() {
                            return Err(format!("set({i}) accepted outside a buffer of {bl}"));
                        }
                    }
                    let out: Vec<f64> = unsafe { u.assume_init() }.into_iter().collect();
                    let want: Vec<f64> = (0..bl).map(|i| 300.0 + i as f64).collect();
                    if out != want { Err(format!("buffer holds {out:?}, want {want:?}")) } else { Ok(()) }
                }), v);
            };
        }
        set_cell!(Vec<f64>, "Vec<MaybeUninit<f64>>");
        set_cell!(VecDeque<f64>, "VecDeque<MaybeUninit<f64>>");
        set_cell!(Array1<f64>, "Array1<MaybeUninit<f64>>");
    }
}
