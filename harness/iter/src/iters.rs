//! C09: the trusted-length contract on the real iterators.
use serde_json::{Value, json};
use tevec::prelude::*;
use tvh_common::*;

pub enum It<'a> {
    Fwd(Box<dyn TrustedLen<Item = f64> + 'a>),
    De(Box<dyn TIterator<Item = f64> + 'a>),
}
impl It<'_> {
    fn hint(&self) -> (usize, Option<usize>) {
        match self {
            It::Fwd(i) => i.size_hint(),
            It::De(i) => i.size_hint(),
        }
    }
    fn next(&mut self) -> Option<f64> {
        match self {
            It::Fwd(i) => i.next(),
            It::De(i) => i.next(),
        }
    }
    fn next_back(&mut self) -> Option<f64> {
        match self {
            It::Fwd(_) => panic!("harness: next_back on a forward-only iterator"),
            It::De(i) => i.next_back(),
        }
    }
    fn nth(&mut self, k: usize) -> Option<f64> {
        match self {
            It::Fwd(i) => i.nth(k),
            It::De(i) => i.nth(k),
        }
    }
}

/// the real iterator for a specification adaptor instance
pub fn build<'a>(kind: &str, v: &'a Vec<f64>, p: i64, q: i64) -> It<'a> {
    let n = p as i32;
    match kind {
        "titer" => It::De(Box::new(v.titer())),
        "map" => It::De(Box::new(v.titer().map(|x| x + 100.0))),
        "shift" => It::Fwd(v.titer().shift(n, f64::NAN)),
        "vshift" => It::Fwd(v.titer().vshift(n, None)),
        "vdiff" => It::Fwd(v.vdiff(n, None)),
        "vpct" => It::Fwd(v.vpct_change(n)),
        "fill" => It::Fwd(Box::new(v.titer().fill(7.0))),
        "clip" => It::Fwd(v.titer().vclip(f64::NAN, 1000.0)),
        "partition" => It::Fwd(v.vpartition(p as usize, false, false)),
        "argpartition" => It::Fwd(Box::new(v.varg_partition(p as usize, false, false).map(|i| i as f64))),
        "rolling_iter" => It::Fwd(Box::new(v.rolling_custom_iter(p as usize, |s: &[f64]| s.len() as f64))),
        "pipe2" => It::Fwd(v.titer().vshift(n, None).vshift(q as i32, None)),
        "pipe3" => It::Fwd(Box::new(v.titer().vshift(n, None).vabs().map(|x| x)).vclip(f64::NAN, f64::NAN).vshift(q as i32, None)),
        _ => panic!("harness: unknown kind {kind}"),
    }
}

/// the same iterator as a forward-only trusted-length box (what the trusted collectors take)
pub fn build_fwd<'a>(kind: &str, v: &'a Vec<f64>, p: i64, q: i64) -> Box<dyn TrustedLen<Item = f64> + 'a> {
    match kind {
        "titer" => Box::new(v.titer()),
        "map" => Box::new(v.titer().map(|x| x + 100.0)),
        _ => match build(kind, v, p, q) {
            It::Fwd(i) => i,
            It::De(_) => unreachable!(),
        },
    }
}

fn source(kind: &str, len: usize, q: i64) -> Vec<f64> {
    // partition kinds: q of the len elements are valid, the nulls come first
    if kind == "partition" || kind == "argpartition" {
        let nulls = len - q as usize;
        (0..len).map(|i| if i < nulls { f64::NAN } else { 10.0 + i as f64 }).collect()
    } else {
        (0..len).map(|i| 10.0 + i as f64).collect()
    }
}

pub fn replay(args: &Args) {
    let cases = read_ndjson(args.req("in"));
    let mut rep = Report::new(args.get("prop").unwrap_or("C09"), args.req("out"));
    for v in &cases {
        if get_str(v, "op") != "iter" {
            continue;
        }
        let kind = get_str(v, "kind");
        if kind == "linspace" || kind == "range" {
            continue; // generators are replayed by replay-gen (the raw iterator type is not public)
        }
        rep.cases += 1;
        if rep.cases % 250 == 1 {
            rep.sample(v.clone());
        }
        let len = get_i64(v, "len") as usize;
        let (p, q) = (get_i64(v, "p"), get_i64(v, "q"));
        let total = get_i64(v, "total") as usize;
        let sched: Vec<String> = v["sched"].as_array().unwrap().iter().map(|x| x.as_str().unwrap().to_string()).collect();
        let items = get_ints(v, "items");
        let key = format!("{kind}|len={len},p={p},q={q}|sched={}", sched.join(""));
        let site = format!("{kind}");
        let src = source(kind, len, q);
        rep.cells += 1;
        let res = catch(|| -> Result<(), String> {
            let mut it = build(kind, &src, p, q);
            let h0 = it.hint();
            if h0 != (total, Some(total)) {
                return Err(format!("announces {h0:?} before consumption, yields {total}"));
            }
            let (mut kf, mut kb) = (0usize, 0usize);
            for (step, s) in sched.iter().enumerate() {
                if let Some(kk) = s.strip_prefix('N') {
                    // nth(k): skips k items, yields the next; drains the iterator when it overshoots
                    let k: usize = kk.parse().map_err(|_| format!("harness: bad schedule step {s}"))?;
                    let rem = total - kf - kb;
                    let got = it.nth(k);
                    if k < rem {
                        let Some(x) = got else {
                            return Err(format!("step {step} ({s}): nth({k}) returned nothing with {rem} item(s) remaining"));
                        };
                        if !items.is_empty() {
                            let want = items[kf + k];
                            let w = if want == NULL { f64::NAN } else { want as f64 };
                            if !(x == w || (x.is_nan() && w.is_nan())) {
                                return Err(format!("step {step} ({s}): nth({k}) yielded {x}, want {w}"));
                            }
                        }
                        kf += k + 1;
                    } else {
                        if got.is_some() {
                            return Err(format!("step {step} ({s}): nth({k}) returned an item although only {rem} remained"));
                        }
                        kf += rem;
                    }
                    let rem = total - kf - kb;
                    let h = it.hint();
                    if h != (rem, Some(rem)) {
                        return Err(format!("after {s} ({} item(s) consumed) the size hint is {h:?} but {rem} item(s) remain", kf + kb));
                    }
                    continue;
                }
                let got = if s == "F" { it.next() } else { it.next_back() };
                let Some(x) = got else {
                    return Err(format!("step {step} ({s}): iterator ended after {} of {total} items", kf + kb));
                };
                if !items.is_empty() {
                    let want = if s == "F" { items[kf] } else { items[items.len() - 1 - kb] };
                    let w = if want == NULL { f64::NAN } else { want as f64 };
                    if !(x == w || (x.is_nan() && w.is_nan())) {
                        return Err(format!("step {step} ({s}): yielded {x}, want {w}"));
                    }
                }
                if s == "F" { kf += 1 } else { kb += 1 }
                let rem = total - kf - kb;
                let h = it.hint();
                if h != (rem, Some(rem)) {
                    return Err(format!("after {} item(s) the size hint is {h:?} but {rem} item(s) remain", kf + kb));
                }
            }
            if it.next().is_some() {
                return Err(format!("yields more than the {total} items it announced"));
            }
            Ok(())
        });
        let mut safe = false;
        match res {
            Ok(Ok(())) => {
                rep.ok(kind, 0.0);
                safe = true;
            },
            Ok(Err(d)) => rep.mismatch(kind, &site, &key, "stepwise", &d, v),
            Err(p) => rep.mismatch(kind, &site, &key, "stepwise", &format!("panicked: {p}"), v),
        }
        // only an iterator whose count was just confirmed by safe iteration is handed to the
        // trusted collectors (they write through raw pointers)
        if safe && all_of(sched.iter(), |s| s == "F") {
            rep.cells += 1;
            let r = catch(|| {
                let a: Vec<f64> = build_fwd(kind, &src, p, q).collect_trusted_to_vec();
                let b: Vec<f64> = build_fwd(kind, &src, p, q).collect_trusted_vec1();
                let c: std::collections::VecDeque<f64> = build_fwd(kind, &src, p, q).collect_trusted_vec1();
                (a.len(), b.len(), c.len())
            });
            match r {
                Ok((a, b, c)) if a == total && b == total && c == total => rep.ok(kind, 0.0),
                Ok(l) => rep.mismatch(kind, &site, &key, "trusted collectors", &format!("collected lengths {l:?}, want {total}"), v),
                Err(p) => rep.mismatch(kind, &site, &key, "trusted collectors", &format!("panicked: {p}"), v),
            }
        }
    }
    rep.finish();
}

/// random pipelines of depth 1..6 over the adaptors, consumed under random schedules; every
/// call is logged for TraceIter.tla
pub fn record(args: &Args) {
    let seed = args.num("seed", 1);
    let runs = args.num("runs", 200);
    let mut rng = Rng::new(seed);
    let mut w = NdWriter::create(args.req("out"));
    let mut events = 0u64;
    for _ in 0..runs {
        let len = rng.range(0, 9) as usize;
        let src: Vec<f64> = (0..len).map(|i| if rng.chance(1, 5) { f64::NAN } else { i as f64 }).collect();
        let depth = rng.range(1, 6);
        let mut desc: Vec<String> = Vec::new();
        let band = len as i64 + 3;
        let mut it: Box<dyn TrustedLen<Item = f64> + '_> = match rng.below(5) {
            0 => {
                let n = rng.range(-band, band) as i32;
                desc.push(format!("vdiff({n})"));
                src.vdiff(n, None)
            },
            1 => {
                let n = rng.range(-band, band) as i32;
                desc.push(format!("vpct_change({n})"));
                src.vpct_change(n)
            },
            2 => {
                let k = rng.range(0, len as i64 + 2) as usize;
                let (s, r) = (rng.chance(1, 2), rng.chance(1, 2));
                desc.push(format!("vpartition({k},{s},{r})"));
                src.vpartition(k, s, r)
            },
            3 => {
                let wd = rng.range(1, len as i64 + 2) as usize;
                desc.push(format!("rolling_custom_iter({wd})"));
                Box::new(src.rolling_custom_iter(wd, |s: &[f64]| s.len() as f64))
            },
            _ => {
                desc.push("titer".into());
                Box::new(src.titer())
            },
        };
        for _ in 0..depth {
            it = match rng.below(8) {
                0 | 1 => {
                    let n = rng.range(-band, band) as i32;
                    desc.push(format!("vshift({n})"));
                    it.vshift(n, if rng.chance(1, 2) { None } else { Some(0.5) })
                },
                2 => {
                    let n = rng.range(-band, band) as i32;
                    desc.push(format!("shift({n})"));
                    // a panic of the construction is data as well
                    it.shift(n, 0.25)
                },
                3 => {
                    desc.push("vabs".into());
                    Box::new(it.vabs())
                },
                4 => {
                    desc.push("ffill".into());
                    Box::new(it.ffill(None))
                },
                5 => {
                    desc.push("fill".into());
                    Box::new(it.fill(9.0))
                },
                6 => {
                    desc.push("vclip".into());
                    it.vclip(1.0, if rng.chance(1, 2) { f64::NAN } else { 5.0 })
                },
                _ => {
                    desc.push("abs".into());
                    Box::new(it.abs())
                },
            };
        }
        let h0 = it.size_hint();
        w.line(&json!({"e": "new", "hint": h0.1.map(|x| x as i64).unwrap_or(-1), "lo": h0.0, "pipeline": desc.join(" . "), "len": len}));
        events += 1;
        let stop_after = if rng.chance(1, 3) { rng.range(0, 12) } else { 1000 };
        let mut steps = 0;
        loop {
            if steps >= stop_after {
                // hand the rest to a (safe) count: a trusted collector would allocate the hint
                let rest = Iterator::count(it);
                w.line(&json!({"e": "collect", "len": rest}));
                events += 1;
                break;
            }
            let got = it.next();
            let h = it.size_hint();
            w.line(&json!({"e": "next", "end": "F", "got": got.is_some() as i64, "hint": h.1.map(|x| x as i64).unwrap_or(-1), "lo": h.0}));
            events += 1;
            steps += 1;
            if got.is_none() || steps > 64 {
                break;
            }
        }
    }
    w.finish();
    println!("{}", json!({"t": "recorded", "runs": runs, "events": events}));
}
