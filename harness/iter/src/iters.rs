//! C09: the trusted-length contract on the real iterators.
use serde_json::{Value, json};
use tevec::prelude::*;
use tvh_common::*;

/// One iterator under test, with the WHOLE consumption protocol dispatched on its concrete type
/// (so that an override of nth / last / count / fold in the library is what gets called).
pub trait Ops {
    fn hint(&self) -> (usize, Option<usize>);
    fn next(&mut self) -> Option<f64>;
    fn nth(&mut self, k: usize) -> Option<f64>;
    fn next_back(&mut self) -> Option<f64> {
        panic!("harness: next_back on a forward-only iterator")
    }
    fn nth_back(&mut self, _k: usize) -> Option<f64> {
        panic!("harness: nth_back on a forward-only iterator")
    }
    /// terminal operations: they consume what is left
    fn count_rest(&mut self) -> usize;
    fn last_rest(&mut self) -> Option<f64>;
    fn fold_rest(&mut self) -> (usize, f64);
}
pub struct Fw<I>(Option<I>);
pub struct De<I>(Option<I>);
macro_rules! common_ops {
    () => {
        fn hint(&self) -> (usize, Option<usize>) {
            self.0.as_ref().unwrap().size_hint()
        }
        fn next(&mut self) -> Option<f64> {
            self.0.as_mut().unwrap().next()
        }
        fn nth(&mut self, k: usize) -> Option<f64> {
            self.0.as_mut().unwrap().nth(k)
        }
        fn count_rest(&mut self) -> usize {
            Iterator::count(self.0.take().unwrap())
        }
        fn last_rest(&mut self) -> Option<f64> {
            Iterator::last(self.0.take().unwrap())
        }
        fn fold_rest(&mut self) -> (usize, f64) {
            Iterator::fold(self.0.take().unwrap(), (0usize, 0.0), |(n, s), x| (n + 1, if x.is_nan() { s } else { s + x }))
        }
    };
}
impl<I: Iterator<Item = f64>> Ops for Fw<I> {
    common_ops!();
}
impl<I: DoubleEndedIterator<Item = f64>> Ops for De<I> {
    common_ops!();
    fn next_back(&mut self) -> Option<f64> {
        self.0.as_mut().unwrap().next_back()
    }
    fn nth_back(&mut self, k: usize) -> Option<f64> {
        self.0.as_mut().unwrap().nth_back(k)
    }
}
pub type It<'a> = Box<dyn Ops + 'a>;
fn fw<'a, I: Iterator<Item = f64> + 'a>(i: I) -> It<'a> {
    Box::new(Fw(Some(i)))
}
fn de<'a, I: DoubleEndedIterator<Item = f64> + 'a>(i: I) -> It<'a> {
    Box::new(De(Some(i)))
}

/// the real iterator for a specification adaptor instance
pub fn build<'a>(kind: &str, v: &'a Vec<f64>, p: i64, q: i64) -> It<'a> {
    let n = p as i32;
    match kind {
        "titer" => de(v.titer()),
        "map" => de(v.titer().map(|x| x + 100.0)),
        "shift" => fw(v.titer().shift(n, f64::NAN)),
        "vshift" => fw(v.titer().vshift(n, None)),
        "vdiff" => fw(v.vdiff(n, None)),
        "vpct" => fw(v.vpct_change(n)),
        "fill" => fw(v.titer().fill(7.0)),
        "clip" => fw(v.titer().vclip(f64::NAN, 1000.0)),
        "partition" => fw(v.vpartition(p as usize, false, false)),
        "argpartition" => fw(v.varg_partition(p as usize, false, false).map(|i| i as f64)),
        "rolling_iter" => fw(v.rolling_custom_iter(p as usize, |s: &[f64]| s.len() as f64)),
        "pipe2" => fw(v.titer().vshift(n, None).vshift(q as i32, None)),
        "pipe3" => fw(Box::new(v.titer().vshift(n, None).vabs().map(|x| x)).vclip(f64::NAN, f64::NAN).vshift(q as i32, None)),
        // the wrapper itself, on its concrete type: a source with a declared length
        "to_trust" => de(v.titer().to_trust(v.len())),
        // ... around a source whose own size hint is (0, Some(len))
        "to_trust_f" => de(v.titer().filter(|_| true).to_trust(v.len())),
        _ => panic!("harness: unknown kind {kind}"),
    }
}

/// the same iterator as a forward-only trusted-length box (what the trusted collectors take)
pub fn build_fwd<'a>(kind: &str, v: &'a Vec<f64>, p: i64, q: i64) -> Box<dyn TrustedLen<Item = f64> + 'a> {
    let n = p as i32;
    match kind {
        "titer" => Box::new(v.titer()),
        "map" => Box::new(v.titer().map(|x| x + 100.0)),
        "shift" => v.titer().shift(n, f64::NAN),
        "vshift" => v.titer().vshift(n, None),
        "vdiff" => v.vdiff(n, None),
        "vpct" => v.vpct_change(n),
        "fill" => Box::new(v.titer().fill(7.0)),
        "clip" => v.titer().vclip(f64::NAN, 1000.0),
        "partition" => v.vpartition(p as usize, false, false),
        "argpartition" => Box::new(v.varg_partition(p as usize, false, false).map(|i| i as f64)),
        "rolling_iter" => Box::new(v.rolling_custom_iter(p as usize, |s: &[f64]| s.len() as f64)),
        "pipe2" => v.titer().vshift(n, None).vshift(q as i32, None),
        "pipe3" => Box::new(v.titer().vshift(n, None).vabs().map(|x| x)).vclip(f64::NAN, f64::NAN).vshift(q as i32, None),
        "to_trust" => Box::new(v.titer().to_trust(v.len())),
        "to_trust_f" => Box::new(v.titer().filter(|_| true).to_trust(v.len())),
        _ => panic!("harness: unknown kind {kind}"),
    }
}

fn source(kind: &str, len: usize, q: i64) -> Vec<f64> {
    // partition kinds: q of the len elements are valid, the nulls come first
    if kind == "partition" || kind == "argpartition" {
        let nulls = len - q as usize;
        (0..len).map(|i| if i < nulls { f64::NAN } else { 10.0 + i as f64 }).collect()
    } else {
        (0..len).map(|i| 10.0 + i as f64).collect()
    }
}

pub fn replay(args: &Args) {
    let cases = read_ndjson(args.req("in"));
    let mut rep = Report::new(args.get("prop").unwrap_or("C09"), args.req("out"));
    for v in cases {
        let v = &v;
        if get_str(v, "op") != "iter" {
            continue;
        }
        let kind = get_str(v, "kind");
        if kind == "linspace" || kind == "range" {
            continue; // generators are replayed by replay-gen (the raw iterator type is not public)
        }
        rep.cases += 1;
        if rep.cases % 250 == 1 {
            rep.sample(v.clone());
        }
        let len = get_i64(v, "len") as usize;
        let (p, q) = (get_i64(v, "p"), get_i64(v, "q"));
        let total = get_i64(v, "total") as usize;
        let sched: Vec<String> = v["sched"].as_array().unwrap().iter().map(|x| x.as_str().unwrap().to_string()).collect();
        let items = get_ints(v, "items");
        let key = format!("{kind}|len={len},p={p},q={q}|sched={}", sched.join(""));
        let site = format!("{kind}");
        let src = source(kind, len, q);
        rep.cells += 1;
        let res = catch(|| -> Result<(), String> {
            let mut it = build(kind, &src, p, q);
            let h0 = it.hint();
            if h0 != (total, Some(total)) {
                return Err(format!("announces {h0:?} before consumption, yields {total}"));
            }
            // the wrapper is an ExactSizeIterator: std adaptors stacked on it read len() (which
            // demands lower == upper) when they are driven from the back
            if kind == "to_trust" || kind == "to_trust_f" {
                let stacked: Vec<(usize, f64)> = if kind == "to_trust" {
                    src.titer().to_trust(src.len()).enumerate().rev().collect()
                } else {
                    src.titer().filter(|_| true).to_trust(src.len()).enumerate().rev().collect()
                };
                if stacked.len() != total || any_of(stacked.iter().enumerate(), |(j, (i, x))| *i != total - 1 - j || *x != src[*i]) {
                    return Err(format!("enumerate().rev() over the wrapper gives {stacked:?}"));
                }
            }
            let (mut kf, mut kb) = (0usize, 0usize);
            for (step, s) in sched.iter().enumerate() {
                if matches!(s.as_str(), "C" | "L" | "S") {
                    // terminal operations on what is left (count / last / fold), on the concrete type
                    let rem = total - kf - kb;
                    match s.as_str() {
                        "C" => {
                            let c = it.count_rest();
                            if c != rem {
                                return Err(format!("step {step}: count() = {c} with {rem} item(s) remaining"));
                            }
                        },
                        "L" => {
                            let l = it.last_rest();
                            if l.is_some() != (rem > 0) {
                                return Err(format!("step {step}: last() = {l:?} with {rem} item(s) remaining"));
                            }
                            if let (Some(x), false) = (l, items.is_empty()) {
                                let want = items[items.len() - 1 - kb];
                                let w = if want == NULL { f64::NAN } else { want as f64 };
                                if !(x == w || (x.is_nan() && w.is_nan())) {
                                    return Err(format!("step {step}: last() yielded {x}, want {w}"));
                                }
                            }
                        },
                        _ => {
                            let (c, sum) = it.fold_rest();
                            if c != rem {
                                return Err(format!("step {step}: fold visited {c} item(s) with {rem} remaining"));
                            }
                            if !items.is_empty() {
                                let mut w = 0.0;
                                for x in &items[kf..items.len() - kb] {
                                    if *x != NULL {
                                        w += *x as f64;
                                    }
                                }
                                if sum != w {
                                    return Err(format!("step {step}: fold summed {sum}, want {w}"));
                                }
                            }
                        },
                    }
                    return Ok(());
                }
                if let Some(kk) = s.strip_prefix('M') {
                    // nth_back(k)
                    let k: usize = kk.parse().map_err(|_| format!("harness: bad schedule step {s}"))?;
                    let rem = total - kf - kb;
                    let got = it.nth_back(k);
                    if k < rem {
                        let Some(x) = got else {
                            return Err(format!("step {step} ({s}): nth_back({k}) returned nothing with {rem} item(s) remaining"));
                        };
                        if !items.is_empty() {
                            let want = items[items.len() - 1 - kb - k];
                            let w = if want == NULL { f64::NAN } else { want as f64 };
                            if !(x == w || (x.is_nan() && w.is_nan())) {
                                return Err(format!("step {step} ({s}): nth_back({k}) yielded {x}, want {w}"));
                            }
                        }
                        kb += k + 1;
                    } else {
                        if got.is_some() {
                            return Err(format!("step {step} ({s}): nth_back({k}) returned an item although only {rem} remained"));
                        }
                        kb += rem;
                    }
                    let rem = total - kf - kb;
                    let h = it.hint();
                    if h != (rem, Some(rem)) {
                        return Err(format!("after {s} ({} item(s) consumed) the size hint is {h:?} but {rem} item(s) remain", kf + kb));
                    }
                    continue;
                }
                if let Some(kk) = s.strip_prefix('N') {
                    // nth(k): skips k items, yields the next; drains the iterator when it overshoots
                    let k: usize = kk.parse().map_err(|_| format!("harness: bad schedule step {s}"))?;
                    let rem = total - kf - kb;
                    let got = it.nth(k);
                    if k < rem {
                        let Some(x) = got else {
                            return Err(format!("step {step} ({s}): nth({k}) returned nothing with {rem} item(s) remaining"));
                        };
                        if !items.is_empty() {
                            let want = items[kf + k];
                            let w = if want == NULL { f64::NAN } else { want as f64 };
                            if !(x == w || (x.is_nan() && w.is_nan())) {
                                return Err(format!("step {step} ({s}): nth({k}) yielded {x}, want {w}"));
                            }
                        }
                        kf += k + 1;
                    } else {
                        if got.is_some() {
                            return Err(format!("step {step} ({s}): nth({k}) returned an item although only {rem} remained"));
                        }
                        kf += rem;
                    }
                    let rem = total - kf - kb;
                    let h = it.hint();
                    if h != (rem, Some(rem)) {
                        return Err(format!("after {s} ({} item(s) consumed) the size hint is {h:?} but {rem} item(s) remain", kf + kb));
                    }
                    continue;
                }
                let got = if s == "F" { it.next() } else { it.next_back() };
                let Some(x) = got else {
                    return Err(format!("step {step} ({s}): iterator ended after {} of {total} items", kf + kb));
                };
                if !items.is_empty() {
                    let want = if s == "F" { items[kf] } else { items[items.len() - 1 - kb] };
                    let w = if want == NULL { f64::NAN } else { want as f64 };
                    if !(x == w || (x.is_nan() && w.is_nan())) {
                        return Err(format!("step {step} ({s}): yielded {x}, want {w}"));
                    }
                }
                if s == "F" { kf += 1 } else { kb += 1 }
                let rem = total - kf - kb;
                let h = it.hint();
                if h != (rem, Some(rem)) {
                    return Err(format!("after {} item(s) the size hint is {h:?} but {rem} item(s) remain", kf + kb));
                }
            }
            if it.next().is_some() {
                return Err(format!("yields more than the {total} items it announced"));
            }
            Ok(())
        });
        let mut safe = false;
        match res {
            Ok(Ok(())) => {
                rep.ok(kind, 0.0);
                safe = true;
            },
            Ok(Err(d)) => rep.mismatch(kind, &site, &key, "stepwise", &d, v),
            Err(p) => rep.mismatch(kind, &site, &key, "stepwise", &format!("panicked: {p}"), v),
        }
        // only an iterator whose count was just confirmed by safe iteration is handed to the
        // trusted collectors (they write through raw pointers)
        if safe && all_of(sched.iter(), |s| s == "F") {
            rep.cells += 1;
            let r = catch(|| {
                let a: Vec<f64> = build_fwd(kind, &src, p, q).collect_trusted_to_vec();
                let b: Vec<f64> = build_fwd(kind, &src, p, q).collect_trusted_vec1();
                let c: std::collections::VecDeque<f64> = build_fwd(kind, &src, p, q).collect_trusted_vec1();
                (a.len(), b.len(), c.len())
            });
            match r {
                Ok((a, b, c)) if a == total && b == total && c == total => rep.ok(kind, 0.0),
                Ok(l) => rep.mismatch(kind, &site, &key, "trusted collectors", &format!("collected lengths {l:?}, want {total}"), v),
                Err(p) => rep.mismatch(kind, &site, &key, "trusted collectors", &format!("panicked: {p}"), v),
            }
        }
    }
    rep.finish();
}

/// random pipelines of depth 1..6 over the adaptors, consumed under random schedules; every
/// call is logged for TraceIter.tla
pub fn record(args: &Args) {
    let seed = args.num("seed", 1);
    let runs = args.num("runs", 200);
    let mut rng = Rng::new(seed);
    let mut w = NdWriter::create(args.req("out"));
    let mut events = 0u64;
    for _ in 0..runs {
        let len = rng.range(0, 9) as usize;
        let src: Vec<f64> = (0..len).map(|i| if rng.chance(1, 5) { f64::NAN } else { i as f64 }).collect();
        let depth = rng.range(1, 6);
        let mut desc: Vec<String> = Vec::new();
        let band = len as i64 + 3;
        let mut it: Box<dyn TrustedLen<Item = f64> + '_> = match rng.below(5) {
            0 => {
                let n = rng.range(-band, band) as i32;
                desc.push(format!("vdiff({n})"));
                src.vdiff(n, None)
            },
            1 => {
                let n = rng.range(-band, band) as i32;
                desc.push(format!("vpct_change({n})"));
                src.vpct_change(n)
            },
            2 => {
                let k = rng.range(0, len as i64 + 2) as usize;
                let (s, r) = (rng.chance(1, 2), rng.chance(1, 2));
                desc.push(format!("vpartition({k},{s},{r})"));
                src.vpartition(k, s, r)
            },
            3 => {
                let wd = rng.range(1, len as i64 + 2) as usize;
                desc.push(format!("rolling_custom_iter({wd})"));
                Box::new(src.rolling_custom_iter(wd, |s: &[f64]| s.len() as f64))
            },
            _ => {
                desc.push("titer".into());
                Box::new(src.titer())
            },
        };
        for _ in 0..depth {
            it = match rng.below(8) {
                0 | 1 => {
                    let n = rng.range(-band, band) as i32;
                    desc.push(format!("vshift({n})"));
                    it.vshift(n, if rng.chance(1, 2) { None } else { Some(0.5) })
                },
                2 => {
                    let n = rng.range(-band, band) as i32;
                    desc.push(format!("shift({n})"));
                    // a panic of the construction is data as well
                    it.shift(n, 0.25)
                },
                3 => {
                    desc.push("vabs".into());
                    Box::new(it.vabs())
                },
                4 => {
                    desc.push("ffill".into());
                    Box::new(it.ffill(None))
                },
                5 => {
                    desc.push("fill".into());
                    Box::new(it.fill(9.0))
                },
                6 => {
                    desc.push("vclip".into());
                    it.vclip(1.0, if rng.chance(1, 2) { f64::NAN } else { 5.0 })
                },
                _ => {
                    desc.push("abs".into());
                    Box::new(it.abs())
                },
            };
        }
        let h0 = it.size_hint();
        w.line(&json!({"e": "new", "hint": h0.1.map(|x| x as i64).unwrap_or(-1), "lo": h0.0, "pipeline": desc.join(" . "), "len": len}));
        events += 1;
        let stop_after = if rng.chance(1, 3) { rng.range(0, 12) } else { 1000 };
        let mut steps = 0;
        loop {
            if steps >= stop_after {
                // hand the rest to a (safe) count: a trusted collector would allocate the hint
                let rest = Iterator::count(it);
                w.line(&json!({"e": "collect", "len": rest}));
                events += 1;
                break;
            }
            let got = it.next();
            let h = it.size_hint();
            w.line(&json!({"e": "next", "end": "F", "got": got.is_some() as i64, "hint": h.1.map(|x| x as i64).unwrap_or(-1), "lo": h.0}));
            events += 1;
            steps += 1;
            if got.is_none() || steps > 64 {
                break;
            }
        }
    }
    w.finish();
    println!("{}", json!({"t": "recorded", "runs": runs, "events": events}));
}
