"""C01  Rolling moments and weighted averages equal from-scratch window evaluation."""
import os
import sys
sys.path.insert(0, os.path.dirname(__file__))
from common import FEAT, BASE_ASSUMPTIONS, laws1  # noqa: E402

RULE = ("RollKernels.tla: streaming machine with the code's accumulators vs Stats.tla definitions; TLC checks NoDrift, "
        "MomentsAgree, OutDef on every history within the bound (BFS) and on random deep histories (simulate); every "
        "emitted history (all lengths 0..L, windows 1..W, every min_periods incl. omitted) is replayed into ts_sum..ts_kurt, "
        "ts_vsum..ts_vkurt, ts_fdiff, ts_vfdiff over the element-type star and the backend/path star; long random runs of "
        "the real kernels are validated step by step against TraceRoll.tla")


def run(ctx):
    q = ctx.quick
    r1 = ctx.tlc("roll-bfs", "MCRoll", "MCRoll_quick.cfg" if q else "MCRoll_thorough.cfg", workers=12 if q else 16,
                 timeout=600 if q else 5400)
    r2 = ctx.tlc("roll-sim", "MCRoll", "MCRoll_sim.cfg", sim=(250 if q else 4000, 13), workers=12, timeout=3000)
    # history-free configuration: a finite cyclic graph, so the invariants hold for histories of EVERY length
    ctx.tlc("roll-win", "MCRollWin", "MCRollWin_quick.cfg" if q else "MCRollWin_thorough.cfg", workers=12 if q else 16,
            timeout=900 if q else 7200, emit=False)
    # the add -> emit -> remove protocol for EVERY length, window and summand: what is emitted is the sum over exactly
    # the window, what stays is the part the next position keeps (TLA+ proof system, 95 obligations; index arithmetic
    # shared with Window.tla through WindowIdx.tla)
    ctx.tlaps("roll-sum-proof", "RollSumProof", needs=("WindowIdx",))
    binp = ctx.build("tvh-roll")
    extra = ([] if q else ["--full"]) + laws1(ctx)
    ctx.harness("roll-bfs", binp, ["replay-roll1", "--kernels", FEAT, "--in", r1["emitted"]] + extra)
    ctx.harness("roll-sim", binp, ["replay-roll1", "--kernels", FEAT, "--in", r2["emitted"]] + extra)
    # long windows (215 .. 260, thorough .. 400) on arithmetic progressions: closed forms of every definition
    # (LineLawOK checks closed form = definition within a bound), emitted as ordinary roll1 cases
    ctx.tlc("line-law", "MCLongLine", "MCLongLine_law.cfg", workers=4, timeout=900, emit=False)
    rl = ctx.tlc("long-line", "MCLongLine", "MCLongLine_quick.cfg" if q else "MCLongLine_thorough.cfg", workers=4, timeout=900)
    ctx.harness("long-line", binp, ["replay-roll1", "--kernels", FEAT, "--in", rl["emitted"]] + extra)
    n = 2 if q else 10
    for i in range(n):
        runs, steps = (3, 250) if q else (4, 1500)
        ctx.record_and_trace("roll-%d" % i, binp, ["record-roll1", "--seed", str(ctx.seed * 100 + i), "--runs", str(runs),
                                                   "--steps", str(steps)], "TraceRoll", runs)
    # wide windows (9..40): the streaming machine against the definitions far beyond the model-checked window sizes
    for i in range(1 if q else 6):
        runs, steps = (4, 200) if q else (6, 1200)
        ctx.record_and_trace("roll-wide-%d" % i, binp, ["record-roll1", "--wide", "--seed", str(ctx.seed * 100 + 0 + 20 + i),
                                                        "--runs", str(runs), "--steps", str(steps)], "TraceRoll", runs)
    ctx.assumptions += BASE_ASSUMPTIONS + [
        "plain family (ts_sum..ts_kurt, ts_fdiff) on null-free series only (DESIGN 5.7)",
        "skewness / kurtosis are bound by replay only: their exact denominators are too large to recover from a float "
        "in the trace direction",
    ]
