"""C15  Null and cast algebra is coherent across all element types."""
import os
import sys
sys.path.insert(0, os.path.dirname(__file__))
from common import BASE_ASSUMPTIONS  # noqa: E402

RULE = ("Casts.tla: element-type tags, value classes (null, -1 0 1 2 200 300, 1.5, +-inf) that exercise every branch of a "
        "cast, CastExp as the required outcome; TLC checks NullPreserved, OptionComposes, PredicatesCoherent and the "
        "comparator axioms (total preorder over all triples, nulls last in both directions) on the definition and emits one "
        "case per (source type, target type, value class) over f32 f64 i32 i64 isize u8 u64 usize bool, their Option forms, "
        "String and the time types; a macro-generated table maps every pair to the real Cast implementation; the null "
        "predicates and sort_cmp / sort_cmp_rev are replayed on every type")


def run(ctx):
    r = ctx.tlc("casts", "MCCasts", "MCCasts.cfg", workers=4, timeout=900)
    binp = ctx.build("tvh-time")
    ctx.harness("casts", binp, ["replay-casts", "--in", r["emitted"]])
    ctx.assumptions += BASE_ASSUMPTIONS[:1] + [
        "wrap-around and saturation (values outside the target's range, +-inf) are compared with the language's own `as` "
        "conversion in the harness: TLC's integers cannot express them (DESIGN 10)",
        "canonical nulls only (DESIGN 5.4); a None cast to a type without a null is a clean panic or a defined value",
        "string -> bool and date-time -> string pairs are not in the table (no usable Cast implementation / text form)",
    ]
