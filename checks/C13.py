"""C13  Element-wise mapping operations follow their positional definitions."""
import os
import sys
sys.path.insert(0, os.path.dirname(__file__))
from common import BASE_ASSUMPTIONS  # noqa: E402

RULE = ("MapOps.tla: positional definitions of shift / difference / percentage change / fills / clip / abs, the "
        "carried-state machines of forward / backward fill, and the laws (length preservation, fill touches only nulls, "
        "clip idempotent / inside bounds / monotone for lower <= upper, nulls stay null); TLC enumerates every series, "
        "every lag -len-3..len+3 and +-i32 extremes, null / non-null fill, every bound pair incl. null bounds; each case "
        "is replayed into the real adaptors on f64, Option<f64>, i32 series and Vec / Spy / VecDeque / ndarray views")


def run(ctx):
    q = ctx.quick
    r = ctx.tlc("map", "MCMapOps", "MCMapOps_c13.cfg" if q else "MCMapOps_c13_thorough.cfg", workers=8, timeout=3000)
    # forward fill for a series of ANY length: the carried-last-valid closure computes the positional definition
    # (TLA+ proof system with induction, 57 obligations; FFillIsClosure ties the machine of MapOps.tla to the recurrence)
    ctx.tlaps("fill-proof", "FillProof")
    binp = ctx.build("tvh-map")
    ctx.harness("map", binp, ["replay-map", "--only", "lag,fill,clip", "--in", r["emitted"]])
    # float series holding +-infinity (not a null; IEEE 754: inf - inf and inf / inf have no value)
    ri = ctx.tlc("map-inf", "MCMapOps", "MCMapOps_inf.cfg", workers=8, timeout=3000)
    ctx.harness("map-inf", binp, ["replay-map", "--only", "lag", "--in", ri["emitted"]])
    ctx.assumptions += BASE_ASSUMPTIONS + [
        "a lag of +-1000000 in the specification stands for i32::MAX / i32::MIN (any |n| >= len behaves alike)",
        "items are counted by plain safe iteration; the announced length is C09's subject",
    ]
