"""C17  Date-time, duration and time-of-day arithmetic obeys its inverse laws."""
import os
import sys
sys.path.insert(0, os.path.dirname(__file__))
from common import BASE_ASSUMPTIONS  # noqa: E402

RULE = ("TimeArith.tla: durations <<months, days, sec, ns>> as a group with integer scaling, month arithmetic with "
        "end-of-month clamping, truncation to day-dividing / whole-day / sub-second durations and to 1, 2, 3, 4, 6, 12 "
        "calendar months, time-of-day components; TLC checks AddSubInverse, DiffAddsBack, GroupAxioms, ScaleDistributes, "
        "TruncIsGreatestMultiple, MonthTruncIsPeriodStart, HmsRoundTrip on a grid of instants (month ends, leap days, year "
        "ends, pre-epoch), durations of all fixed units with both signs, month counts -1200..1200; every case is replayed "
        "into + - neg * on DateTime<U> / TimeDelta / Time, duration_trunc, Time::from_hms*, the Timelike getters")


def run(ctx):
    r = ctx.tlc("time", "MCTime", "MCTime_c17.cfg", workers=4, timeout=900)
    # the month-free laws (canonical representation, add/sub inverse, difference adds back, group axioms, unit changes
    # truncate toward the past and compose to the coarser unit, truncation to q seconds) for EVERY instant and duration:
    # TLA+ proof system, 217 obligations, on the operators TimeArith.tla itself uses (TimeIdx.tla)
    ctx.tlaps("time-proof", "TimeProof", needs=("TimeIdx",))
    binp = ctx.build("tvh-time")
    ctx.harness("time", binp, ["replay-time", "--in", r["emitted"]])
    ctx.assumptions += BASE_ASSUMPTIONS[:1] + [
        "representation map (harness, trusted): triples <-> i64 / chrono::Duration",
        "a duration added to a date-time is a whole number of the date-time's units (a finer duration is truncated by the "
        "unit and the inverse law does not apply to it)",
        "truncation durations are those that align with the day (divisors of a day, whole days, divisors of a second); "
        "chrono's duration_trunc needs both ends inside the nanosecond range",
    ]
