"""C05  Rolling outputs are input-length and null exactly during warm-up."""
import os
import sys
sys.path.insert(0, os.path.dirname(__file__))
from common import BASE_ASSUMPTIONS, laws1, laws2  # noqa: E402

RULE = ("MaskLaw / LenOK of RollKernels.tla and MaskLaw2 / LenOK2 of RollKernels2.tla over every null pattern (alphabet "
        "{0,1,NULL}), every length 0..L incl. empty and len < w, every window and min_periods incl. omitted; the null "
        "pattern and the length of every one of the ~40 entry points is replayed on the type and backend stars; a panic "
        "is a violation")


def run(ctx):
    q = ctx.quick
    r1 = ctx.tlc("mask1", "MCRoll", "MCRoll_mask.cfg" if q else "MCRoll_mask_thorough.cfg", workers=12, timeout=3000)
    r2 = ctx.tlc("mask2", "MCRoll2", "MCRoll2_mask.cfg" if q else "MCRoll2_mask_thorough.cfg", workers=12, timeout=3000)
    binp = ctx.build("tvh-roll")
    extra = [] if q else ["--full"]
    ctx.harness("mask1", binp, ["replay-roll1", "--mode", "mask", "--in", r1["emitted"]] + extra + laws1(ctx))
    ctx.harness("mask2", binp, ["replay-roll2", "--mode", "mask", "--in", r2["emitted"]] + extra + laws2(ctx))
    # random deep histories over a richer alphabet (-3..3 and nulls, length 12): in non-dyadic units the running
    # sums carry rounding residue, which must not turn a required null into a number (or the reverse)
    r3 = ctx.tlc("mask-sim", "MCRoll", "MCRoll_sim.cfg", sim=(40 if q else 1500, 13), workers=12, timeout=3000)
    ctx.harness("mask-sim", binp, ["replay-roll1", "--mode", "mask", "--in", r3["emitted"]] + extra + laws1(ctx))
    # the traces bind the mask at every step of long histories as well
    ctx.record_and_trace("roll", binp, ["record-roll1", "--seed", str(ctx.seed * 100 + 5), "--runs", "3", "--steps",
                                        "200" if q else "1500"], "TraceRoll", 3)
    ctx.record_and_trace("roll2", binp, ["record-roll2", "--seed", str(ctx.seed * 100 + 5), "--runs", "3", "--steps",
                                         "200" if q else "1500"], "TraceRoll2", 3)
    ctx.assumptions += BASE_ASSUMPTIONS + [
        "omitted min_periods of the extrema/rank family for len >= w only (DESIGN 5.3)",
        "where the statistic is mathematically undefined on the window the null pattern is left open (DESIGN 5.6)",
    ]
