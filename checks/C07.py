"""C07  Results are independent of input backend, output container and out-buffer path."""
import os
import sys
sys.path.insert(0, os.path.dirname(__file__))
from common import BASE_ASSUMPTIONS  # noqa: E402

RULE = ("Containers.tla: representations (plain buffer, ring buffer with every head offset, strided / reversed views, "
        "chunked arrays with validity) with the refinement mapping Logical(c); AccessorsAgree and RingLive checked by TLC for "
        "every representation parameter within the bound; every representation is built as the REAL container (VecDeque "
        "rotated to the head, ndarray slice with the stride, Polars chunks appended one by one in the thorough tier) and its "
        "accessors compared with Logical(c); one representative of every function family (20 rolling kernels, the custom "
        "drivers, 9 mapping, 13 aggregation functions) must be bit-identical to the Vec<f64> result on every representation, "
        "wrapper (Arc, option view, fixed array), output container and output path")


def run(ctx):
    q = ctx.quick
    r = ctx.tlc("cont", "MCContainers", "MCContainers_quick.cfg" if q else "MCContainers_thorough.cfg", workers=8, timeout=3000)
    # slot -> cell maps of rings and strided views: in the storage and injective for EVERY capacity, head, offset and
    # stride (TLA+ proof system, 105 obligations; the operators are Containers.tla's own, ContIdx.tla)
    ctx.tlaps("containers-proof", "ContainersProof", needs=("ContIdx",))
    binp = ctx.build("tvh-cont", features="pl", timeout=6000)
    ctx.harness("cont", binp, ["replay-cont", "--in", r["emitted"]])
    # the driver-level matrix of C02 (call protocol on every backend / output / path) belongs here too
    rw = ctx.tlc("window", "MCWindow", "MCWindow_small.cfg" if q else "MCWindow.cfg", workers=8, timeout=900)
    rollb = ctx.build("tvh-roll")
    ctx.harness("window", rollb, ["replay-window", "--only", "ok", "--full", "--in", rw["emitted"]])
    rr = ctx.tlc("roll", "MCRoll", "MCRoll_quick.cfg", workers=12, timeout=900)
    ctx.harness("roll-backends", rollb, ["replay-roll1", "--full", "--kernels", "sum,std,min,argmax,rank,zscore,reg,fd_1_2",
                                         "--in", rr["emitted"]])
    ctx.assumptions += BASE_ASSUMPTIONS + [
        "std VecDeque, ndarray and Polars internals are trusted; the specification models the adapter logic tevec adds",
        "the harness is built with the Polars feature in both tiers (bin/check --setup pays the cold build once)",
        "what a driver reports as removed at the final position of a window longer than the series is left open by C02 and "
        "excluded from the bit-identity comparison",
    ]
