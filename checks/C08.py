"""C08  NaN and None are the same null, and nulls are transparent to valid aggregations."""
import os
import sys
sys.path.insert(0, os.path.dirname(__file__))
from common import BASE_ASSUMPTIONS  # noqa: E402

RULE = ("NullTransparent of Agg.tla and the Sel / PairSel structure of every definition (TLC, all series and all null "
        "positions within the bound); on the real code: (i) every aggregation / order statistic / rolling kernel is "
        "replayed under the NaN-coded, None-coded and option-view encodings with f64 / f32 / Option<f64> / i32 outputs "
        "against one expectation, (ii) NaN-coded vs None-coded results must be bit-identical, (iii) deleting the nulls "
        "(pairwise for two series) must leave every aggregation bit-identical")


def run(ctx):
    q = ctx.quick
    r1 = ctx.tlc("agg", "MCAgg", "MCAgg_quick.cfg" if q else "MCAgg_thorough.cfg", workers=12, timeout=3000)
    r2 = ctx.tlc("agg2", "MCAgg", "MCAgg2_quick.cfg" if q else "MCAgg2_thorough.cfg", workers=12, timeout=3000)
    r3 = ctx.tlc("roll", "MCRoll", "MCRoll_quick.cfg", workers=12, timeout=900)
    r4 = ctx.tlc("order", "MCOrder", "MCOrder_quick.cfg", workers=12, timeout=900)
    aggb = ctx.build("tvh-agg")
    rollb = ctx.build("tvh-roll", features=None)
    ctx.harness("nulls1", aggb, ["replay-nulls", "--in", r1["emitted"]])
    ctx.harness("nulls2", aggb, ["replay-nulls", "--in", r2["emitted"]])
    ctx.harness("agg-enc", aggb, ["replay-agg", "--in", r1["emitted"]])
    ctx.harness("order-enc", aggb, ["replay-order", "--in", r4["emitted"]])
    ctx.harness("roll-enc", rollb, ["replay-roll1", "--full", "--in", r3["emitted"]])
    mapb = ctx.build("tvh-map")
    r5 = ctx.tlc("map", "MCMapOps", "MCMapOps_quick.cfg", workers=8, timeout=900)
    ctx.harness("map-enc", mapb, ["replay-map", "--in", r5["emitted"]])
    ctx.assumptions += BASE_ASSUMPTIONS + [
        "canonical nulls only: NaN for floats, None for options; Some(NaN) is not generated (DESIGN 5.4)",
    ]
