"""C20  Composite analytics terminate within range and respect their defining relations."""
import os
import sys
sys.path.insert(0, os.path.dirname(__file__))
from common import BASE_ASSUMPTIONS  # noqa: E402

RULE = ("HalfLife.tla: the doubling / bisection search over every above-1/2 pattern of every length within the bound - "
        "NoUnderflow, BracketInv, InRange, ResultLaw and the liveness property Terminates (weak fairness, no state "
        "constraint); Composite.tla decides the pattern of a concrete integer series exactly in integers, so the machine is "
        "also started from every series over the alphabet - and from a ramp of length 10..13 under every null mask - and its "
        "result replayed into half_life under a watchdog; "
        "winsorize (3 methods) as clipping to exact rational / surd bounds and Spearman as Pearson of average ranks are "
        "enumerated and replayed, incl. order preservation and invariance under strictly increasing maps on the real code")


def run(ctx):
    q = ctx.quick
    ctx.tlc("half-life-patterns", "HalfLife", "HalfLife.cfg" if q else "HalfLife_thorough.cfg", workers=8, timeout=3000, emit=False)
    r = ctx.tlc("composite", "MCComposite", "MCComposite_quick.cfg" if q else "MCComposite_thorough.cfg", workers=12,
                timeout=6000)
    # a persistent ramp of length 10..11 (thorough ..13) under EVERY null mask: interior gaps make lags beyond the
    # number of valid observations meaningful
    rr = ctx.tlc("ramp", "MCComposite", "MCComposite_ramp.cfg" if ctx.quick else "MCComposite_ramp_thorough.cfg", workers=12, timeout=3000)
    binp = ctx.build("tvh-agg")
    ctx.harness("composite", binp, ["replay-composite", "--in", r["emitted"]])
    ctx.harness("ramp", binp, ["replay-composite", "--in", rr["emitted"]])
    ctx.assumptions += BASE_ASSUMPTIONS + [
        "the exact half-life is required of monotone above-1/2 patterns only; a series with a lag whose autocorrelation is "
        "exactly 1/2 is compared on range and termination only (the float comparison may fall either way)",
        "integer element types cannot hold the null that lagging introduces: half_life is driven with float and optional "
        "series (DESIGN 5.8)",
        "non-termination is detected by a 5 s watchdog",
    ]
