"""C20  Composite analytics terminate within range and respect their defining relations."""
import os
import sys
sys.path.insert(0, os.path.dirname(__file__))
from common import BASE_ASSUMPTIONS  # noqa: E402

RULE = ("HalfLife.tla: the doubling / bisection search over every above-1/2 pattern of every length within the bound - "
        "NoUnderflow, BracketInv, InRange, ResultLaw and the liveness property Terminates (weak fairness, no state "
        "constraint); HalfLifeProof.tla proves NoUnderflow, BracketInv, InRange and the strictly shrinking bracket for EVERY "
        "length and pattern, and ResultLaw for every monotone pattern, with the TLA+ proof system (113 obligations; the swapped bracket of the pinned tree fails it); Composite.tla decides the pattern of a concrete integer series exactly in integers, so the machine is "
        "also started from every series over the alphabet - and from a ramp of length 10..13 under every null mask - and its "
        "result replayed into half_life under a watchdog; "
        "winsorize (3 methods) as clipping to exact rational / surd bounds and Spearman as Pearson of average ranks are "
        "enumerated and replayed, incl. order preservation and invariance under strictly increasing maps on the real code")


def run(ctx):
    q = ctx.quick
    ctx.tlc("half-life-patterns", "HalfLife", "HalfLife.cfg" if q else "HalfLife_thorough.cfg", workers=8, timeout=3000, emit=False)
    # the same three actions for EVERY length and EVERY above-1/2 pattern (TLA+ proof system): the safety invariants and
    # the variant that makes the search terminate (the bracket shrinks strictly, the doubled lag is bounded)
    ctx.tlaps("half-life-proof", "HalfLifeProof")
    r = ctx.tlc("composite", "MCComposite", "MCComposite_quick.cfg" if q else "MCComposite_thorough.cfg", workers=12,
                timeout=6000)
    # a persistent ramp of length 10..11 (thorough ..13) under EVERY null mask: interior gaps make lags beyond the
    # number of valid observations meaningful
    rr = ctx.tlc("ramp", "MCComposite", "MCComposite_ramp.cfg" if ctx.quick else "MCComposite_ramp_thorough.cfg", workers=12, timeout=3000)
    # level shifts (m values at one level, m at another): the autocorrelation meets 1/2 EXACTLY at lag m/2 - the
    # tie the bisection has to decide; both resolutions are behaviours, the replay follows the library's own value
    rs = ctx.tlc("shift", "MCComposite", "MCComposite_shift.cfg", workers=8, timeout=3000)
    binp = ctx.build("tvh-agg")
    ctx.harness("composite", binp, ["replay-composite", "--in", r["emitted"]])
    ctx.harness("ramp", binp, ["replay-composite", "--in", rr["emitted"]])
    ctx.harness("shift", binp, ["replay-composite", "--in", rs["emitted"]])
    ctx.assumptions += BASE_ASSUMPTIONS + [
        "the exact half-life is required of monotone above-1/2 patterns only; where a lag's autocorrelation is exactly 1/2 "
        "TLC emits one behaviour per resolution and the replay follows the one the library's own autocorrelation "
        "(vcorr_pearson of the series and its lag, checked under C11) takes on that input",
        "integer element types cannot hold the null that lagging introduces: half_life is driven with float and optional "
        "series (DESIGN 5.8)",
        "non-termination is detected by a 120 s watchdog (wall clock: generous, because a loaded machine can starve a thread for seconds)",
    ]
