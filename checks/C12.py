"""C12  Quantiles, percentile ranks, ranks and partitions are true order statistics."""
import os
import sys
sys.path.insert(0, os.path.dirname(__file__))
from common import BASE_ASSUMPTIONS  # noqa: E402

RULE = ("OrderStats.tla: quantile at the exact rational index (n-1)q under four interpolations (q grid incl. knife-edges, "
        "DESIGN 5.5), percentile-of-score, average ranks, partitions as multiset specifications; the mirrored selection "
        "for q > 1/2 and vrank's run-length loop are operational models checked against the definitions (MirrorOK, "
        "RankLoopOK incl. write-once); every series within the bound is replayed into vquantile / vmedian / "
        "vpercentile_of / vrank / vpartition / varg_partition on f64, Option<f64>, Option<i32>, i32 and instrumented inputs; "
        "random long series (lengths 17..64, Randomization!RandomSubset as initial states) are replayed the same way, "
        "because selection changes strategy with the length")


def run(ctx):
    q = ctx.quick
    r = ctx.tlc("order", "MCOrder", "MCOrder_quick.cfg" if q else "MCOrder_thorough.cfg", workers=12, timeout=3000)
    # selection switches strategy with the length: random long series (17..47, thorough ..64) as initial states
    rl = ctx.tlc("order-long", "MCOrder", "MCOrder_long.cfg" if q else "MCOrder_long_thorough.cfg", workers=4, timeout=3000)
    binp = ctx.build("tvh-agg")
    ctx.harness("order", binp, ["replay-order", "--in", r["emitted"]])
    ctx.harness("order-long", binp, ["replay-order", "--in", rl["emitted"]])
    ctx.assumptions += BASE_ASSUMPTIONS + [
        "where (n-1)q is an integer and q is not a binary fraction the result for either neighbouring index is accepted "
        "(DESIGN 5.5)",
        "arg-partition is compared as a set of distinct indices of non-null elements selecting the required multiset "
        "(ties make the index set non-unique)",
    ]
