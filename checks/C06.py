"""C06  Rolling and lagging results never depend on later (or pre-window) data."""
import os
import sys
sys.path.insert(0, os.path.dirname(__file__))
from common import BASE_ASSUMPTIONS  # noqa: E402

RULE = ("AppendOnly (action property) + OutDef of RollKernels/RollKernels2 make emitted outputs final and a function of "
        "the window only; the binding evaluates the real functions on every prefix of every emitted history (bit-for-bit "
        "equality with the whole-series run, every cut 0..len) and re-runs every history with its pre-window part "
        "replaced by other finite values (exact equality for min/max/arg/rank, rounding tolerance otherwise)")


def run(ctx):
    q = ctx.quick
    r1 = ctx.tlc("roll-bfs", "MCRoll", "MCRoll_quick.cfg" if q else "MCRoll_c06_thorough.cfg", workers=12, timeout=3000)
    r2 = ctx.tlc("roll2-bfs", "MCRoll2", "MCRoll2_mask.cfg" if q else "MCRoll2_quick.cfg", workers=12, timeout=3000)
    r3 = ctx.tlc("roll-sim", "MCRoll", "MCRoll_sim.cfg", sim=(60 if q else 600, 13), workers=12, timeout=3000)
    binp = ctx.build("tvh-roll")
    L1 = "4" if q else "5"
    ctx.harness("prefix1", binp, ["replay-prefix", "--len", L1, "--in", r1["emitted"]])
    ctx.harness("prefix2", binp, ["replay-prefix", "--len", "3", "--in", r2["emitted"]])
    ctx.harness("prefix-sim", binp, ["replay-prefix", "--len", "12", "--in", r3["emitted"]])
    ctx.harness("history1", binp, ["replay-history", "--len", L1, "--mag", "1000", "--seed", str(ctx.seed), "--in", r1["emitted"]])
    ctx.harness("history-sim", binp, ["replay-history", "--len", "12", "--mag", "1000", "--seed", str(ctx.seed + 1), "--in", r3["emitted"]])
    if not q:
        ctx.harness("history-big", binp, ["replay-history", "--len", "12", "--mag", "1000000", "--seed", str(ctx.seed + 2),
                                          "--in", r3["emitted"]])
    mapbin = ctx.build("tvh-map")
    rm = ctx.tlc("lag", "MCMapOps", "MCMapOps_lag.cfg", workers=8, timeout=900)
    ctx.harness("lag-prefix", mapbin, ["replay-lag-prefix", "--in", rm["emitted"]])
    ctx.assumptions += BASE_ASSUMPTIONS + [
        "pre-window histories are finite integers of magnitude <= 1000 (<= 10^6 in the thorough tier, skew/kurt excluded "
        "there): +-inf and magnitudes whose powers are not exact in f64 are excluded (DESIGN 5.2)",
        "omitted min_periods of the extrema/rank family is excluded from the prefix law (a prefix shorter than the window "
        "legitimately uses another default, DESIGN 5.3)",
    ]
