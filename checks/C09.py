"""C09  Trusted-length iterators yield exactly as many items as they announce."""
import os
import sys
sys.path.insert(0, os.path.dirname(__file__))
from common import BASE_ASSUMPTIONS  # noqa: E402

RULE = ("TrustedIter.tla: (1) every adaptor lowered to the std combinators it is built from with the length it declares - "
        "ConstructionTruthful for every lag -len-3..len+3, kth 0..len+2, window 1..len+2, empty input; (2) the consumption "
        "machine of the library's TrustIter / Linspace under every interleaving of next / next_back - HintExact in every "
        "reachable state; every (adaptor, parameters, schedule) is replayed on the real iterator with the size hint read "
        "before consumption and after every step from either end; random pipelines of depth 1..6 are recorded and "
        "validated against TraceIter.tla, where TLC infers the unlogged yield count; TrustProof.tla proves the closed forms of "
        "the lowered adaptors (ClosedFormsAgree ties them to the combinator trees) equal to the required length for EVERY "
        "source length, lag, window and k, and the unsigned subtraction of the lowering guarded, with the TLA+ proof system")


def run(ctx):
    q = ctx.quick
    r = ctx.tlc("iter", "MCIter", "MCIter_quick.cfg" if q else "MCIter_thorough.cfg", workers=8, timeout=3000)
    # declared = yielded = required length for EVERY source length, lag, window and k (TLA+ proof system, on the closed
    # forms that ClosedFormsAgree ties to the combinator trees)
    ctx.tlaps("trust-proof", "TrustProof", needs=("TrustIdx",))
    binp = ctx.build("tvh-iter")
    ctx.harness("iter", binp, ["replay-iter", "--in", r["emitted"]])
    rg = ctx.tlc("gen", "MCGen", "MCGen_quick.cfg", workers=4, timeout=900)
    ctx.harness("gen", binp, ["replay-gen", "--in", rg["emitted"]])
    n = 3 if q else 12
    for i in range(n):
        runs = 300 if q else 1500
        ctx.record_and_trace("iter-%d" % i, binp, ["record-iter", "--seed", str(ctx.seed * 100 + i), "--runs", str(runs)],
                             "TraceIter", runs)
    ctx.assumptions += BASE_ASSUMPTIONS + [
        "std's own combinators (chain, take, skip, zip, repeat_n, map, rev) are trusted to keep exact size hints",
        "an iterator is handed to the trusted collectors only after safe iteration has confirmed its count, so that a "
        "broken hint is reported instead of corrupting the harness",
        "the raw Linspace iterator type is not public: range / linspace are bound through their collected results",
    ]
