"""C16  Time values: NaT is absorbing and unit changes agree with the calendar."""
import os
import sys
sys.path.insert(0, os.path.dirname(__file__))
from common import BASE_ASSUMPTIONS  # noqa: E402

RULE = ("TimeArith.tla: instants as mixed-radix triples <<day, sec, ns>> (truncation toward the past is structural), the "
        "proleptic Gregorian calendar, NaT-absorbing operators; TLC checks CoarserIsFloor, FinerAndBack, TruncTowardPast, "
        "CalendarRoundTrip and the NaT laws on a grid with the nanosecond range limits, pre-epoch instants not divisible by "
        "the unit ratio, the epoch neighbourhood, leap days; every instant x 4x4 unit pairs is replayed into into_unit / the "
        "unit casts, the calendar getters, as_cr / From<chrono>, into_opt_i64, and compared with chrono's own reading")


def run(ctx):
    r = ctx.tlc("time", "MCTime", "MCTime_c16.cfg", workers=4, timeout=900)
    binp = ctx.build("tvh-time")
    ctx.harness("time", binp, ["replay-time", "--in", r["emitted"]])
    ctx.assumptions += BASE_ASSUMPTIONS[:1] + [
        "representation map (harness, trusted): <<day, sec, ns>> <-> i64 count of units since the epoch in i128 arithmetic",
        "chrono is the reference calendar the property names; its internals are trusted",
        "refining a unit is exercised only where the result fits i64 (the representable range of the finer unit)",
    ]
