"""C16  Time values: NaT is absorbing and unit changes agree with the calendar."""
import os
import sys
sys.path.insert(0, os.path.dirname(__file__))
from common import BASE_ASSUMPTIONS  # noqa: E402

RULE = ("TimeArith.tla: instants as mixed-radix triples <<day, sec, ns>> (truncation toward the past is structural), the "
        "proleptic Gregorian calendar, NaT-absorbing operators; TLC checks CoarserIsFloor, FinerAndBack, TruncTowardPast, "
        "CalendarRoundTrip and the NaT laws on a grid with the nanosecond range limits, pre-epoch instants not divisible by "
        "the unit ratio, the epoch neighbourhood, leap days; every instant x 4x4 unit pairs is replayed into into_unit / the "
        "unit casts, the calendar getters, as_cr / From<chrono>, into_opt_i64, and compared with chrono's own reading; the null "
        "rule of Casts.tla (NullPreserved) is replayed on date-time (all four units) / duration / time-of-day against every "
        "numeric and optional target type")


def run(ctx):
    r = ctx.tlc("time", "MCTime", "MCTime_c16.cfg", workers=4, timeout=900)
    # the month-free laws (canonical representation, add/sub inverse, difference adds back, group axioms, unit changes
    # truncate toward the past and compose to the coarser unit, truncation to q seconds) for EVERY instant and duration:
    # TLA+ proof system, 217 obligations, on the operators TimeArith.tla itself uses (TimeIdx.tla)
    ctx.tlaps("time-proof", "TimeProof", needs=("TimeIdx",))
    binp = ctx.build("tvh-time")
    ctx.harness("time", binp, ["replay-time", "--in", r["emitted"]])
    # "NaT converts to None": the null rule of the cast algebra (Casts.tla) on the time types, every unit
    rc = ctx.tlc("casts", "MCCasts", "MCCasts.cfg", workers=4, timeout=900)
    ctx.harness("time-casts", binp, ["replay-casts", "--only-time", "--in", rc["emitted"]])
    ctx.assumptions += BASE_ASSUMPTIONS[:1] + [
        "representation map (harness, trusted): <<day, sec, ns>> <-> i64 count of units since the epoch in i128 arithmetic",
        "chrono is the reference calendar the property names; its internals are trusted",
        "refining a unit is exercised only where the result fits i64 (the representable range of the finer unit)",
    ]
