"""C10  Kernels never index out of bounds and initialise every output slot exactly once."""
import os
import sys
sys.path.insert(0, os.path.dirname(__file__))
from common import BASE_ASSUMPTIONS  # noqa: E402

RULE = ("Window.tla: ReadsInBounds, WriteOnce, InitAtDone, DegenerateIsClean for every driver form / body / len / len2 / "
        "window incl. window 0, window > len, empty input, mismatched second series; OrderStats.tla: vrank's run-length loop "
        "as its list of writes (RankLoopOK). Binding: every driver and every rolling kernel is run on an instrumented input "
        "container (every unchecked access logged, bounds-checked) into an instrumented output buffer (every write logged, "
        "checked at exposure) on the returned and the caller-buffer path; vrank / vpartition / varg_partition / vquantile "
        "likewise; the event logs of random larger runs incl. degenerate requests are validated against TraceWindow.tla; "
        "WindowProof.tla proves the drivers' index arithmetic (the operators Window.tla itself uses, WindowIdx.tla) in bounds, "
        "write-once and complete for EVERY length and window with the TLA+ proof system")


def run(ctx):
    q = ctx.quick
    r = ctx.tlc("window", "MCWindow", "MCWindow.cfg" if q else "MCWindow_thorough.cfg", workers=8, timeout=900)
    ro = ctx.tlc("order", "MCOrder", "MCOrder_quick.cfg", workers=12, timeout=900)
    # the index arithmetic of the drivers (shared with Window.tla through WindowIdx.tla) proved in bounds, each slot
    # written once and all of them at the end, for EVERY length and window: TLA+ proof system, 55 obligations
    ctx.tlaps("window-proof", "WindowProof", needs=("WindowIdx",))
    rk = ctx.tlc("window-small", "MCWindow", "MCWindow_small.cfg", workers=8, timeout=900) if q else r
    binp = ctx.build("tvh-roll")
    aggb = ctx.build("tvh-agg")
    ctx.harness("window", binp, ["replay-window", "--in", r["emitted"]] + ([] if q else ["--full"]))
    ctx.harness("kernels", binp, ["replay-kernel-safety", "--in", rk["emitted"]])
    ctx.harness("order", aggb, ["replay-order", "--only", "ranks,part,quant", "--in", ro["emitted"]])
    n = 3 if q else 12
    for i in range(n):
        runs = 60 if q else 150
        ctx.record_and_trace("window-%d" % i, binp, ["record-window", "--degenerate", "--seed", str(ctx.seed * 1000 + 500 + i),
                                                     "--runs", str(runs), "--maxlen", "40" if q else "120"],
                             "TraceWindow", runs)
    ctx.assumptions += BASE_ASSUMPTIONS + [
        "accesses to kernel-internal scratch (the argsort buffer of vrank, select_nth internals) are visible only through "
        "the writes they lead to and through the design-level model (DESIGN 10)",
        "a mismatched second series is only ever handed over in the instrumented container, so that an out-of-range read is "
        "logged instead of performed",
    ]
