"""C19  Generators and collectors build exactly the requested sequence."""
import os
import sys
sys.path.insert(0, os.path.dirname(__file__))
from common import BASE_ASSUMPTIONS  # noqa: E402

RULE = ("Generators.tla: range as the progression strictly before the end in the direction of the step with the exact count "
        "law (RangeExact), linspace ends, first-error rule, and the writer machine (decide, then write slot by slot; "
        "WriterRule: every slot exactly once or none); TLC enumerates start / end / step incl. negative steps, non-divisible "
        "and empty spans, n 0..N, errors at every position, every buffer / iterator length pair; each case is replayed into "
        "Vec1Create::range / linspace, Vec1::full / empty, the six collect_* forms on Vec / VecDeque / ndarray and "
        "write_trust_iter on an instrumented and an ordinary buffer; RangeProof.tla proves the count law (none beyond, none "
        "missing) for every integer start / end and every non-zero step with the TLA+ proof system")


def run(ctx):
    q = ctx.quick
    rg = ctx.tlc("gen", "MCGen", "MCGen_quick.cfg" if q else "MCGen_thorough.cfg", workers=4, timeout=900)
    # the count law of range for EVERY integer start, end and non-zero step (TLA+ proof system; the operators are the
    # ones Generators.tla itself uses, RangeIdx.tla): 87 obligations
    ctx.tlaps("range-proof", "RangeProof", needs=("RangeIdx",))
    binp = ctx.build("tvh-iter")
    ctx.harness("gen", binp, ["replay-gen", "--in", rg["emitted"]])
    ctx.assumptions += BASE_ASSUMPTIONS + [
        "float ranges are driven with integers and quarter-integers (exact in binary floating point)",
        "integer linspace is checked structurally (n elements, starts at start, constant step): the step value of an integer "
        "linspace is integer division and not pinned by the property",
    ]
