"""C14  Binning assigns the unique enclosing bin; run de-duplication keeps run ends."""
import os
import sys
sys.path.insert(0, os.path.dirname(__file__))
from common import BASE_ASSUMPTIONS  # noqa: E402

RULE = ("MapOps.tla: CutOne (enclosing interval, closedness, open outer bounds, errors), UniqueBin / OpenBoundsTotal laws, "
        "and the sorted-unique look-ahead machine (Keep::First / Keep::Last) against first / last index of each run; TLC "
        "enumerates every ascending edge vector of size 0..5 x 0..6 labels x both flags with values on / between / beyond "
        "the edges, the type's MIN and MAX and null, and every grouped series with null blocks at head or tail; each case "
        "is replayed into vcut / vsorted_unique_idx / vsorted_unique")


def run(ctx):
    q = ctx.quick
    r = ctx.tlc("map", "MCMapOps", "MCMapOps_c14.cfg" if q else "MCMapOps_c14_thorough.cfg", workers=8, timeout=3000)
    # at most one interval contains a value, none beyond the outer edges, one between them - for ascending edge
    # vectors of ANY length (TLA+ proof system with induction, 116 obligations; InBin is MapOps.tla's own, CutIdx.tla)
    ctx.tlaps("cut-proof", "CutProof", needs=("CutIdx",))
    binp = ctx.build("tvh-map")
    ctx.harness("map", binp, ["replay-map", "--only", "uniq,cut", "--in", r["emitted"]])
    ctx.assumptions += BASE_ASSUMPTIONS + [
        "TMIN / TMAX of the specification are mapped to i32::MIN/MAX and f64::MIN/MAX by the harness",
        "labels with a null only (f64, Option<i32>): an integer label type cannot carry the null label (DESIGN 5.8)",
        "sorted-unique is specified on inputs whose equal values are adjacent with nulls in one block at head or tail",
    ]
