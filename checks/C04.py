"""C04  Rolling covariance, correlation and regressions equal per-window least squares."""
import os
import sys
sys.path.insert(0, os.path.dirname(__file__))
from common import TREND, BASE_ASSUMPTIONS, laws1, laws2  # noqa: E402

RULE = ("RollKernels2.tla (cross sums as coded vs normal-equation definitions over pairwise-complete observations, "
        "residuals explicit) and the trend family of RollKernels.tla; TLC checks NoDrift2, OutDef2, "
        "PerfectLineZeroResidual over all pairs of series within the bound, and NoDrift2W / Step2OK on the history-free graph (RollWin2.tla: any number of additions and removals); every emitted pair is replayed into the 2 "
        "binary, 6 regression-on-x (incl. the alpha/beta/SSE triple) and 5 trend entry points; long random pair runs are "
        "validated against TraceRoll2.tla")


def run(ctx):
    q = ctx.quick
    r2 = ctx.tlc("roll2-bfs", "MCRoll2", "MCRoll2_quick.cfg" if q else "MCRoll2_thorough.cfg", workers=12 if q else 16,
                 timeout=900 if q else 7200)
    r1 = ctx.tlc("roll-bfs", "MCRoll", "MCRoll_quick.cfg", workers=12, timeout=600)
    # history-free configuration of the cross sums: a finite cyclic graph, histories of every length
    ctx.tlc("roll2-win", "MCRollWin2", "MCRollWin2_quick.cfg" if q else "MCRollWin2_thorough.cfg", workers=12 if q else 16,
            timeout=900 if q else 7200, emit=False)
    # the add -> emit -> remove protocol for EVERY length, window and summand: what is emitted is the sum over exactly
    # the window, what stays is the part the next position keeps (TLA+ proof system, 95 obligations; index arithmetic
    # shared with Window.tla through WindowIdx.tla)
    ctx.tlaps("roll-sum-proof", "RollSumProof", needs=("WindowIdx",))
    binp = ctx.build("tvh-roll")
    extra = [] if q else ["--full"]
    l1, l2 = laws1(ctx), laws2(ctx)
    ctx.harness("roll2", binp, ["replay-roll2", "--in", r2["emitted"]] + extra + l2)
    ctx.harness("trend", binp, ["replay-roll1", "--kernels", TREND, "--in", r1["emitted"]] + extra + l1)
    # long windows (215 .. 260, thorough .. 400) on arithmetic progressions: closed forms of every definition
    # (LineLawOK checks closed form = definition within a bound), emitted as ordinary roll1 cases
    ctx.tlc("line-law", "MCLongLine", "MCLongLine_law.cfg", workers=4, timeout=900, emit=False)
    rl = ctx.tlc("long-line", "MCLongLine", "MCLongLine_quick.cfg" if q else "MCLongLine_thorough.cfg", workers=4, timeout=900)
    ctx.harness("long-line", binp, ["replay-roll1", "--kernels", TREND, "--in", rl["emitted"]] + extra + l1)
    # one window of 56000 observations (tick data): n(n+1)(2n+1) * n leaves 64 bits beyond n = 55108
    rh = ctx.tlc("huge-line", "MCLongLine", "MCLongLine_huge.cfg", workers=2, timeout=1800)
    ctx.harness("huge-line", binp, ["replay-roll1", "--kernels", TREND, "--in", rh["emitted"]] + l1)
    # random deep pair histories (length 9, windows to 7): long enough for the running sums to carry rounding
    # residue in non-dyadic units (this is what exposed the single-pair ts_vcorr defect)
    r3 = ctx.tlc("roll2-sim", "MCRoll2", "MCRoll2_sim.cfg", sim=(40 if q else 3000, 9), workers=12, timeout=3000)
    ctx.harness("roll2-sim", binp, ["replay-roll2", "--in", r3["emitted"]] + extra + l2)
    n = 2 if q else 8
    for i in range(n):
        runs, steps = (3, 250) if q else (4, 1200)
        ctx.record_and_trace("roll2-%d" % i, binp, ["record-roll2", "--seed", str(ctx.seed * 100 + i), "--runs", str(runs),
                                                    "--steps", str(steps)], "TraceRoll2", runs)
    ctx.record_and_trace("trend", binp, ["record-roll1", "--seed", str(ctx.seed * 100 + 77), "--runs", "2", "--steps",
                                         "250" if q else "1500"], "TraceRoll", 2)
    ctx.assumptions += BASE_ASSUMPTIONS + [
        "regression on a constant regressor and correlation of a zero-variance window are unspecified (DESIGN 5.6)",
        "SSE / residual std / residual skew are bound by replay only (denominators too large for the trace projection)",
    ]
