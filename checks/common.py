"""Pieces shared by the rolling checks."""
FEAT = "sum,mean,ewm,wma,var,std,skew,kurt,fd_1_2,fd_1_1,fd_3_2,fd_2_1"
ORDER = "min,max,argmin,argmax,rank,rank_rev,rank_pct,rank_rev_pct,zscore,minmaxnorm"
TREND = "reg,tsf,slope,intercept,mse"

BASE_ASSUMPTIONS = [
    "TLC 1.8.0 and the TLA+ semantics of the specification modules are trusted",
    "values are small integers / NULL in the specification and the same values as f64/f32/i32/i64/Option<_> in the "
    "code; 'up to rounding' is |got-want| <= 1e-9*max(1,|want|) for f64 outputs, 2e-6 for f32, exact for integer-valued "
    "kinds (DESIGN 3.3)",
    "numeric accuracy on non-integer data, f32 accumulation, overflow to +-inf are outside the specification (DESIGN 10)",
]


def roll_sim_num(ctx, quick, thorough):
    return quick if ctx.quick else thorough
