"""Pieces shared by the rolling checks."""
FEAT = "sum,mean,ewm,wma,var,std,skew,kurt,fd_1_2,fd_1_1,fd_3_2,fd_2_1"
ORDER = "min,max,argmin,argmax,rank,rank_rev,rank_pct,rank_rev_pct,zscore,minmaxnorm"
TREND = "reg,tsf,slope,intercept,mse"

BASE_ASSUMPTIONS = [
    "TLC 1.8.0 and the TLA+ semantics of the specification modules are trusted",
    "values are small integers / NULL in the specification and the same values as f64/f32/i32/i64/Option<_> in the "
    "code; 'up to rounding' is |got-want| <= 1e-9*max(1,|want|) for f64 outputs, 2e-6 for f32, exact for integer-valued "
    "kinds (DESIGN 3.3)",
    "other units of measurement (Laws1.tla / Laws2.tla: 1.3e-4, 123467.8, 4e8 for i32, 1.5e18 for i64 ...) are compared to "
    "1e-6 relative to the magnitude of the statistic's terms: they look for overflow, absorption and absolute thresholds, "
    "not for the last digits; last-digit accuracy on non-integer data and overflow to +-inf stay outside (DESIGN 10)",
]


def laws1(ctx):
    """Laws1.tla: TLC checks homogeneity of every one-series kernel and emits the degree table."""
    r = ctx.tlc("laws1", "MCLaws1", "MCLaws1_quick.cfg" if ctx.quick else "MCLaws1_thorough.cfg", workers=8, timeout=3000)
    return ["--laws", r["emitted"]]


def laws2(ctx):
    r = ctx.tlc("laws2", "MCLaws2", "MCLaws2_quick.cfg" if ctx.quick else "MCLaws2_thorough.cfg", workers=8, timeout=3000)
    return ["--laws", r["emitted"]]


def roll_sim_num(ctx, quick, thorough):
    return quick if ctx.quick else thorough
