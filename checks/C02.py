"""C02  Rolling drivers call back once per position with exactly the right window."""
RULE = ("TLC enumerates every (driver form, body, len, len2, window) of Window.tla within the bounds and checks the "
        "driver machine against the required protocol; each (form, len, len2, w) is replayed into the real drivers "
        "on every backend / output / path cell with a recording stateful callback; random larger runs are recorded "
        "as event traces and validated against TraceWindow.tla")


def run(ctx):
    cfg = "MCWindow.cfg" if ctx.quick else "MCWindow_thorough.cfg"
    r = ctx.tlc("window", "MCWindow", cfg, workers=8, timeout=600)
    # the same index arithmetic for every length and window (TLA+ proof system; see C10)
    ctx.tlaps("window-proof", "WindowProof", needs=("WindowIdx",))
    binp = ctx.build("tvh-roll")
    args = ["replay-window", "--only", "ok", "--in", r["emitted"]]
    if not ctx.quick:
        args.append("--full")
    ctx.harness("window", binp, args)
    import os
    import vlib
    n = 3 if ctx.quick else 12
    for i in range(n):
        tr = os.path.join(ctx.work, "trace-window-%d.ndjson" % i)
        runs = 60 if ctx.quick else 150
        rc, out, _ = vlib.sh([binp, "record-window", "--seed", str(ctx.seed * 1000 + i), "--runs", str(runs),
                              "--maxlen", "40" if ctx.quick else "120", "--out", tr])
        if rc != 0:
            raise vlib.ToolError("record-window failed: " + out[-500:])
        ctx.trace("window-%d" % i, "TraceWindow", tr, n_runs=runs)
    ctx.assumptions += [
        "input values are position codes (xs[i] = 10+i, ys[i] = 1000+i): the drivers are parametric in the element "
        "values, so distinct values per position expose any misrouted element",
        "TLC 1.8.0 and the TLA+ semantics of the specification modules are trusted",
    ]
