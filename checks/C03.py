"""C03  Rolling extrema, arg-extrema, rank and normalisation are exact per window."""
import os
import sys
sys.path.insert(0, os.path.dirname(__file__))
from common import ORDER, BASE_ASSUMPTIONS, laws1  # noqa: E402

RULE = ("RollKernels.tla: the extrema cache (value, index, rescan on expiry) as coded vs least/greatest valid element, "
        "most-recent arg, average rank, z-score and min-max definitions of Stats.tla; TLC checks OutDef and CacheInWindow "
        "(BFS with a tie-heavy alphabet, simulation with monotone/plateau-prone small alphabets); replay compares min, max, "
        "arg, rank exactly; traces of long tie/monotone/null-burst runs are validated against TraceRoll.tla")


def run(ctx):
    q = ctx.quick
    r1 = ctx.tlc("roll-bfs", "MCRoll", "MCRoll_quick.cfg" if q else "MCRoll_thorough.cfg", workers=12 if q else 16,
                 timeout=600 if q else 5400)
    r2 = ctx.tlc("roll-ties", "MCRoll", "MCRoll_ties.cfg", sim=(250 if q else 4000, 15), workers=12, timeout=3000)
    # history-free configuration: a finite cyclic graph, so the invariants hold for histories of EVERY length
    ctx.tlc("roll-win", "MCRollWin", "MCRollWin_quick.cfg" if q else "MCRollWin_thorough.cfg", workers=12 if q else 16,
            timeout=900 if q else 7200, emit=False)
    binp = ctx.build("tvh-roll")
    extra = ([] if q else ["--full"]) + laws1(ctx)
    ctx.harness("roll-bfs", binp, ["replay-roll1", "--kernels", ORDER, "--in", r1["emitted"]] + extra)
    ctx.harness("roll-ties", binp, ["replay-roll1", "--kernels", ORDER, "--in", r2["emitted"]] + extra)
    # long windows (215 .. 260, thorough .. 400) on arithmetic progressions: closed forms of every definition
    # (LineLawOK checks closed form = definition within a bound), emitted as ordinary roll1 cases
    ctx.tlc("line-law", "MCLongLine", "MCLongLine_law.cfg", workers=4, timeout=900, emit=False)
    rl = ctx.tlc("long-line", "MCLongLine", "MCLongLine_quick.cfg" if q else "MCLongLine_thorough.cfg", workers=4, timeout=900)
    ctx.harness("long-line", binp, ["replay-roll1", "--kernels", ORDER, "--in", rl["emitted"]] + extra)
    n = 2 if q else 10
    for i in range(n):
        runs, steps = (3, 250) if q else (4, 1500)
        ctx.record_and_trace("roll-%d" % i, binp, ["record-roll1", "--seed", str(ctx.seed * 100 + 50 + i), "--runs", str(runs),
                                                   "--steps", str(steps)], "TraceRoll", runs)
    # wide windows (9..40): the streaming machine against the definitions far beyond the model-checked window sizes
    for i in range(1 if q else 6):
        runs, steps = (4, 200) if q else (6, 1200)
        ctx.record_and_trace("roll-wide-%d" % i, binp, ["record-roll1", "--wide", "--seed", str(ctx.seed * 100 + 50 + 20 + i),
                                                        "--runs", str(runs), "--steps", str(steps)], "TraceRoll", runs)
    ctx.assumptions += BASE_ASSUMPTIONS + [
        "an omitted min_periods of the extrema/rank family is compared for len >= w only (DESIGN 5.3)",
        "arg-extrema / min / max of an all-null window with min_periods 0 are unspecified (DESIGN 5.6)",
    ]
