"""C11  Aggregations equal their textbook definitions over the non-null elements."""
import os
import sys
sys.path.insert(0, os.path.dirname(__file__))
from common import BASE_ASSUMPTIONS  # noqa: E402

RULE = ("Agg.tla: definitions over Sel(s) / PairSel, the one-pass fold machine, thresholds; TLC enumerates every series "
        "(and every pair / mask) within the bound with every min_periods, runs the fold to the end and checks FoldRefines, "
        "FoldPrefix, PermInvariant (all permutations), NullTransparent; every case is replayed into the AggValidBasic / "
        "AggValidExt / AggBasic entry points over NaN-coded, None-coded, integer series and owned / borrowed / option-view "
        "sources, and again with the series measured in other units (Laws3.tla: homogeneity checked by TLC, degree table "
        "emitted; 1.3e-4, 123467.8, 4e8 for i32, 1.5e18 for i64); the fold primitives vfold / vfold_n / vapply / vapply_n / "
        "vfold2 are bound by the sequence of closure calls (FoldCalls = the valid elements, in order) and n_add / n_prod / "
        "kh_sum / min_with / max_with by their folds (FoldPrimitives); float series holding +-infinity as valid elements "
        "(InfAggOf, InfLaws: no finite bound stands in for an infinite extreme)")


def run(ctx):
    q = ctx.quick
    r1 = ctx.tlc("agg", "MCAgg", "MCAgg_quick.cfg" if q else "MCAgg_thorough.cfg", workers=12, timeout=3000)
    r2 = ctx.tlc("agg2", "MCAgg", "MCAgg2_quick.cfg" if q else "MCAgg2_thorough.cfg", workers=12, timeout=3000)
    # units of measurement: homogeneity of every scale-bearing aggregation, degree table for the harness
    l3 = ctx.tlc("laws3", "MCLaws3", "MCLaws3_quick.cfg" if q else "MCLaws3_thorough.cfg", workers=8, timeout=3000)
    ctx.tlc("laws3p", "MCLaws3", "MCLaws3p_quick.cfg" if q else "MCLaws3p_thorough.cfg", workers=8, timeout=3000, emit=False)
    laws = ["--laws", l3["emitted"]]
    binp = ctx.build("tvh-agg")
    ctx.harness("agg", binp, ["replay-agg", "--in", r1["emitted"]] + laws)
    ctx.harness("agg2", binp, ["replay-agg", "--in", r2["emitted"]] + laws)
    # tie-heavy samples of length 4..7 (thorough ..9) over {-1, 0, 1}: moments that hit special values exactly
    rt = ctx.tlc("agg-ties", "MCAgg", "MCAgg_ties.cfg" if q else "MCAgg_ties_thorough.cfg", workers=12, timeout=3000)
    ctx.harness("agg-ties", binp, ["replay-agg", "--in", rt["emitted"]] + laws)
    # float series holding +-infinity (valid elements): InfAggOf and InfLaws, replayed on f64 / f32 / Option cells
    ri = ctx.tlc("agg-inf", "MCAgg", "MCAgg_inf.cfg" if q else "MCAgg_inf_thorough.cfg", workers=8, timeout=3000)
    ctx.harness("agg-inf", binp, ["replay-agg", "--in", ri["emitted"]])
    ctx.assumptions += BASE_ASSUMPTIONS + [
        "AggBasic (null-unaware) twins are checked on null-free input only (DESIGN 5.9)",
        "skewness / kurtosis of a constant sample are unspecified (DESIGN 5.6); the mean of an empty masked selection with "
        "min_periods 0 is unspecified",
        "the fold machine is bound through its final state and through the closure calls of the fold primitives",
        "a sum over a series that holds both infinities has no value (left open); moments of series with infinities are not specified",
    ]
