"""C18  Parsers are total and round-trip with their formatters."""
import os
import sys
sys.path.insert(0, os.path.dirname(__file__))
from common import BASE_ASSUMPTIONS  # noqa: E402

RULE = ("DurationParse.tla: the duration scanner as a state machine over symbol strings (digits, signs, unit letters, a "
        "non-unit letter, '.', ' ', a two-byte character, a 20-digit literal, the i64::MAX literal, the digit run 1500 for "
        "sub-second terms that carry into whole seconds) with the grammar "
        "WellFormed / Meaning defined independently; TLC checks Total (liveness), StartLeI and Sound over every string up to "
        "the bound and over every string of a grammar-directed alphabet up to a longer bound; every string is rendered to "
        "UTF-8 and given to TimeDelta::parse / FromStr, DateTime::parse / FromStr, Time::parse under catch_unwind (a panic is "
        "a violation; well-formed strings must parse to the sum of their terms); the date-time strftime / parse round trip "
        "is replayed on the C16 grid with the default and the listed formats")


def run(ctx):
    q = ctx.quick
    r1 = ctx.tlc("dur", "MCDuration", "MCDuration_quick.cfg" if q else "MCDuration_thorough.cfg", workers=8, timeout=3000)
    r2 = ctx.tlc("terms", "MCDuration", "MCDuration_terms.cfg" if q else "MCDuration_terms_thorough.cfg", workers=8, timeout=3000)
    r4 = ctx.tlc("subsec", "MCDuration", "MCDuration_subsec.cfg" if q else "MCDuration_subsec_thorough.cfg", workers=8, timeout=3000)
    r3 = ctx.tlc("grid", "MCTime", "MCTime_c16.cfg", workers=4, timeout=900)
    binp = ctx.build("tvh-time")
    ctx.harness("dur", binp, ["replay-parse", "--in", r1["emitted"]])
    ctx.harness("terms", binp, ["replay-parse", "--in", r2["emitted"]])
    ctx.harness("subsec", binp, ["replay-parse", "--in", r4["emitted"]])
    ctx.harness("roundtrip", binp, ["replay-parse", "--in", r3["emitted"]])
    ctx.assumptions += BASE_ASSUMPTIONS[:1] + [
        "for malformed duration text a value or an error are both accepted: the property fixes totality only",
        "chrono's own parser / formatter is bound by conformance only (strings in, no panic out)",
        "round trips cover years -9999 .. 12345 (second / millisecond / microsecond units) with the default, dash and slash "
        "formats; the two formats that do not delimit the year are required to round-trip for four-digit years only (a signed "
        "or five-digit undelimited year is ambiguous in the calendar library's own grammar)",
    ]
